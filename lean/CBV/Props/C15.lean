/-
C15 — property theorems.  Laplacian smoothing (`SmootherBase.smooth`) leaves boundary and fixed
points where they were, moves every other point to the average of its edge neighbours, has exactly
the "every free point is its neighbours' average" states as fixed points (among them every affine
image of a lattice), its neighbours are the cell edges of the blockMesh convention (tables
regenerated from the source on every run), and the copy-back is consistent for all faces.
-/
import CBV.Model.C15
import CBV.Lemmas.C15
import CBV.Lemmas.C15Max
import CBV.Lemmas.C15Graph
import CBV.Lemmas.C15Lattice
import CBV.Lemmas.C15Hex
import CBV.Lemmas.C15Rate
import Mathlib.Tactic.Ring
import Mathlib.Tactic.Linarith
import Mathlib.Tactic.FieldSimp
import Mathlib.Algebra.Order.Field.Rat
import CBV.Gen.TC15

namespace CBV.C15
open CBV

/-! ### frame: boundary and fixed points do not move -/

/-- for every grid, every fixed set, every number of iterations and all positions: a junction that is
    on the boundary (`Junction.is_boundary`) or fixed keeps its position exactly; so does every index
    outside the grid, and the number of points never changes -/
theorem T_C15_frame (g : Grid) (fixed : List Nat) (k : Nat) (p : List V3) (i : Nat)
    (h : isBoundary g i = true ∨ i ∈ fixed ∨ g.n ≤ i) :
    pget (smooth g fixed k p) i = pget p i ∧ (smooth g fixed k p).length = p.length := by
  refine ⟨?_, ?_⟩
  · unfold smooth
    apply pget_iter
    intro q
    apply pget_sweep_of_not_free
    rcases h with h | h | h
    · left; intro hm; have := (mem_inner g i).mp hm; simp [h] at this
    · right; exact h
    · left; intro hm; have := (mem_inner g i).mp hm; omega
  · unfold smooth
    exact iter_length _ (fun q => sweep_length _ _ _ q) k p

/-- non-vacuity: the 2×2 quad map has exactly one inner junction (4); all others are boundary -/
example : (List.range 9).map (isBoundary ⟨quadKind, [[0, 1, 4, 3], [1, 2, 5, 4], [3, 4, 7, 6], [4, 5, 8, 7]], 9⟩)
    = [true, true, true, true, false, true, true, true, true] := by decide

/-! ### the update is the average of the edge neighbours (Gauss–Seidel: current values) -/

/-- Right after junction `j` (free, inside the grid, not its own neighbour) was visited, its position is the
    average of the *current* positions of its neighbours — for every prefix `pre` of the visiting order,
    so in particular for the junction visited last in a sweep. -/
theorem T_C15_avg (pre : List Nat) (j : Nat) (nbrs : Nat → List Nat) (fixed : List Nat) (p : List V3)
    (hfree : j ∉ fixed) (hself : j ∉ nbrs j) (hlen : j < p.length) :
    let p' := sweep (pre ++ [j]) nbrs fixed p
    pget p' j = avg ((nbrs j).map (pget p')) := by
  intro p'
  have hp' : p' = step nbrs fixed (sweep pre nbrs fixed p) j := by
    simp only [p', sweep_append, sweep_cons, sweep_nil]
  rw [hp']
  unfold step
  simp only [List.contains_iff_mem, hfree, if_false]
  have hl : j < (sweep pre nbrs fixed p).length := by simpa using hlen
  rw [pget_set_self _ _ _ hl]
  congr 1
  apply List.map_congr_left
  intro n hn
  rw [pget_set_ne]
  rintro rfl; exact hself hn

/-- the neighbour list of the grid never contains the junction itself -/
theorem T_C15_not_self (g : Grid) (j : Nat) : j ∉ junctionNbrs g j := by
  unfold junctionNbrs; simp [List.mem_filter]

/-- non-vacuity of `T_C15_avg`: the centre of the 2×2 map moves to the average of its four edge neighbours -/
example :
    let g : Grid := ⟨quadKind, [[0, 1, 4, 3], [1, 2, 5, 4], [3, 4, 7, 6], [4, 5, 8, 7]], 9⟩
    let p : List V3 := [⟨0,0,0⟩, ⟨1,0,0⟩, ⟨2,0,0⟩, ⟨0,1,0⟩, ⟨5/4,3/4,0⟩, ⟨2,1,0⟩, ⟨0,2,0⟩, ⟨1,2,0⟩, ⟨2,2,0⟩]
    junctionNbrs g 4 = [1, 3, 5, 7] ∧ inner g = [4] ∧ pget (smooth g [] 1 p) 4 = ⟨1, 1, 0⟩ := by decide +kernel

/-! ### fixed points -/

/-- one sweep leaves the positions unchanged iff every free inner junction (inside the position list)
    already is the average of its edge neighbours -/
theorem T_C15_fixpoint (g : Grid) (fixed : List Nat) (p : List V3) :
    smooth g fixed 1 p = p ↔
      ∀ j, j < g.n → isBoundary g j = false → j ∉ fixed → j < p.length →
        pget p j = avg ((junctionNbrs g j).map (pget p)) := by
  unfold smooth
  simp only [iter]
  rw [sweep_eq_self_iff _ (inner_nodup g)]
  constructor
  · intro h j hj hb; exact h j ((mem_inner g j).mpr ⟨hj, hb⟩)
  · intro h j hm; have := (mem_inner g j).mp hm; exact h j this.1 this.2

/-- … and then any number of iterations leaves them unchanged -/
theorem T_C15_fixpoint_iter (g : Grid) (fixed : List Nat) (p : List V3) (k : Nat) (h : smooth g fixed 1 p = p) :
    smooth g fixed k p = p := by
  unfold smooth at h ⊢
  simp only [iter] at h
  exact iter_fix _ p h k

/-! ### a regular lattice with regular boundary is a fixed point -/

/-- affine image `o + x·u + y·v + z·w` of lattice coordinates -/
def affineImg (o u v w c : V3) : V3 := o + (V3.smul c.x u + V3.smul c.y v + V3.smul c.z w)

/-
The implication below holds for *every* grid and labelling (also unstructured ones whose neighbour stencils happen to be
centrally symmetric); its hypothesis is proved for the structured quad map of every size (`T_C15_lattice_quads`) and for
the structured hexahedral assembly of every size (`T_C15_lattice_hexes`); the harness lets the model decide
`latticeLikeB` for every regular grid it generates (request `c15.lattice`).
-/
/-- If the junction coordinates are lattice-like, every position list that is an affine image
    `o + x·u + y·v + z·w` of the coordinates on the junctions of the grid is left unchanged by smoothing,
    for any number of iterations. -/
theorem T_C15_lattice_partial (g : Grid) (fixed : List Nat) (coord : Nat → V3) (o u v w : V3) (p : List V3)
    (hl : LatticeLike g fixed coord)
    (hp : ∀ n, n < g.n → pget p n = affineImg o u v w (coord n))
    (k : Nat) : smooth g fixed k p = p := by
  apply T_C15_fixpoint_iter
  rw [T_C15_fixpoint]
  intro j hj hb hf _
  obtain ⟨hne, hs⟩ := hl j ((mem_inner g j).mpr ⟨hj, hb⟩) hf
  have hmap : (junctionNbrs g j).map (pget p) =
      (junctionNbrs g j).map (fun n => o + (V3.smul (coord n).x u + V3.smul (coord n).y v + V3.smul (coord n).z w)) := by
    apply List.map_congr_left
    intro t ht
    exact hp t ((mem_junctionNbrs g j t).mp ht).1
  rw [hmap, hp j hj]
  unfold avg affineImg
  rw [vsum_map_affine, hs, List.length_map]
  have hlen : ((junctionNbrs g j).length : Rat) ≠ 0 := by
    have : (junctionNbrs g j).length ≠ 0 := by
      intro h0; exact hne (List.length_eq_zero_iff.mp h0)
    exact_mod_cast this
  apply V3.ext' <;> simp <;> field_simp

/-- non-vacuity: the 3×3 and 4×2 structured maps are lattice-like (inner junctions: the lattice-interior points) -/
example : LatticeLike (structQuads 3 3) [] (quadCoord 3) ∧ inner (structQuads 3 3) = [5, 6, 9, 10] :=
  ⟨latticeLike_of_B _ _ _ (by decide +kernel), by decide +kernel⟩

example : LatticeLike (structQuads 4 2) [6] (quadCoord 4) ∧ inner (structQuads 4 2) = [6, 7, 8] :=
  ⟨latticeLike_of_B _ _ _ (by decide +kernel), by decide +kernel⟩

/-- **The lattice-like condition is exactly what is needed** (any grid, structured or not, in which the free inner
    junctions have neighbours): the labelling `coord` has centrally symmetric neighbour stencils at every free inner
    junction **iff** every affine image of it is left unchanged by smoothing.  So for an unstructured regular grid the
    hypothesis of `T_C15_lattice_partial` cannot be weakened: it is equivalent to the conclusion. -/
theorem T_C15_lattice_iff (g : Grid) (fixed : List Nat) (coord : Nat → V3) (hdef : defined g fixed = true) :
    LatticeLike g fixed coord ↔
      ∀ (o u v w : V3) (p : List V3), p.length = g.n →
        (∀ n, n < g.n → pget p n = affineImg o u v w (coord n)) → smooth g fixed 1 p = p := by
  constructor
  · intro hl o u v w p _ hp
    exact T_C15_lattice_partial g fixed coord o u v w p hl hp 1
  · intro h j hj hf
    obtain ⟨hlt, hbd⟩ := (mem_inner g j).mp hj
    have hne : junctionNbrs g j ≠ [] := by
      unfold defined at hdef
      have := List.all_eq_true.mp hdef j hj
      simpa [hf] using this
    refine ⟨hne, ?_⟩
    -- the identity image of the labelling
    have hp : ∀ n, n < g.n → pget ((List.range g.n).map coord) n = affineImg V3.zero ⟨1, 0, 0⟩ ⟨0, 1, 0⟩ ⟨0, 0, 1⟩ (coord n) := by
      intro n hn
      unfold pget affineImg
      simp only [List.getD_eq_getElem?_getD, List.getElem?_map, List.getElem?_range hn, Option.map_some, Option.getD_some]
      apply V3.ext' <;> simp [V3.zero]
    have hfix := h V3.zero ⟨1, 0, 0⟩ ⟨0, 1, 0⟩ ⟨0, 0, 1⟩ ((List.range g.n).map coord) (by simp) hp
    have hid : ∀ n, n < g.n → pget ((List.range g.n).map coord) n = coord n := by
      intro n hn
      unfold pget
      simp [List.getD_eq_getElem?_getD, List.getElem?_map, List.getElem?_range hn]
    have hj' := (T_C15_fixpoint g fixed _).mp hfix j hlt hbd hf (by simpa using hlt)
    have hmap : (junctionNbrs g j).map (pget ((List.range g.n).map coord)) = (junctionNbrs g j).map coord :=
      List.map_congr_left (fun t ht => hid t ((mem_junctionNbrs g j t).mp ht).1)
    rw [hid j hlt, hmap] at hj'
    have hlen : ((junctionNbrs g j).length : Rat) ≠ 0 := by
      have : (junctionNbrs g j).length ≠ 0 := fun h0 => hne (List.length_eq_zero_iff.mp h0)
      exact_mod_cast this
    unfold avg at hj'
    rw [List.length_map] at hj'
    rw [hj']
    apply V3.ext' <;> simp <;> field_simp

/-- non-vacuity of `T_C15_lattice_iff`: the hypothesis holds for the 3×3 map; and the labelling that puts point 5 off its
    lattice place is *not* lattice-like (so, by the equivalence, some affine image of it is moved by smoothing) -/
example : defined (structQuads 3 3) [] = true ∧
    latticeLikeB (structQuads 3 3) [] (fun q => if q = 5 then ⟨5/4, 1, 0⟩ else quadCoord 3 q) = false := by
  decide +kernel

/-- the regular lattice: point `q` of the structured `nx × ny` map at `o + (q mod (nx+1))·u + (q div (nx+1))·v` -/
def latticePts (nx ny : Nat) (o u v : V3) : List V3 :=
  (List.range ((nx + 1) * (ny + 1))).map (fun q => affineImg o u v V3.zero (quadCoord nx q))

theorem pget_latticePts (nx ny : Nat) (o u v : V3) (q : Nat) (h : q < (nx + 1) * (ny + 1)) :
    pget (latticePts nx ny o u v) q = affineImg o u v V3.zero (quadCoord nx q) := by
  unfold latticePts pget
  simp [List.getD_eq_getElem?_getD, List.getElem?_map, List.getElem?_range h]

/-- **Regular boundary ⇒ regular lattice, every size**: for all `nx, ny ≥ 1` (cells per direction), every
    fixed set, every origin `o` and edge vectors `u, v` (any affine image of the integer lattice — skewed,
    stretched, rotated in space) and every number of iterations, the regular lattice of the structured
    `nx × ny` quad map is left exactly unchanged by the smoothing of the model. -/
theorem T_C15_lattice_quads (nx ny : Nat) (h1 : 1 ≤ nx) (h2 : 1 ≤ ny) (fixed : List Nat) (o u v : V3) (k : Nat) :
    smooth (structQuads nx ny) fixed k (latticePts nx ny o u v) = latticePts nx ny o u v :=
  T_C15_lattice_partial (structQuads nx ny) fixed (quadCoord nx) o u v V3.zero _
    (structQuads_latticeLike nx ny h1 h2 fixed) (fun q hq => pget_latticePts nx ny o u v q hq) k

/-- the topology behind it, for all sizes: rim points of the lattice are boundary junctions, inner junctions
    are lattice-interior, and a lattice-interior point has exactly its four lattice neighbours -/
theorem T_C15_lattice_topology (nx ny : Nat) (h1 : 1 ≤ nx) (h2 : 1 ≤ ny) :
    (∀ x y, x ≤ nx → y ≤ ny → (x = 0 ∨ x = nx ∨ y = 0 ∨ y = ny) →
      isBoundary (structQuads nx ny) (y * (nx + 1) + x) = true) ∧
    (∀ q ∈ inner (structQuads nx ny), ∃ x y, q = (y + 1) * (nx + 1) + (x + 1) ∧ x + 2 ≤ nx ∧ y + 2 ≤ ny) ∧
    (∀ x y, x + 2 ≤ nx → y + 2 ≤ ny →
      junctionNbrs (structQuads nx ny) ((y + 1) * (nx + 1) + (x + 1)) =
        [y * (nx + 1) + (x + 1), (y + 1) * (nx + 1) + x, (y + 1) * (nx + 1) + (x + 2),
         (y + 2) * (nx + 1) + (x + 1)]) :=
  ⟨fun x y hx hy hb => border_isBoundary nx ny x y h1 h2 hx hy hb,
   fun q hq => inner_interior nx ny q h1 h2 hq,
   fun x y hx hy => interior_nbrs nx ny x y hx hy⟩

/-- non-vacuity (a skewed 3×2 lattice in space, one sweep evaluated by the kernel; its inner junctions are 5 and 6) -/
example : inner (structQuads 3 2) = [5, 6] ∧
    smooth (structQuads 3 2) [] 1 (latticePts 3 2 ⟨1, 2, 3⟩ ⟨2, 1/2, 0⟩ ⟨-1/3, 1, 1⟩)
      = latticePts 3 2 ⟨1, 2, 3⟩ ⟨2, 1/2, 0⟩ ⟨-1/3, 1, 1⟩ := by decide +kernel

/-! ### hexahedral assemblies of every size -/

/-- the regular lattice of the `nx × ny × nz` assembly: point `q` at `o + x·u + y·v + z·w` -/
def hexLatticePts (nx ny nz : Nat) (o u v w : V3) : List V3 :=
  (List.range ((nz + 1) * ((ny + 1) * (nx + 1)))).map (fun q => affineImg o u v w (hexCoord nx ny q))

theorem pget_hexLatticePts (nx ny nz : Nat) (o u v w : V3) (q : Nat) (h : q < (nz + 1) * ((ny + 1) * (nx + 1))) :
    pget (hexLatticePts nx ny nz o u v w) q = affineImg o u v w (hexCoord nx ny q) := by
  unfold hexLatticePts pget
  simp [List.getD_eq_getElem?_getD, List.getElem?_map, List.getElem?_range h]

/-- **Regular boundary ⇒ regular lattice for hexahedral assemblies of every size**: for all `nx, ny, nz ≥ 1`, every
    fixed set, every origin and edge vectors `o, u, v, w` (any affine image of the integer lattice) and every number
    of iterations, the regular lattice of the structured assembly is left exactly unchanged by smoothing. -/
theorem T_C15_lattice_hexes (nx ny nz : Nat) (h1 : 1 ≤ nx) (h2 : 1 ≤ ny) (h3 : 1 ≤ nz) (fixed : List Nat)
    (o u v w : V3) (k : Nat) :
    smooth (structHexes nx ny nz) fixed k (hexLatticePts nx ny nz o u v w) = hexLatticePts nx ny nz o u v w :=
  T_C15_lattice_partial (structHexes nx ny nz) fixed (hexCoord nx ny) o u v w _
    (structHexes_latticeLike nx ny nz h1 h2 h3 fixed) (fun q hq => pget_hexLatticePts nx ny nz o u v w q hq) k

/-- the topology behind it, all sizes: every lattice point with a coordinate on the rim (the outer surface of the box)
    is a boundary junction, inner junctions are lattice-interior vertices, and a lattice-interior vertex has exactly
    its six lattice neighbours -/
theorem T_C15_lattice_hex_topology (nx ny nz : Nat) (h1 : 1 ≤ nx) (h2 : 1 ≤ ny) (h3 : 1 ≤ nz) :
    (∀ x y z, x ≤ nx → y ≤ ny → z ≤ nz → (x = 0 ∨ x = nx ∨ y = 0 ∨ y = ny ∨ z = 0 ∨ z = nz) →
      isBoundary (structHexes nx ny nz) (z * ((ny + 1) * (nx + 1)) + y * (nx + 1) + x) = true) ∧
    (∀ q ∈ inner (structHexes nx ny nz), ∃ x y z,
      q = (z + 1) * ((ny + 1) * (nx + 1)) + (y + 1) * (nx + 1) + (x + 1) ∧ x + 2 ≤ nx ∧ y + 2 ≤ ny ∧ z + 2 ≤ nz) ∧
    (∀ x y z, x + 2 ≤ nx → y + 2 ≤ ny → z + 2 ≤ nz →
      junctionNbrs (structHexes nx ny nz) ((z + 1) * ((ny + 1) * (nx + 1)) + (y + 1) * (nx + 1) + (x + 1)) =
        [z * ((ny + 1) * (nx + 1)) + (y + 1) * (nx + 1) + (x + 1),
         (z + 1) * ((ny + 1) * (nx + 1)) + y * (nx + 1) + (x + 1),
         (z + 1) * ((ny + 1) * (nx + 1)) + (y + 1) * (nx + 1) + x,
         (z + 1) * ((ny + 1) * (nx + 1)) + (y + 1) * (nx + 1) + (x + 2),
         (z + 1) * ((ny + 1) * (nx + 1)) + (y + 2) * (nx + 1) + (x + 1),
         (z + 2) * ((ny + 1) * (nx + 1)) + (y + 1) * (nx + 1) + (x + 1)]) :=
  ⟨fun x y z hx hy hz hb => border_isBoundary_hex nx ny nz x y z h1 h2 h3 hx hy hz hb,
   fun q hq => inner_interior_hex nx ny nz q h1 h2 h3 hq,
   fun x y z hx hy hz => interior_nbrs_hex nx ny nz x y z h2 hx hy hz⟩

/-- non-vacuity: the 2×2×2 assembly has one inner junction, the centre (13), with its six face neighbours -/
example : inner (structHexes 2 2 2) = [13] ∧ junctionNbrs (structHexes 2 2 2) 13 = [4, 10, 12, 14, 16, 22] := by
  decide +kernel

/-! ### neighbours are the cell edges, never a diagonal -/

/-- membership in `Junction.neighbours`, for every grid: another junction of the grid joined to `j` by
    an entry of `edge_pairs` inside a cell that contains `j` -/
theorem T_C15_neigh (g : Grid) (j t : Nat) :
    t ∈ junctionNbrs g j ↔
      t < g.n ∧ t ≠ j ∧ ∃ cell ∈ g.cells, j ∈ cell ∧ ∃ e ∈ g.kind.edgePairs,
        (cell.getD e.1 0 = j ∧ cell.getD e.2 0 = t) ∨ (cell.getD e.1 0 = t ∧ cell.getD e.2 0 = j) := by
  unfold junctionNbrs connected
  simp only [List.mem_filter, List.mem_range, Bool.and_eq_true, bne_iff_ne, ne_eq, List.any_eq_true,
    List.contains_iff_mem, Bool.or_eq_true, beq_iff_eq]

/-- blockMesh numbering: local coordinates of corner `c` of a hexahedron -/
def bits (c : Nat) : Bool × Bool × Bool := (c % 4 == 1 || c % 4 == 2, c % 4 == 2 || c % 4 == 3, c ≥ 4)

/-- two corners of a hexahedron are joined by an edge iff they differ in exactly one coordinate -/
def hexAdjacent (a b : Nat) : Bool :=
  let x := bits a; let y := bits b
  ((if x.1 != y.1 then 1 else 0) + (if x.2.1 != y.2.1 then 1 else 0) + (if x.2.2 != y.2.2 then 1 else 0)) == 1

/-- two corners of a quadrilateral are joined by an edge iff they are consecutive -/
def quadAdjacent (a b : Nat) : Bool := b == (a + 1) % 4 || a == (b + 1) % 4

/-- the generated `HexCell.edge_pairs` / `QuadCell.edge_pairs` are exactly the edges of the cell
    (all 12 / 4 of them, in some direction; never a face or cell diagonal) and stay inside the cell -/
theorem T_C15_edge_tables :
    (∀ a ∈ List.range 8, ∀ b ∈ List.range 8,
      (((a, b) ∈ CBV.Gen.hexEdgePairs ∨ (b, a) ∈ CBV.Gen.hexEdgePairs) ↔ hexAdjacent a b = true)) ∧
    (∀ e ∈ CBV.Gen.hexEdgePairs, e.1 < 8 ∧ e.2 < 8) ∧
    (∀ a ∈ List.range 4, ∀ b ∈ List.range 4,
      (((a, b) ∈ CBV.Gen.quadEdgePairs ∨ (b, a) ∈ CBV.Gen.quadEdgePairs) ↔ quadAdjacent a b = true)) ∧
    (∀ e ∈ CBV.Gen.quadEdgePairs, e.1 < 4 ∧ e.2 < 4) := by decide

/-- the generated side tables are the six faces of the hexahedron (constant in one coordinate) and the
    four edges of the quadrilateral: what `CellBase.boundary` adds for a side without neighbour -/
def hexSideOk (s : List Nat) : Bool :=
  s.length == 4 && s.all (· < 8) &&
    ([0, 1, 2].any fun ax => [true, false].any fun v =>
      (List.range 8).all fun c =>
        (s.contains c) == ((match ax with | 0 => (bits c).1 | 1 => (bits c).2.1 | _ => (bits c).2.2) == v))

def quadSideOk (s : List Nat) : Bool :=
  match s with
  | [a, b] => a < 4 && b < 4 && quadAdjacent a b
  | _ => false

/-- no two sides of the table have the same corner set -/
def sidesDistinct (ss : List (List Nat)) : Bool :=
  (List.range ss.length).all fun i => (List.range ss.length).all fun j =>
    i == j || !setEq (ss.getD i []) (ss.getD j [])

theorem T_C15_side_tables :
    CBV.Gen.hexSideIdx.length = 6 ∧ CBV.Gen.hexSideIdx.all hexSideOk = true ∧
    sidesDistinct CBV.Gen.hexSideIdx = true ∧
    CBV.Gen.quadSideIdx.length = 4 ∧ CBV.Gen.quadSideIdx.all quadSideOk = true ∧
    sidesDistinct CBV.Gen.quadSideIdx = true := by decide

/-- for a hexahedral grid: `to` is a neighbour of `j` iff some cell holds `j` and `to` at two corners that
    differ in exactly one coordinate of the blockMesh numbering -/
theorem T_C15_neigh_hex (cells : List (List Nat)) (n j t : Nat) :
    t ∈ junctionNbrs ⟨hexKind, cells, n⟩ j ↔
      t < n ∧ t ≠ j ∧ ∃ cell ∈ cells, j ∈ cell ∧ ∃ a b, a < 8 ∧ b < 8 ∧ hexAdjacent a b = true ∧
        cell.getD a 0 = j ∧ cell.getD b 0 = t := by
  rw [T_C15_neigh]
  have T := T_C15_edge_tables
  constructor
  · rintro ⟨h1, h2, cell, hc, hj, e, he, h⟩
    refine ⟨h1, h2, cell, hc, hj, ?_⟩
    have hlt := T.2.1 e he
    have hadj : hexAdjacent e.1 e.2 = true :=
      (T.1 e.1 (List.mem_range.mpr hlt.1) e.2 (List.mem_range.mpr hlt.2)).mp (Or.inl he)
    have hadj' : hexAdjacent e.2 e.1 = true :=
      (T.1 e.2 (List.mem_range.mpr hlt.2) e.1 (List.mem_range.mpr hlt.1)).mp (Or.inr he)
    rcases h with ⟨ha, hb⟩ | ⟨ha, hb⟩
    · exact ⟨e.1, e.2, hlt.1, hlt.2, hadj, ha, hb⟩
    · exact ⟨e.2, e.1, hlt.2, hlt.1, hadj', hb, ha⟩
  · rintro ⟨h1, h2, cell, hc, hj, a, b, ha, hb, hadj, hja, hjb⟩
    refine ⟨h1, h2, cell, hc, hj, ?_⟩
    rcases (T.1 a (List.mem_range.mpr ha) b (List.mem_range.mpr hb)).mpr hadj with he | he
    · exact ⟨(a, b), he, Or.inl ⟨hja, hjb⟩⟩
    · exact ⟨(b, a), he, Or.inr ⟨hjb, hja⟩⟩

/-- for a quad map: `to` is a neighbour of `j` iff some face holds them at consecutive corners -/
theorem T_C15_neigh_quad (cells : List (List Nat)) (n j t : Nat) :
    t ∈ junctionNbrs ⟨quadKind, cells, n⟩ j ↔
      t < n ∧ t ≠ j ∧ ∃ cell ∈ cells, j ∈ cell ∧ ∃ a b, a < 4 ∧ b < 4 ∧ quadAdjacent a b = true ∧
        cell.getD a 0 = j ∧ cell.getD b 0 = t := by
  rw [T_C15_neigh]
  have T := T_C15_edge_tables
  constructor
  · rintro ⟨h1, h2, cell, hc, hj, e, he, h⟩
    refine ⟨h1, h2, cell, hc, hj, ?_⟩
    have hlt := T.2.2.2 e he
    have hadj : quadAdjacent e.1 e.2 = true :=
      (T.2.2.1 e.1 (List.mem_range.mpr hlt.1) e.2 (List.mem_range.mpr hlt.2)).mp (Or.inl he)
    have hadj' : quadAdjacent e.2 e.1 = true :=
      (T.2.2.1 e.2 (List.mem_range.mpr hlt.2) e.1 (List.mem_range.mpr hlt.1)).mp (Or.inr he)
    rcases h with ⟨ha, hb⟩ | ⟨ha, hb⟩
    · exact ⟨e.1, e.2, hlt.1, hlt.2, hadj, ha, hb⟩
    · exact ⟨e.2, e.1, hlt.2, hlt.1, hadj', hb, ha⟩
  · rintro ⟨h1, h2, cell, hc, hj, a, b, ha, hb, hadj, hja, hjb⟩
    refine ⟨h1, h2, cell, hc, hj, ?_⟩
    rcases (T.2.2.1 a (List.mem_range.mpr ha) b (List.mem_range.mpr hb)).mpr hadj with he | he
    · exact ⟨(a, b), he, Or.inl ⟨hja, hjb⟩⟩
    · exact ⟨(b, a), he, Or.inr ⟨hjb, hja⟩⟩

/-- non-vacuity: in the 2×2 map the centre's neighbours are the four edge mid points, not the corners -/
example : junctionNbrs (structQuads 2 2) 4 = [1, 3, 5, 7] := by decide

/-! ### copy back -/

/-- `SketchSmoother.backport`: corner `c` of face `f` receives the smoothed position of its point, so
    all faces that share a point receive the same position -/
theorem T_C15_backport (quads : List (List Nat)) (p : List V3) (f c : Nat) :
    ((backportSketch quads p)[f]?).bind (·[c]?) = ((quads[f]?).bind (·[c]?)).map (pget p) := by
  unfold backportSketch
  rw [List.getElem?_map]
  cases quads[f]? with
  | none => rfl
  | some q => simp [List.getElem?_map]

theorem T_C15_backport_shared (quads : List (List Nat)) (p : List V3) (f1 c1 f2 c2 i : Nat)
    (h1 : (quads[f1]?).bind (·[c1]?) = some i) (h2 : (quads[f2]?).bind (·[c2]?) = some i) :
    ((backportSketch quads p)[f1]?).bind (·[c1]?) = some (pget p i) ∧
    ((backportSketch quads p)[f2]?).bind (·[c2]?) = some (pget p i) := by
  rw [T_C15_backport, T_C15_backport, h1, h2]; exact ⟨rfl, rfl⟩

/-- `MappedSketch.positions` after the copy-back returns the smoothed position of every point that occurs in a quad -/
theorem T_C15_backport_positions (quads : List (List Nat)) (p : List V3) (n i : Nat)
    (hi : i < n) (hm : i ∈ quads.flatten) :
    (positionsOf quads (backportSketch quads p) n).getD i V3.zero = pget p i := by
  unfold positionsOf backportSketch
  have hflat : (quads.map (fun q => q.map (pget p))).flatten = quads.flatten.map (pget p) := by
    rw [List.map_flatten]
  rw [hflat]
  have hidx : quads.flatten.idxOf i < quads.flatten.length := List.idxOf_lt_length_iff.mpr hm
  simp only [List.getD_eq_getElem?_getD, List.getElem?_map, List.getElem?_range hi, Option.map_some,
    Option.getD_some, List.getElem?_eq_getElem hidx]
  simp [pget, List.getD_eq_getElem?_getD]

/-- `MeshSmoother.backport`: vertex `i` receives point `i` -/
theorem T_C15_backport_mesh (p : List V3) : backportMesh p = p := by
  unfold backportMesh
  apply List.ext_getElem (by simp)
  intro i h1 h2
  simp [pget, List.getD_eq_getElem?_getD, h2]

/-! ### histories: several fixing / smoothing calls on one smoother; a sketch smoothed again after it was moved -/

/-- the fixed set only grows, whatever the calls -/
theorem T_C15_history_fixed_mono (g : Grid) (s : SmState) (ops : List Op) (i : Nat) (h : i ∈ s.fixed) :
    i ∈ (runOps g s ops).fixed := by
  unfold runOps
  induction ops generalizing s with
  | nil => exact h
  | cons o os ih =>
    simp only [List.foldl_cons]
    apply ih
    cases o <;> simp [runOp, h]

/-- For every sequence of `fix_indexes` / `fix_points` / `smooth` calls on one smoother: a point that is on
    the boundary, outside the grid, or *already fixed at some moment* has the position it had at that
    moment ever after — later fixing calls never un-fix it. -/
theorem T_C15_history_frame (g : Grid) (s : SmState) (ops : List Op) (i : Nat)
    (h : isBoundary g i = true ∨ i ∈ s.fixed ∨ g.n ≤ i) :
    pget (runOps g s ops).p i = pget s.p i := by
  unfold runOps
  induction ops generalizing s with
  | nil => rfl
  | cons o os ih =>
    simp only [List.foldl_cons]
    have hstep : pget (runOp g s o).p i = pget s.p i := by
      cases o with
      | fixIdx l => rfl
      | fixPts q => rfl
      | smooth k => exact (T_C15_frame g s.fixed k s.p i h).1
    have hfix : isBoundary g i = true ∨ i ∈ (runOp g s o).fixed ∨ g.n ≤ i := by
      rcases h with h | h | h
      · exact Or.inl h
      · right; left; cases o <;> simp [runOp, h]
      · exact Or.inr (Or.inr h)
    rw [ih (runOp g s o) hfix, hstep]

/-- the same, counted from any moment of the history: `pre` then `post` -/
theorem T_C15_history_frame_from (g : Grid) (s : SmState) (pre post : List Op) (i : Nat)
    (h : isBoundary g i = true ∨ i ∈ (runOps g s pre).fixed ∨ g.n ≤ i) :
    pget (runOps g s (pre ++ post)).p i = pget (runOps g s pre).p i := by
  have : runOps g s (pre ++ post) = runOps g (runOps g s pre) post := by
    unfold runOps; rw [List.foldl_append]
  rw [this]
  exact T_C15_history_frame g _ post i h

/-- a call `fix_indexes(l)` fixes every index of `l`, a call `fix_points(q)` every junction within TOL of a
    point of `q` at that moment — both in addition to what was fixed before -/
theorem T_C15_history_fix (g : Grid) (s : SmState) (l : List Nat) (q : List V3) :
    (∀ i ∈ l, i ∈ (runOp g s (.fixIdx l)).fixed) ∧
    (∀ i ∈ fixPoints tol2 s.p q, i ∈ (runOp g s (.fixPts q)).fixed) ∧
    (∀ i ∈ s.fixed, i ∈ (runOp g s (.fixIdx l)).fixed ∧ i ∈ (runOp g s (.fixPts q)).fixed) := by
  refine ⟨?_, ?_, ?_⟩ <;> intro i hi <;> simp [runOp, hi]

/-- `fix_points` matches by the *absolute* distance `< TOL` only: moving the whole geometry and the given
    positions by any vector — however far from the origin — fixes exactly the same junctions. -/
theorem T_C15_fix_points_translation (tol : Rat) (t : V3) (p q : List V3) :
    fixPoints tol (p.map (fun x => x + t)) (q.map (fun x => x + t)) = fixPoints tol p q := by
  unfold fixPoints
  rw [List.flatMap_map, List.length_map]
  apply List.flatMap_congr
  intro x _
  apply List.filter_congr
  intro j hj
  have hlt : j < p.length := List.mem_range.mp hj
  have hp : pget (p.map (fun x => x + t)) j = pget p j + t := by
    simp [pget, List.getD_eq_getElem?_getD, hlt]
  rw [hp]
  have : V3.norm2 (x + t - (pget p j + t)) = V3.norm2 (x - pget p j) := by
    simp only [V3.norm2, V3.dot, V3.sub_x, V3.sub_y, V3.sub_z, V3.add_x, V3.add_y, V3.add_z]; ring
  rw [this]

/-- … and a junction is fixed by `fix_points([q])` iff it lies within TOL of `q` -/
theorem T_C15_fix_points_radius (tol : Rat) (p : List V3) (q : V3) (j : Nat) :
    j ∈ fixPoints tol p [q] ↔ j < p.length ∧ V3.norm2 (q - pget p j) < tol := by
  simp [fixPoints, List.mem_filter]

/-- non-vacuity: fix by position, then by index, then smooth: both stay, the fixed set holds both -/
example :
    let g : Grid := structQuads 3 3
    let p : List V3 := (List.range 16).map (fun q => if q = 5 then ⟨5/4, 3/4, 0⟩ else if q = 10 then ⟨9/4, 2, 0⟩ else quadCoord 3 q)
    let s := runOps g ⟨[], p⟩ [.fixPts [⟨5/4, 3/4, 0⟩], .fixIdx [10], .smooth 3]
    s.fixed = [5, 10] ∧ pget s.p 5 = ⟨5/4, 3/4, 0⟩ ∧ pget s.p 10 = ⟨9/4, 2, 0⟩ := by decide +kernel

/-- `SketchSmoother(sketch).smooth(k)` works on the positions the faces hold *now*: every corner that holds
    a boundary (or fixed) point keeps the position that `sketch.positions`, reconstructed from the current
    faces, gives for its index — wherever the sketch was moved to since an earlier smoothing. -/
theorem T_C15_sketch_frame (quads : List (List Nat)) (faces : List (List V3)) (n : Nat) (fixed : List Nat)
    (k f c i : Nat) (hi : (quads[f]?).bind (·[c]?) = some i)
    (h : isBoundary ⟨quadKind, quads, n⟩ i = true ∨ i ∈ fixed ∨ n ≤ i) :
    ((smoothSketch quads faces n fixed k)[f]?).bind (·[c]?) = some (pget (positionsOf quads faces n) i) := by
  unfold smoothSketch
  rw [T_C15_backport, hi]
  simp only [Option.map_some]
  rw [(T_C15_frame ⟨quadKind, quads, n⟩ fixed k _ i h).1]

/-! ### the graph the model builds from a cell list (every cell list, either cell class) -/

/-- **Boundary = points on a cell side without a neighbour.**  For every cell list: junction `j` is a boundary
    junction iff some cell `ci` that contains it has a side `s` with `j` at one of its corners such that no *other*
    cell of the list shares exactly that side with `ci` (`get_common_side` never answers `s`). -/
theorem T_C15_boundary (g : Grid) (j : Nat) :
    isBoundary g j = true ↔
      ∃ (ci : Nat) (cell : List Nat) (s : Nat) (side : List Nat),
        g.cells[ci]? = some cell ∧ j ∈ cell ∧ g.kind.sideIdx[s]? = some side ∧
        (∃ u ∈ side, cell.getD u 0 = j) ∧
        ∀ cj, cj < g.cells.length → cj ≠ ci → commonSide g.kind cell (g.cells.getD cj []) ≠ some s := by
  rw [isBoundary_iff]
  constructor
  · rintro ⟨ci, cell, hci, hj, hb⟩
    obtain ⟨s, side, hside, hn, u, hu, hq⟩ := (mem_cellBoundary g ci j).mp hb
    have hcell : g.cells.getD ci [] = cell := getD_of_getElem? _ ci _ hci
    rw [hcell] at hq
    refine ⟨ci, cell, s, side, hci, hj, hside, ⟨u, hu, hq⟩, ?_⟩
    have := ((cellNbrs_none_iff g ci s).mp hn).2
    rwa [hcell] at this
  · rintro ⟨ci, cell, s, side, hci, hj, hside, ⟨u, hu, hq⟩, hno⟩
    have hcell : g.cells.getD ci [] = cell := getD_of_getElem? _ ci _ hci
    refine ⟨ci, cell, hci, hj, (mem_cellBoundary g ci j).mpr ⟨s, side, hside, ?_, u, hu, by rw [hcell]; exact hq⟩⟩
    rw [cellNbrs_none_iff, hcell]
    refine ⟨?_, hno⟩
    by_contra hc
    rw [List.getElem?_eq_none (Nat.le_of_not_lt hc)] at hside; simp at hside

/-- **What a neighbouring cell is.**  The cell recorded on side `s` of cell `ci` is another cell of the list for
    which `get_common_side` answers `s`; and whenever it answers `s` for two cells, they share as many points as a
    side has corners, every corner of side `s` of the first holds a point of the second, and every shared point
    sits at a corner of side `s` — for every cell class and any two cells. -/
theorem T_C15_cell_neighbour (g : Grid) (ci s cj : Nat) (h : (cellNbrs g ci)[s]? = some (some cj)) :
    cj < g.cells.length ∧ cj ≠ ci ∧
    (common (g.cells.getD ci []) (g.cells.getD cj [])).length = (g.kind.sideIdx.headD []).length ∧
    ∃ side, g.kind.sideIdx[s]? = some side ∧
      (∀ u ∈ side, (g.cells.getD ci []).getD u 0 ∈ g.cells.getD cj []) ∧
      (∀ x, x ∈ g.cells.getD ci [] → x ∈ g.cells.getD cj [] → ∃ u ∈ side, (g.cells.getD ci []).getD u 0 = x) := by
  obtain ⟨h1, h2, h3⟩ := cellNbrs_some g ci s cj h
  obtain ⟨h4, side, h5, h6, h7⟩ := commonSide_some _ _ _ _ h3
  exact ⟨h1, h2, h4, side, h5, fun u hu => (h6 u hu).2, h7⟩

/-- non-vacuity: in the 2×2 map, cell 0 has cell 1 on its side 1 ("right") and nothing on side 0 ("front");
    point 1 is boundary through that side, point 4 is not boundary -/
example :
    cellNbrs (structQuads 2 2) 0 = [none, some 1, some 2, none] ∧
    isBoundary (structQuads 2 2) 1 = true ∧ isBoundary (structQuads 2 2) 4 = false := by decide +kernel

/-! ### convergence: Lyapunov quantity and uniqueness of the limit -/

/-
Full statement (not proved): for every anchored grid the positions after `k` sweeps converge to the fixed point
as `k → ∞` (geometric rate depending on the graph).  Proved: the max-norm distance to a fixed point never
increases from one sweep to the next (`T_C15_lyapunov`, `T_C15_lyapunov_mono`), the fixed point is unique
(`T_C15_unique`), for the structured quad map of every size it is the regular lattice when the rim is regular
(`T_C15_lattice_unique`).  The harness checks the numeric convergence on the implementation.
-/
/-- **Lyapunov quantity** (every graph, every fixed set, Gauss–Seidel order as the code performs it): if `q` is a
    fixed point of the sweep and every free inner junction has a neighbour, the max-norm distance of the
    positions to `q` does not increase by one more iteration. -/
theorem T_C15_lyapunov (g : Grid) (fixed : List Nat) (q p : List V3) (k : Nat)
    (hq : smooth g fixed 1 q = q) (hdef : defined g fixed = true) (hlen : p.length = q.length) :
    linfDist (smooth g fixed (k + 1) p) q ≤ linfDist (smooth g fixed k p) q := by
  unfold smooth at hq ⊢
  simp only [iter] at hq
  rw [iter_succ']
  apply linfDist_sweep_le
  · exact (sweep_eq_self_iff _ (inner_nodup g) _ _ _).mp hq
  · intro j hj hf
    unfold defined at hdef
    have := List.all_eq_true.mp hdef j hj
    simp only [Bool.or_eq_true, List.contains_iff_mem, hf, false_or, Bool.not_eq_true',
      List.isEmpty_eq_false_iff] at this
    exact this
  · rw [iter_length _ (fun r => sweep_length _ _ _ r)]; exact hlen

/-- … hence it never exceeds the initial distance, for every iteration count -/
theorem T_C15_lyapunov_mono (g : Grid) (fixed : List Nat) (q p : List V3) (k : Nat)
    (hq : smooth g fixed 1 q = q) (hdef : defined g fixed = true) (hlen : p.length = q.length) :
    linfDist (smooth g fixed k p) q ≤ linfDist p q := by
  induction k with
  | zero => exact le_rfl
  | succ k ih => exact (T_C15_lyapunov g fixed q p k hq hdef hlen).trans ih

/-- non-vacuity: 2×2 map, `q` the regular lattice, the centre of `p` displaced: distance 1/4 before, 0 after one sweep -/
example :
    let g := structQuads 2 2
    let q := latticePts 2 2 ⟨0, 0, 0⟩ ⟨1, 0, 0⟩ ⟨0, 1, 0⟩
    let p := q.set 4 ⟨5/4, 3/4, 0⟩
    smooth g [] 1 q = q ∧ defined g [] = true ∧ p.length = q.length ∧
      linfDist p q = 1/4 ∧ linfDist (smooth g [] 1 p) q = 0 := by decide +kernel

/-
The first level of the rate argument (the full statement is `T_C15_rate` / `T_C15_rate_geometric` below): the update of a
free junction that has a neighbour on the frame leaves it with an error of at most `(1 − 1/degree)·M`.
-/
/-- first level of the rate: next to the frame one update contracts the error by `1 − 1/degree` (any coordinate or
    linear functional `c` of the position, any graph, in-place order) -/
theorem T_C15_rate_first_level (g : Grid) (fixed : List Nat) (q p : List V3) (j t : Nat) {c : V3 → Rat} (hc : IsLin c)
    (hq : smooth g fixed 1 q = q) (hj : j ∈ inner g) (hf : j ∉ fixed) (hl : j < p.length) (hlq : j < q.length)
    (ht : t ∈ junctionNbrs g j) (ht0 : pget p t = pget q t)
    (M : Rat) (hM : ∀ i, |c (pget p i) - c (pget q i)| ≤ M) :
    |c (pget (step (junctionNbrs g) fixed p j) j) - c (pget q j)|
      ≤ (1 - 1 / ((junctionNbrs g j).length : Rat)) * M := by
  obtain ⟨hlt, hbd⟩ := (mem_inner g j).mp hj
  have hqj := (T_C15_fixpoint g fixed q).mp hq j hlt hbd hf hlq
  rw [abs_le]
  have hup := step_err_contract hc (junctionNbrs g) fixed q p j t hf hl hqj ht (by rw [ht0]; simp) M
    (fun i => (abs_le.mp (hM i)).2)
  have hlo := step_err_contract hc.neg (junctionNbrs g) fixed q p j t hf hl hqj ht (by rw [ht0]; simp) M
    (fun i => by have := (abs_le.mp (hM i)).1; linarith)
  constructor <;> linarith

/-- non-vacuity: 3×3 map, regular lattice `q`, all four interior points of `p` displaced by at most 1/4; point 5 has the
    frame neighbours 1 and 4: after its update its x-error is at most (1 − 1/4)·(1/4) -/
example :
    let g := structQuads 3 3
    let q := latticePts 3 3 ⟨0, 0, 0⟩ ⟨1, 0, 0⟩ ⟨0, 1, 0⟩
    let p := ((q.set 5 ⟨5/4, 1, 0⟩).set 6 ⟨9/4, 1, 0⟩).set 9 ⟨5/4, 2, 0⟩
    smooth g [] 1 q = q ∧ 5 ∈ inner g ∧ 1 ∈ junctionNbrs g 5 ∧ pget p 1 = pget q 1 ∧
      (pget (step (junctionNbrs g) [] p 5) 5).x - (pget q 5).x = 1/8 ∧ (1 - 1 / (4 : Rat)) * (1/4) = 3/16 := by
  decide +kernel

/-! ### the rate: geometric convergence with an explicit factor -/

/-- a level function for the free junctions: every free inner junction has a neighbour of smaller level (levels count
    the links to the frame; boundary and fixed junctions may have level 0), at most `Δ` neighbours and level at most `d` -/
def Levelled (g : Grid) (fixed : List Nat) (lvl : Nat → Nat) (Δ d : Nat) : Prop :=
  1 ≤ Δ ∧ ∀ j ∈ inner g, j ∉ fixed →
    (∃ t ∈ junctionNbrs g j, lvl t < lvl j) ∧ (junctionNbrs g j).length ≤ Δ ∧ lvl j ≤ d

theorem iter_add (f : List V3 → List V3) (a b : Nat) (p : List V3) : iter f (a + b) p = iter f b (iter f a p) := by
  induction a generalizing p with
  | zero => simp [iter]
  | succ a ih => rw [Nat.succ_add]; simp only [iter]; exact ih (f p)

/-- **Rate of convergence**, every graph with a level function (in particular every anchored grid: take the number of
    links to the frame), every fixed set, in-place order as the code performs it: if `q` is the fixed point and `p`
    carries the same boundary and fixed positions, then `d` iterations — `d` the depth of the graph — shrink the max-norm
    distance to `q` to at most `(1 − Δ^(−d))` times what it was. -/
theorem T_C15_rate (g : Grid) (fixed : List Nat) (lvl : Nat → Nat) (Δ d : Nat) (hL : Levelled g fixed lvl Δ d)
    (q p : List V3) (hq : smooth g fixed 1 q = q) (hp : p.length = g.n) (hqn : q.length = g.n)
    (hb : ∀ i, isBoundary g i = true ∨ i ∈ fixed → pget p i = pget q i) :
    linfDist (smooth g fixed d p) q ≤ (1 - (1 / (Δ : Rat)) ^ d) * linfDist p q := by
  obtain ⟨hΔ, hlev⟩ := hL
  have hD : (1 : Rat) ≤ (Δ : Rat) := by exact_mod_cast hΔ
  have hM : 0 ≤ linfDist p q := linfDist_nonneg p q
  have hqf : ∀ j ∈ inner g, j ∉ fixed → pget q j = avg ((junctionNbrs g j).map (pget q)) := by
    unfold smooth at hq; simp only [iter] at hq
    intro j hj hf
    exact (sweep_eq_self_iff _ (inner_nodup g) _ _ _).mp hq j hj hf (by rw [hqn]; exact ((mem_inner g j).mp hj).1)
  have hnf : ∀ i, ¬ (i ∈ inner g ∧ i ∉ fixed) → pget p i = pget q i := by
    intro i hi
    by_cases hlt : i < g.n
    · apply hb
      by_cases hfx : i ∈ fixed
      · exact Or.inr hfx
      · left; by_contra hbd
        exact hi ⟨(mem_inner g i).mpr ⟨hlt, by simpa using hbd⟩, hfx⟩
    · rw [pget_of_le p i (by omega), pget_of_le q i (by omega)]
  have hl : ∀ j ∈ inner g, j < p.length := fun j hj => by rw [hp]; exact ((mem_inner g j).mp hj).1
  have habs : ∀ {c : V3 → Rat}, IsLin c → (∀ a b, |c a - c b| ≤ coordDist a b) →
      ∀ i, |c (pget p i) - c (pget q i)| ≤ linfDist p q := by
    intro c _ hcd i
    by_cases hi : i < p.length
    · exact (hcd _ _).trans (coordDist_le_linfDist p q i hi)
    · rw [pget_of_le p i (by omega), pget_of_le q i (by omega)]; simpa using hM
  have key : ∀ {c : V3 → Rat}, IsLin c → (∀ a b, |c a - c b| ≤ coordDist a b) →
      ∀ i, |c (pget (smooth g fixed d p) i) - c (pget q i)| ≤ (1 - (1 / (Δ : Rat)) ^ d) * linfDist p q := by
    intro c hc hcd i
    have hA := habs hc hcd
    unfold smooth
    rw [abs_le]
    have up := iter_err_le_rate hc (inner g) (junctionNbrs g) fixed q lvl (Δ : Rat) (linfDist p q) hD hM hqf
      (fun j hj hf => (hlev j hj hf).1) (fun j hj hf => by exact_mod_cast (hlev j hj hf).2.1)
      d (fun j hj hf => (hlev j hj hf).2.2) p hl (fun t => (abs_le.mp (hA t)).2)
      (fun t ht => by rw [hnf t ht]; ring) i
    have lo := iter_err_le_rate hc.neg (inner g) (junctionNbrs g) fixed q lvl (Δ : Rat) (linfDist p q) hD hM hqf
      (fun j hj hf => (hlev j hj hf).1) (fun j hj hf => by exact_mod_cast (hlev j hj hf).2.1)
      d (fun j hj hf => (hlev j hj hf).2.2) p hl (fun t => by have := (abs_le.mp (hA t)).1; linarith)
      (fun t ht => by rw [hnf t ht]; ring) i
    constructor <;> linarith
  have hx : ∀ a b : V3, |a.x - b.x| ≤ coordDist a b := fun a b => ((coordDist_le_iff a b _).mp le_rfl).1
  have hy : ∀ a b : V3, |a.y - b.y| ≤ coordDist a b := fun a b => ((coordDist_le_iff a b _).mp le_rfl).2.1
  have hz : ∀ a b : V3, |a.z - b.z| ≤ coordDist a b := fun a b => ((coordDist_le_iff a b _).mp le_rfl).2.2
  rw [linfDist_le_iff]
  refine ⟨mul_nonneg ?_ hM, fun i _ => ?_⟩
  · rw [← bnd_closed (Δ : Rat) (by linarith) d]; exact (bnd_range (Δ : Rat) hD d).1
  · rw [coordDist_le_iff]
    exact ⟨key isLin_x hx i, key isLin_y hy i, key isLin_z hz i⟩

/-- … hence **geometric convergence**: after `k·d` iterations the distance is at most `(1 − Δ^(−d))^k` times the initial
    one, and the factor is strictly below 1 — "after enough iterations each free point equals its neighbours' average"
    with an explicit bound on how many are enough. -/
theorem T_C15_rate_geometric (g : Grid) (fixed : List Nat) (lvl : Nat → Nat) (Δ d : Nat) (hL : Levelled g fixed lvl Δ d)
    (q p : List V3) (hq : smooth g fixed 1 q = q) (hp : p.length = g.n) (hqn : q.length = g.n)
    (hb : ∀ i, isBoundary g i = true ∨ i ∈ fixed → pget p i = pget q i) (k : Nat) :
    linfDist (smooth g fixed (k * d) p) q ≤ (1 - (1 / (Δ : Rat)) ^ d) ^ k * linfDist p q ∧
    0 ≤ 1 - (1 / (Δ : Rat)) ^ d ∧ 1 - (1 / (Δ : Rat)) ^ d < 1 := by
  have hD : (1 : Rat) ≤ (Δ : Rat) := by exact_mod_cast hL.1
  have hr0 : 0 ≤ 1 - (1 / (Δ : Rat)) ^ d := by
    rw [← bnd_closed (Δ : Rat) (by linarith) d]; exact (bnd_range (Δ : Rat) hD d).1
  have hr1 : 1 - (1 / (Δ : Rat)) ^ d < 1 := by
    have : 0 < (1 / (Δ : Rat)) ^ d := pow_pos (by apply div_pos <;> linarith) d
    linarith
  refine ⟨?_, hr0, hr1⟩
  induction k with
  | zero => simp [smooth, iter]
  | succ k ih =>
    have hsplit : smooth g fixed ((k + 1) * d) p = smooth g fixed d (smooth g fixed (k * d) p) := by
      unfold smooth; rw [Nat.succ_mul, iter_add]
    have hp' : (smooth g fixed (k * d) p).length = g.n := by
      unfold smooth; rw [iter_length _ (fun r => sweep_length _ _ _ r)]; exact hp
    have hb' : ∀ i, isBoundary g i = true ∨ i ∈ fixed → pget (smooth g fixed (k * d) p) i = pget q i := by
      intro i hi
      rw [(T_C15_frame g fixed (k * d) p i (by rcases hi with h | h; exact Or.inl h; exact Or.inr (Or.inl h))).1]
      exact hb i hi
    rw [hsplit, pow_succ]
    calc linfDist (smooth g fixed d (smooth g fixed (k * d) p)) q
        ≤ (1 - (1 / (Δ : Rat)) ^ d) * linfDist (smooth g fixed (k * d) p) q :=
          T_C15_rate g fixed lvl Δ d hL q _ hq hp' hqn hb'
      _ ≤ (1 - (1 / (Δ : Rat)) ^ d) * ((1 - (1 / (Δ : Rat)) ^ d) ^ k * linfDist p q) :=
          mul_le_mul_of_nonneg_left ih hr0
      _ = (1 - (1 / (Δ : Rat)) ^ d) ^ k * (1 - (1 / (Δ : Rat)) ^ d) * linfDist p q := by ring

/-- non-vacuity: the 3×3 map (all four interior points next to the rim: depth 1, degree 4 — factor 3/4 per sweep) and
    the 4×4 map (centre point 12 at level 2: factor 15/16 per two sweeps) are levelled -/
example : Levelled (structQuads 3 3) [] (fun i => if i ∈ [5, 6, 9, 10] then 1 else 0) 4 1 ∧
    Levelled (structQuads 4 4) [] (fun i => if i = 12 then 2 else if i ∈ [6, 7, 8, 11, 13, 16, 17, 18] then 1 else 0) 4 2 ∧
    inner (structQuads 4 4) = [6, 7, 8, 11, 12, 13, 16, 17, 18] := by
  unfold Levelled; decide +kernel

/-- … and the bound is met on a concrete run: 3×3 map, three interior points displaced by 1/4, distance 1/4 before and
    1/8 ≤ (3/4)·(1/4) after one sweep -/
example :
    let g := structQuads 3 3
    let q := latticePts 3 3 ⟨0, 0, 0⟩ ⟨1, 0, 0⟩ ⟨0, 1, 0⟩
    let p := ((q.set 5 ⟨5/4, 1, 0⟩).set 6 ⟨9/4, 1, 0⟩).set 9 ⟨5/4, 2, 0⟩
    linfDist p q = 1/4 ∧ linfDist (smooth g [] 1 p) q ≤ (1 - (1 / (4 : Rat)) ^ 1) * (1/4) := by decide +kernel

/-- every anchored grid has a level function (the number of links to the frame), a degree bound and a depth -/
theorem T_C15_anchored_levelled (g : Grid) (fixed : List Nat)
    (hr : ∀ j ∈ inner g, j ∉ fixed → Reach (junctionNbrs g) (fun j => j ∈ inner g ∧ j ∉ fixed) j) :
    ∃ lvl Δ d, Levelled g fixed lvl Δ d := by
  obtain ⟨B1, h1⟩ := exists_bound (inner g) (fun j => (junctionNbrs g j).length)
  obtain ⟨B2, h2⟩ := exists_bound (inner g) (levelOf (junctionNbrs g) (fun j => j ∈ inner g ∧ j ∉ fixed))
  refine ⟨levelOf (junctionNbrs g) (fun j => j ∈ inner g ∧ j ∉ fixed), B1 + 1, B2, by omega, fun j hj hf => ⟨?_, ?_, h2 j hj⟩⟩
  · exact levelOf_nbr _ _ j ⟨hj, hf⟩ (reachN_of_reach (hr j hj hf))
  · have := h1 j hj; omega

/-- **Convergence of smoothing on every anchored grid, with an explicit geometric bound.**  If every free inner junction
    is linked to the frame (decided by the model per grid: `anchoredB`), there are a number of iterations `d` and a factor
    `r < 1` — `r = 1 − Δ^(−d)` for the depth `d` and the largest degree `Δ` of the graph — such that, for every fixed point
    `q` and every start `p` with the same boundary and fixed positions, `k·d` iterations bring the positions within
    `r^k` times the initial max-norm distance of `q`, for every `k`.  So "after enough iterations each free point equals
    its neighbours' average" holds to any accuracy `ε` as soon as `r^k · linfDist p q ≤ ε`. -/
theorem T_C15_converges (g : Grid) (fixed : List Nat) (ha : anchoredB g fixed = true) :
    ∃ (d : Nat) (r : Rat), 0 ≤ r ∧ r < 1 ∧
      ∀ q p : List V3, smooth g fixed 1 q = q → p.length = g.n → q.length = g.n →
        (∀ i, isBoundary g i = true ∨ i ∈ fixed → pget p i = pget q i) →
        ∀ k, linfDist (smooth g fixed (k * d) p) q ≤ r ^ k * linfDist p q := by
  obtain ⟨lvl, Δ, d, hL⟩ := T_C15_anchored_levelled g fixed (reach_of_anchoredB g fixed ha)
  refine ⟨d, 1 - (1 / (Δ : Rat)) ^ d, ?_, ?_, fun q p hq hp hqn hb k => (T_C15_rate_geometric g fixed lvl Δ d hL q p hq hp hqn hb k).1⟩
  · have hD : (1 : Rat) ≤ (Δ : Rat) := by exact_mod_cast hL.1
    rw [← bnd_closed (Δ : Rat) (by linarith) d]; exact (bnd_range (Δ : Rat) hD d).1
  · have hD : (1 : Rat) ≤ (Δ : Rat) := by exact_mod_cast hL.1
    have : 0 < (1 / (Δ : Rat)) ^ d := pow_pos (by apply div_pos <;> linarith) d
    linarith

/-- non-vacuity: the structured 4×4 map and the 2×2×2 hexahedral assembly are anchored -/
example : anchoredB (structQuads 4 4) [] = true ∧ anchoredB (structHexes 2 2 2) [] = true := by decide +kernel

/-- **Uniqueness of the fixed point (discrete maximum principle)**, every graph: two position lists that are both
    unchanged by a sweep and agree on all boundary and fixed junctions are equal, as soon as every free inner
    junction is linked to a boundary or fixed junction along neighbour links. -/
theorem T_C15_unique (g : Grid) (fixed : List Nat) (p q : List V3)
    (hp : p.length = g.n) (hq : q.length = g.n)
    (fp : smooth g fixed 1 p = p) (fq : smooth g fixed 1 q = q)
    (hb : ∀ i, isBoundary g i = true ∨ i ∈ fixed → pget p i = pget q i)
    (hr : ∀ j ∈ inner g, j ∉ fixed → Reach (junctionNbrs g) (fun j => j ∈ inner g ∧ j ∉ fixed) j) :
    p = q := by
  have hfp := (T_C15_fixpoint g fixed p).mp fp
  have hfq := (T_C15_fixpoint g fixed q).mp fq
  have hnf : ∀ i, ¬ (i ∈ inner g ∧ i ∉ fixed) → pget p i = pget q i := by
    intro i hi
    by_cases hlt : i < g.n
    · apply hb
      by_cases hfx : i ∈ fixed
      · exact Or.inr hfx
      · left
        by_contra hbd
        exact hi ⟨(mem_inner g i).mpr ⟨hlt, by simpa using hbd⟩, hfx⟩
    · rw [pget_of_le p i (by omega), pget_of_le q i (by omega)]
  have hc : ∀ {c : V3 → Rat}, IsLin c → ∀ i, c (pget p i) - c (pget q i) = 0 := by
    intro c hc
    apply harmonic_zero (junctionNbrs g) (fun j => j ∈ inner g ∧ j ∉ fixed) g.n
    · intro j hj; exact ((mem_inner g j).mp hj.1).1
    · intro i hi; rw [hnf i hi]; ring
    · intro j hj
      obtain ⟨hlt, hbd⟩ := (mem_inner g j).mp hj.1
      rw [hfp j hlt hbd hj.2 (by omega), hfq j hlt hbd hj.2 (by omega), avg_diff hc]
    · intro j hj; exact hr j hj.1 hj.2
  apply List.ext_getElem (by omega)
  intro i h1 h2
  have e : pget p i = pget q i := by
    apply V3.ext'
    · have := hc isLin_x i; linarith
    · have := hc isLin_y i; linarith
    · have := hc isLin_z i; linarith
  simpa [pget, List.getD_eq_getElem?_getD, h1, h2] using e

/-- the hypothesis of `T_C15_unique` is decided by the model per grid (`anchoredB`, request `c15.anchored`) -/
theorem T_C15_unique_anchored (g : Grid) (fixed : List Nat) (p q : List V3)
    (hp : p.length = g.n) (hq : q.length = g.n)
    (fp : smooth g fixed 1 p = p) (fq : smooth g fixed 1 q = q)
    (hb : ∀ i, isBoundary g i = true ∨ i ∈ fixed → pget p i = pget q i)
    (ha : anchoredB g fixed = true) : p = q :=
  T_C15_unique g fixed p q hp hq fp fq hb (reach_of_anchoredB g fixed ha)

/-- non-vacuity: the L-shaped unstructured map of three faces plus a 2×2 block is anchored; an orphan point is not -/
example : anchoredB (structQuads 3 3) [] = true ∧ anchoredB (structQuads 3 3) [5] = true ∧
    anchoredB ⟨quadKind, [[0, 1, 4, 3], [1, 2, 5, 4], [3, 4, 7, 6], [4, 5, 8, 7]], 10⟩ [] = false := by
  decide +kernel

/-- **The regular lattice is the only fixed point with a regular rim**, every size: in the structured `nx × ny` map
    (any fixed set whose points sit at their lattice places), a position list that a sweep leaves unchanged and
    that carries the affine lattice `o + x·u + y·v` on all boundary and fixed junctions *is* that lattice. -/
theorem T_C15_lattice_unique (nx ny : Nat) (h1 : 1 ≤ nx) (h2 : 1 ≤ ny) (fixed : List Nat) (o u v : V3)
    (p : List V3) (hp : p.length = (nx + 1) * (ny + 1))
    (fp : smooth (structQuads nx ny) fixed 1 p = p)
    (hb : ∀ i, isBoundary (structQuads nx ny) i = true ∨ i ∈ fixed →
      pget p i = pget (latticePts nx ny o u v) i) :
    p = latticePts nx ny o u v :=
  T_C15_unique (structQuads nx ny) fixed p (latticePts nx ny o u v) hp (by simp [latticePts]; rfl) fp
    (T_C15_lattice_quads nx ny h1 h2 fixed o u v 1) hb
    (fun j _ _ => structQuads_reach nx ny h1 h2 fixed j)

/-- the limit of smoothing, if it is reached: whenever `k` iterations on the structured map with a regular rim
    arrive at a state that one more sweep does not change, that state is the regular lattice — whatever the
    interior points were at the start -/
theorem T_C15_lattice_limit (nx ny : Nat) (h1 : 1 ≤ nx) (h2 : 1 ≤ ny) (fixed : List Nat) (o u v : V3)
    (p : List V3) (k : Nat) (hp : p.length = (nx + 1) * (ny + 1))
    (hb : ∀ i, isBoundary (structQuads nx ny) i = true ∨ i ∈ fixed →
      pget p i = pget (latticePts nx ny o u v) i)
    (hstop : smooth (structQuads nx ny) fixed 1 (smooth (structQuads nx ny) fixed k p)
      = smooth (structQuads nx ny) fixed k p) :
    smooth (structQuads nx ny) fixed k p = latticePts nx ny o u v := by
  refine T_C15_lattice_unique nx ny h1 h2 fixed o u v _ ?len hstop ?hb
  case len =>
    unfold smooth
    rw [iter_length _ (fun r => sweep_length _ _ _ r)]; exact hp
  case hb =>
    intro i hi
    rw [(T_C15_frame _ fixed k p i (by rcases hi with h | h; exact Or.inl h; exact Or.inr (Or.inl h))).1]
    exact hb i hi

/-- non-vacuity of `T_C15_lattice_limit`: 2×2 map, centre displaced, the state after one sweep is not changed by
    another one (and is the lattice) -/
example :
    let g := structQuads 2 2
    let q := latticePts 2 2 ⟨0, 0, 0⟩ ⟨1, 0, 0⟩ ⟨0, 1, 0⟩
    let p := q.set 4 ⟨5/4, 3/4, 0⟩
    smooth g [] 1 (smooth g [] 1 p) = smooth g [] 1 p ∧ p ≠ q ∧ smooth g [] 1 p = q := by decide +kernel

/-- **The regular lattice is the only fixed point of a hexahedral assembly with a regular outer surface**, every size:
    a position list that a sweep leaves unchanged and that carries the affine lattice on all boundary and fixed
    junctions is that lattice; in particular any state reached by smoothing that one more sweep does not change. -/
theorem T_C15_lattice_hex_unique (nx ny nz : Nat) (h1 : 1 ≤ nx) (h2 : 1 ≤ ny) (h3 : 1 ≤ nz) (fixed : List Nat)
    (o u v w : V3) (p : List V3) (hp : p.length = (nz + 1) * ((ny + 1) * (nx + 1)))
    (fp : smooth (structHexes nx ny nz) fixed 1 p = p)
    (hb : ∀ i, isBoundary (structHexes nx ny nz) i = true ∨ i ∈ fixed →
      pget p i = pget (hexLatticePts nx ny nz o u v w) i) :
    p = hexLatticePts nx ny nz o u v w :=
  T_C15_unique (structHexes nx ny nz) fixed p (hexLatticePts nx ny nz o u v w) hp (by simp [hexLatticePts]; rfl) fp
    (T_C15_lattice_hexes nx ny nz h1 h2 h3 fixed o u v w 1) hb
    (fun j _ _ => structHexes_reach nx ny nz h1 h2 h3 fixed j)

/-- non-vacuity: 2×2×2 assembly, skewed lattice in space, centre displaced: one sweep returns it to the lattice, which a
    further sweep leaves unchanged -/
example :
    let g := structHexes 2 2 2
    let q := hexLatticePts 2 2 2 ⟨1, 2, 3⟩ ⟨2, 1/2, 0⟩ ⟨-1/3, 1, 1⟩ ⟨0, 1/4, 3⟩
    let p := q.set 13 ⟨5/4, 3/4, 7⟩
    p ≠ q ∧ smooth g [] 1 p = q ∧ smooth g [] 1 q = q := by decide +kernel

/-! ### tie to the source text: what the model transcribes literally -/

/-- The statement skeletons of every method on the execution path of `SmootherBase.smooth`, regenerated from the
    *current* source with `ast` on every run (`cbv/tables/c15.py`: one string per statement, `depth:text`, locals
    renamed a0, a1, …; a guard-`continue` and its positive-block form are one shape), are the ones the model was
    transcribed from: the two nested loops of `smooth` skipping fixed junctions, the neighbour positions read through `Junction.point` (a view of the shared
    array: **in place**, Gauss–Seidel), the write to `self.grid.points[index]`, `backport` after the loops; the
    inner junctions in index order; `fix_indexes` / `fix_points` adding to the set (`< TOL`); the guards and the order
    of `get_common_side`, `add_neighbour` (cell and junction), `boundary`, `is_boundary`; the order of the binding
    passes.  A change of any of these breaks this proof obligation. -/
theorem T_C15_source_skeleton :
    CBV.Gen.c15SrcSmooth =
      ["def smooth(self, a0)",
       "0:for _ in range(a0)",
       "1:for a1 in self.inner",
       "2:if a1.index not in self.fixed",
       "3:a2 = [a3.point for a3 in a1.neighbours]",
       "3:self.grid.points[a1.index] = np.average(a2, axis=0)",
       "0:self.backport()"] ∧
    CBV.Gen.c15SrcSmootherInit =
      ["def __init__(self, a0)",
       "0:self.grid = a0",
       "0:self.inner = []",
       "0:for a1 in self.grid.junctions",
       "1:if not a1.is_boundary",
       "2:self.inner.append(a1)",
       "0:self.fixed = set()"] ∧
    CBV.Gen.c15SrcFixIndexes =
      ["def fix_indexes(self, a0)",
       "0:self.fixed.update(set(a0))"] ∧
    CBV.Gen.c15SrcFixPoints =
      ["def fix_points(self, a0)",
       "0:for a1 in a0",
       "1:for a2 in self.grid.junctions",
       "2:if f.norm(a1 - a2.point) < TOL",
       "3:self.fixed.add(a2.index)"] ∧
    CBV.Gen.c15SrcBackportMesh =
      ["def backport(self)",
       "0:for (a0, a1) in enumerate(self.grid.points)",
       "1:self.mesh.vertices[a0].move_to(a1)"] ∧
    CBV.Gen.c15SrcBackportSketch =
      ["def backport(self)",
       "0:a0 = self.grid.points",
       "0:for (a1, a2) in enumerate(self.sketch.indexes)",
       "1:a3 = np.take(a0, a2, axis=0)",
       "1:self.sketch.faces[a1].update(a3)"] ∧
    CBV.Gen.c15SrcJunctionPoint =
      ["def point(self)",
       "0:return self.points[self.index]"] ∧
    CBV.Gen.c15SrcJunctionAddCell =
      ["def add_cell(self, a0)",
       "0:for a1 in a0.indexes",
       "1:if a1 == self.index",
       "2:self.cells.add(a0)",
       "2:return"] ∧
    CBV.Gen.c15SrcJunctionAddNeighbour =
      ["def add_neighbour(self, a0)",
       "0:if a0 == self",
       "1:return False",
       "0:a1 = {self.index, a0.index}",
       "0:for a2 in self.cells",
       "1:for a3 in a2.connections",
       "2:if a3.indexes == a1",
       "3:if a0 not in self.neighbours",
       "4:self.neighbours.append(a0)",
       "4:return True",
       "0:return False"] ∧
    CBV.Gen.c15SrcJunctionIsBoundary =
      ["def is_boundary(self)",
       "0:for a0 in self.cells",
       "1:if self.index in a0.boundary",
       "2:return True",
       "0:return False"] ∧
    CBV.Gen.c15SrcCellInit =
      ["def __init__(self, a0, a1)",
       "0:self.grid_points = a0",
       "0:self.indexes = a1",
       "0:self.neighbours = {a2: None for a2 in self.side_names}",
       "0:self.connections = [CellConnection(set(a3), {a1[a3[0]], a1[a3[1]]}) for a3 in self.edge_pairs]",
       "0:self._quality = None"] ∧
    CBV.Gen.c15SrcCellCommonIndexes =
      ["def get_common_indexes(self, a0)",
       "0:a1 = set(self.indexes)",
       "0:a2 = set(a0.indexes)",
       "0:return a1.intersection(a2)"] ∧
    CBV.Gen.c15SrcCellCorner =
      ["def get_corner(self, a0)",
       "0:return self.indexes.index(a0)"] ∧
    CBV.Gen.c15SrcCellCommonSide =
      ["def get_common_side(self, a0)",
       "0:a1 = self.get_common_indexes(a0)",
       "0:if len(a1) != len(self.side_indexes[0])",
       "1:raise NoCommonSidesError",
       "0:a2 = {self.get_corner(a3) for a3 in a1}",
       "0:for (a3, a4) in enumerate(self.side_indexes)",
       "1:if set(a4) == a2",
       "2:return self.side_names[a3]",
       "0:raise NoCommonSidesError"] ∧
    CBV.Gen.c15SrcCellAddNeighbour =
      ["def add_neighbour(self, a0)",
       "0:if a0 == self",
       "1:return False",
       "0:try",
       "1:a1 = self.get_common_side(a0)",
       "1:self.neighbours[a1] = a0",
       "1:return True",
       "0:except NoCommonSidesError",
       "1:return False"] ∧
    CBV.Gen.c15SrcCellBoundary =
      ["def boundary(self)",
       "0:a0 = set()",
       "0:for (a1, a2) in enumerate(self.side_names)",
       "1:a3 = self.side_indexes[a1]",
       "1:if self.neighbours[a2] is None",
       "2:a0.update({self.indexes[a4] for a4 in a3})",
       "0:return a0"] ∧
    CBV.Gen.c15SrcGridInit =
      ["def __init__(self, a0, a1)",
       "0:self.points = a0",
       "0:self.junctions = [Junction(self.points, a2) for a2 in range(len(self.points))]",
       "0:self.cells = [self.cell_class(self.points, a3) for a3 in a1]",
       "0:self._bind_cell_neighbours()",
       "0:self._bind_junction_cells()",
       "0:self._bind_junction_neighbours()"] ∧
    CBV.Gen.c15SrcBindCells =
      ["def _bind_cell_neighbours(self)",
       "0:for a0 in self.cells",
       "1:for a1 in self.cells",
       "2:a0.add_neighbour(a1)"] ∧
    CBV.Gen.c15SrcBindJunctionCells =
      ["def _bind_junction_cells(self)",
       "0:for a0 in self.cells",
       "1:for a1 in self.junctions",
       "2:a1.add_cell(a0)"] ∧
    CBV.Gen.c15SrcBindJunctions =
      ["def _bind_junction_neighbours(self)",
       "0:for a0 in self.junctions",
       "1:for a1 in self.junctions",
       "2:a0.add_neighbour(a1)"] := by
  decide

/-- The literal index tables in the class bodies (`side_indexes`, `edge_pairs`, `side_names`; `HexCell.edge_pairs` is
    the name `constants.EDGE_PAIRS`) are the tables the model works with, one neighbour slot per side name;
    `CellConnection` has the two fields the model's `connected` uses; `constants.TOL` is the float nearest to
    `1 / c15TolDen`, whose square is the model's exact matching radius `tol2`. -/
theorem T_C15_source_tables :
    CBV.Gen.c15QuadSideIdxLit = quadKind.sideIdx ∧ CBV.Gen.c15QuadEdgePairsLit = quadKind.edgePairs ∧
    CBV.Gen.c15HexSideIdxLit = hexKind.sideIdx ∧ CBV.Gen.c15HexEdgePairsIsConst = true ∧
    CBV.Gen.c15HexEdgePairsConst = hexKind.edgePairs ∧
    CBV.Gen.c15QuadSideNamesLit = CBV.Gen.quadSideNames ∧ CBV.Gen.c15HexSideNamesLit = CBV.Gen.hexSideNames ∧
    quadKind.sideIdx.length = CBV.Gen.quadSideNames.length ∧ hexKind.sideIdx.length = CBV.Gen.hexSideNames.length ∧
    CBV.Gen.c15SrcConnectionFields.map (·.1) = ["corners", "indexes"] ∧
    CBV.Gen.c15TolIsInvDen = true ∧
    tol2 * (CBV.Gen.c15TolDen : Rat) * (CBV.Gen.c15TolDen : Rat) = 1 ∧ 0 < CBV.Gen.c15TolDen := by
  refine ⟨by decide, by decide, by decide, by decide, by decide, by decide, by decide, by decide, by decide,
    by decide, by decide, ?_, by decide⟩
  unfold tol2 CBV.Gen.c15TolDen
  norm_num

end CBV.C15
