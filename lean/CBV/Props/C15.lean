/-
C15 — property theorems.  Laplacian smoothing (`SmootherBase.smooth`) leaves boundary and fixed
points where they were, moves every other point to the average of its edge neighbours, has exactly
the "every free point is its neighbours' average" states as fixed points (among them every affine
image of a lattice), its neighbours are the cell edges of the blockMesh convention (tables
regenerated from the source on every run), and the copy-back is consistent for all faces.
-/
import CBV.Model.C15
import CBV.Lemmas.C15
import Mathlib.Tactic.Ring
import Mathlib.Tactic.Linarith
import Mathlib.Tactic.FieldSimp
import Mathlib.Algebra.Order.Field.Rat

namespace CBV.C15
open CBV

/-! ### frame: boundary and fixed points do not move -/

/-- for every grid, every fixed set, every number of iterations and all positions: a junction that is
    on the boundary (`Junction.is_boundary`) or fixed keeps its position exactly; so does every index
    outside the grid, and the number of points never changes -/
theorem T_C15_frame (g : Grid) (fixed : List Nat) (k : Nat) (p : List V3) (i : Nat)
    (h : isBoundary g i = true ∨ i ∈ fixed ∨ g.n ≤ i) :
    pget (smooth g fixed k p) i = pget p i ∧ (smooth g fixed k p).length = p.length := by
  refine ⟨?_, ?_⟩
  · unfold smooth
    apply pget_iter
    intro q
    apply pget_sweep_of_not_free
    rcases h with h | h | h
    · left; intro hm; have := (mem_inner g i).mp hm; simp [h] at this
    · right; exact h
    · left; intro hm; have := (mem_inner g i).mp hm; omega
  · unfold smooth
    exact iter_length _ (fun q => sweep_length _ _ _ q) k p

/-- non-vacuity: the 2×2 quad map has exactly one inner junction (4); all others are boundary -/
example : (List.range 9).map (isBoundary ⟨quadKind, [[0, 1, 4, 3], [1, 2, 5, 4], [3, 4, 7, 6], [4, 5, 8, 7]], 9⟩)
    = [true, true, true, true, false, true, true, true, true] := by decide

/-! ### the update is the average of the edge neighbours (Gauss–Seidel: current values) -/

/-- Right after junction `j` (free, inside the grid, not its own neighbour) was visited, its position is the
    average of the *current* positions of its neighbours — for every prefix `pre` of the visiting order,
    so in particular for the junction visited last in a sweep. -/
theorem T_C15_avg (pre : List Nat) (j : Nat) (nbrs : Nat → List Nat) (fixed : List Nat) (p : List V3)
    (hfree : j ∉ fixed) (hself : j ∉ nbrs j) (hlen : j < p.length) :
    let p' := sweep (pre ++ [j]) nbrs fixed p
    pget p' j = avg ((nbrs j).map (pget p')) := by
  intro p'
  have hp' : p' = step nbrs fixed (sweep pre nbrs fixed p) j := by
    simp only [p', sweep_append, sweep_cons, sweep_nil]
  rw [hp']
  unfold step
  simp only [List.contains_iff_mem, hfree, if_false]
  have hl : j < (sweep pre nbrs fixed p).length := by simpa using hlen
  rw [pget_set_self _ _ _ hl]
  congr 1
  apply List.map_congr_left
  intro n hn
  rw [pget_set_ne]
  rintro rfl; exact hself hn

/-- the neighbour list of the grid never contains the junction itself -/
theorem T_C15_not_self (g : Grid) (j : Nat) : j ∉ junctionNbrs g j := by
  unfold junctionNbrs; simp [List.mem_filter]

/-- non-vacuity of `T_C15_avg`: the centre of the 2×2 map moves to the average of its four edge neighbours -/
example :
    let g : Grid := ⟨quadKind, [[0, 1, 4, 3], [1, 2, 5, 4], [3, 4, 7, 6], [4, 5, 8, 7]], 9⟩
    let p : List V3 := [⟨0,0,0⟩, ⟨1,0,0⟩, ⟨2,0,0⟩, ⟨0,1,0⟩, ⟨5/4,3/4,0⟩, ⟨2,1,0⟩, ⟨0,2,0⟩, ⟨1,2,0⟩, ⟨2,2,0⟩]
    junctionNbrs g 4 = [1, 3, 5, 7] ∧ inner g = [4] ∧ pget (smooth g [] 1 p) 4 = ⟨1, 1, 0⟩ := by decide +kernel

/-! ### fixed points -/

/-- one sweep leaves the positions unchanged iff every free inner junction (inside the position list)
    already is the average of its edge neighbours -/
theorem T_C15_fixpoint (g : Grid) (fixed : List Nat) (p : List V3) :
    smooth g fixed 1 p = p ↔
      ∀ j, j < g.n → isBoundary g j = false → j ∉ fixed → j < p.length →
        pget p j = avg ((junctionNbrs g j).map (pget p)) := by
  unfold smooth
  simp only [iter]
  rw [sweep_eq_self_iff _ (inner_nodup g)]
  constructor
  · intro h j hj hb; exact h j ((mem_inner g j).mpr ⟨hj, hb⟩)
  · intro h j hm; have := (mem_inner g j).mp hm; exact h j this.1 this.2

/-- … and then any number of iterations leaves them unchanged -/
theorem T_C15_fixpoint_iter (g : Grid) (fixed : List Nat) (p : List V3) (k : Nat) (h : smooth g fixed 1 p = p) :
    smooth g fixed k p = p := by
  unfold smooth at h ⊢
  simp only [iter] at h
  exact iter_fix _ p h k

/-! ### a regular lattice with regular boundary is a fixed point -/

/-
Full statement (not proved for all sizes): for all nx ny ≥ 1, the structured quad map of nx × ny
cells (and the nx × ny × nz hexahedral assembly) with the lattice coordinates of its points is
`LatticeLike`, hence every affine image of the lattice is a fixed point of smoothing.
Proved part: the implication below for *every* grid (`LatticeLike`, defined in `Lemmas/C15.lean`, is the
Prop form of the model's decidable `latticeLikeB`), plus instances by kernel evaluation; the harness lets
the model decide `latticeLikeB` for every regular grid it generates (request `c15.lattice`).
-/
/-- If the junction coordinates are lattice-like, every affine image `o + x·u + y·v + z·w` of the
    coordinates is left unchanged by smoothing, for any number of iterations. -/
theorem T_C15_lattice_partial (g : Grid) (fixed : List Nat) (coord : Nat → V3) (o u v w : V3) (p : List V3)
    (hl : LatticeLike g fixed coord)
    (hp : ∀ n, pget p n = o + (V3.smul (coord n).x u + V3.smul (coord n).y v + V3.smul (coord n).z w))
    (k : Nat) : smooth g fixed k p = p := by
  apply T_C15_fixpoint_iter
  rw [T_C15_fixpoint]
  intro j hj hb hf _
  obtain ⟨hne, hs⟩ := hl j ((mem_inner g j).mpr ⟨hj, hb⟩) hf
  have hfun : (pget p) = fun n => o + (V3.smul (coord n).x u + V3.smul (coord n).y v + V3.smul (coord n).z w) :=
    funext hp
  rw [hfun]
  simp only []
  unfold avg
  rw [vsum_map_affine, hs, List.length_map]
  have hlen : ((junctionNbrs g j).length : Rat) ≠ 0 := by
    have : (junctionNbrs g j).length ≠ 0 := by
      intro h0; exact hne (List.length_eq_zero_iff.mp h0)
    exact_mod_cast this
  apply V3.ext' <;> simp <;> field_simp

/-- non-vacuity: the 3×3 and 4×2 structured maps are lattice-like (inner junctions: the lattice-interior points) -/
example : LatticeLike (structQuads 3 3) [] (quadCoord 3) ∧ inner (structQuads 3 3) = [5, 6, 9, 10] :=
  ⟨latticeLike_of_B _ _ _ (by decide +kernel), by decide +kernel⟩

example : LatticeLike (structQuads 4 2) [6] (quadCoord 4) ∧ inner (structQuads 4 2) = [6, 7, 8] :=
  ⟨latticeLike_of_B _ _ _ (by decide +kernel), by decide +kernel⟩

/-! ### neighbours are the cell edges, never a diagonal -/

/-- membership in `Junction.neighbours`, for every grid: another junction of the grid joined to `j` by
    an entry of `edge_pairs` inside a cell that contains `j` -/
theorem T_C15_neigh (g : Grid) (j t : Nat) :
    t ∈ junctionNbrs g j ↔
      t < g.n ∧ t ≠ j ∧ ∃ cell ∈ g.cells, j ∈ cell ∧ ∃ e ∈ g.kind.edgePairs,
        (cell.getD e.1 0 = j ∧ cell.getD e.2 0 = t) ∨ (cell.getD e.1 0 = t ∧ cell.getD e.2 0 = j) := by
  unfold junctionNbrs connected
  simp only [List.mem_filter, List.mem_range, Bool.and_eq_true, bne_iff_ne, ne_eq, List.any_eq_true,
    List.contains_iff_mem, Bool.or_eq_true, beq_iff_eq]

/-- blockMesh numbering: local coordinates of corner `c` of a hexahedron -/
def bits (c : Nat) : Bool × Bool × Bool := (c % 4 == 1 || c % 4 == 2, c % 4 == 2 || c % 4 == 3, c ≥ 4)

/-- two corners of a hexahedron are joined by an edge iff they differ in exactly one coordinate -/
def hexAdjacent (a b : Nat) : Bool :=
  let x := bits a; let y := bits b
  ((if x.1 != y.1 then 1 else 0) + (if x.2.1 != y.2.1 then 1 else 0) + (if x.2.2 != y.2.2 then 1 else 0)) == 1

/-- two corners of a quadrilateral are joined by an edge iff they are consecutive -/
def quadAdjacent (a b : Nat) : Bool := b == (a + 1) % 4 || a == (b + 1) % 4

/-- the generated `HexCell.edge_pairs` / `QuadCell.edge_pairs` are exactly the edges of the cell
    (all 12 / 4 of them, in some direction; never a face or cell diagonal) and stay inside the cell -/
theorem T_C15_edge_tables :
    (∀ a ∈ List.range 8, ∀ b ∈ List.range 8,
      (((a, b) ∈ CBV.Gen.hexEdgePairs ∨ (b, a) ∈ CBV.Gen.hexEdgePairs) ↔ hexAdjacent a b = true)) ∧
    (∀ e ∈ CBV.Gen.hexEdgePairs, e.1 < 8 ∧ e.2 < 8) ∧
    (∀ a ∈ List.range 4, ∀ b ∈ List.range 4,
      (((a, b) ∈ CBV.Gen.quadEdgePairs ∨ (b, a) ∈ CBV.Gen.quadEdgePairs) ↔ quadAdjacent a b = true)) ∧
    (∀ e ∈ CBV.Gen.quadEdgePairs, e.1 < 4 ∧ e.2 < 4) := by decide

/-- the generated side tables are the six faces of the hexahedron (constant in one coordinate) and the
    four edges of the quadrilateral: what `CellBase.boundary` adds for a side without neighbour -/
def hexSideOk (s : List Nat) : Bool :=
  s.length == 4 && s.all (· < 8) &&
    ([0, 1, 2].any fun ax => [true, false].any fun v =>
      (List.range 8).all fun c =>
        (s.contains c) == ((match ax with | 0 => (bits c).1 | 1 => (bits c).2.1 | _ => (bits c).2.2) == v))

def quadSideOk (s : List Nat) : Bool :=
  match s with
  | [a, b] => a < 4 && b < 4 && quadAdjacent a b
  | _ => false

/-- no two sides of the table have the same corner set -/
def sidesDistinct (ss : List (List Nat)) : Bool :=
  (List.range ss.length).all fun i => (List.range ss.length).all fun j =>
    i == j || !setEq (ss.getD i []) (ss.getD j [])

theorem T_C15_side_tables :
    CBV.Gen.hexSideIdx.length = 6 ∧ CBV.Gen.hexSideIdx.all hexSideOk = true ∧
    sidesDistinct CBV.Gen.hexSideIdx = true ∧
    CBV.Gen.quadSideIdx.length = 4 ∧ CBV.Gen.quadSideIdx.all quadSideOk = true ∧
    sidesDistinct CBV.Gen.quadSideIdx = true := by decide

/-- for a hexahedral grid: `to` is a neighbour of `j` iff some cell holds `j` and `to` at two corners that
    differ in exactly one coordinate of the blockMesh numbering -/
theorem T_C15_neigh_hex (cells : List (List Nat)) (n j t : Nat) :
    t ∈ junctionNbrs ⟨hexKind, cells, n⟩ j ↔
      t < n ∧ t ≠ j ∧ ∃ cell ∈ cells, j ∈ cell ∧ ∃ a b, a < 8 ∧ b < 8 ∧ hexAdjacent a b = true ∧
        cell.getD a 0 = j ∧ cell.getD b 0 = t := by
  rw [T_C15_neigh]
  have T := T_C15_edge_tables
  constructor
  · rintro ⟨h1, h2, cell, hc, hj, e, he, h⟩
    refine ⟨h1, h2, cell, hc, hj, ?_⟩
    have hlt := T.2.1 e he
    have hadj : hexAdjacent e.1 e.2 = true :=
      (T.1 e.1 (List.mem_range.mpr hlt.1) e.2 (List.mem_range.mpr hlt.2)).mp (Or.inl he)
    have hadj' : hexAdjacent e.2 e.1 = true :=
      (T.1 e.2 (List.mem_range.mpr hlt.2) e.1 (List.mem_range.mpr hlt.1)).mp (Or.inr he)
    rcases h with ⟨ha, hb⟩ | ⟨ha, hb⟩
    · exact ⟨e.1, e.2, hlt.1, hlt.2, hadj, ha, hb⟩
    · exact ⟨e.2, e.1, hlt.2, hlt.1, hadj', hb, ha⟩
  · rintro ⟨h1, h2, cell, hc, hj, a, b, ha, hb, hadj, hja, hjb⟩
    refine ⟨h1, h2, cell, hc, hj, ?_⟩
    rcases (T.1 a (List.mem_range.mpr ha) b (List.mem_range.mpr hb)).mpr hadj with he | he
    · exact ⟨(a, b), he, Or.inl ⟨hja, hjb⟩⟩
    · exact ⟨(b, a), he, Or.inr ⟨hjb, hja⟩⟩

/-- for a quad map: `to` is a neighbour of `j` iff some face holds them at consecutive corners -/
theorem T_C15_neigh_quad (cells : List (List Nat)) (n j t : Nat) :
    t ∈ junctionNbrs ⟨quadKind, cells, n⟩ j ↔
      t < n ∧ t ≠ j ∧ ∃ cell ∈ cells, j ∈ cell ∧ ∃ a b, a < 4 ∧ b < 4 ∧ quadAdjacent a b = true ∧
        cell.getD a 0 = j ∧ cell.getD b 0 = t := by
  rw [T_C15_neigh]
  have T := T_C15_edge_tables
  constructor
  · rintro ⟨h1, h2, cell, hc, hj, e, he, h⟩
    refine ⟨h1, h2, cell, hc, hj, ?_⟩
    have hlt := T.2.2.2 e he
    have hadj : quadAdjacent e.1 e.2 = true :=
      (T.2.2.1 e.1 (List.mem_range.mpr hlt.1) e.2 (List.mem_range.mpr hlt.2)).mp (Or.inl he)
    have hadj' : quadAdjacent e.2 e.1 = true :=
      (T.2.2.1 e.2 (List.mem_range.mpr hlt.2) e.1 (List.mem_range.mpr hlt.1)).mp (Or.inr he)
    rcases h with ⟨ha, hb⟩ | ⟨ha, hb⟩
    · exact ⟨e.1, e.2, hlt.1, hlt.2, hadj, ha, hb⟩
    · exact ⟨e.2, e.1, hlt.2, hlt.1, hadj', hb, ha⟩
  · rintro ⟨h1, h2, cell, hc, hj, a, b, ha, hb, hadj, hja, hjb⟩
    refine ⟨h1, h2, cell, hc, hj, ?_⟩
    rcases (T.2.2.1 a (List.mem_range.mpr ha) b (List.mem_range.mpr hb)).mpr hadj with he | he
    · exact ⟨(a, b), he, Or.inl ⟨hja, hjb⟩⟩
    · exact ⟨(b, a), he, Or.inr ⟨hjb, hja⟩⟩

/-- non-vacuity: in the 2×2 map the centre's neighbours are the four edge mid points, not the corners -/
example : junctionNbrs (structQuads 2 2) 4 = [1, 3, 5, 7] := by decide

/-! ### copy back -/

/-- `SketchSmoother.backport`: corner `c` of face `f` receives the smoothed position of its point, so
    all faces that share a point receive the same position -/
theorem T_C15_backport (quads : List (List Nat)) (p : List V3) (f c : Nat) :
    ((backportSketch quads p)[f]?).bind (·[c]?) = ((quads[f]?).bind (·[c]?)).map (pget p) := by
  unfold backportSketch
  rw [List.getElem?_map]
  cases quads[f]? with
  | none => rfl
  | some q => simp [List.getElem?_map]

theorem T_C15_backport_shared (quads : List (List Nat)) (p : List V3) (f1 c1 f2 c2 i : Nat)
    (h1 : (quads[f1]?).bind (·[c1]?) = some i) (h2 : (quads[f2]?).bind (·[c2]?) = some i) :
    ((backportSketch quads p)[f1]?).bind (·[c1]?) = some (pget p i) ∧
    ((backportSketch quads p)[f2]?).bind (·[c2]?) = some (pget p i) := by
  rw [T_C15_backport, T_C15_backport, h1, h2]; exact ⟨rfl, rfl⟩

/-- `MappedSketch.positions` after the copy-back returns the smoothed position of every point that occurs in a quad -/
theorem T_C15_backport_positions (quads : List (List Nat)) (p : List V3) (n i : Nat)
    (hi : i < n) (hm : i ∈ quads.flatten) :
    (positionsOf quads (backportSketch quads p) n).getD i V3.zero = pget p i := by
  unfold positionsOf backportSketch
  have hflat : (quads.map (fun q => q.map (pget p))).flatten = quads.flatten.map (pget p) := by
    rw [List.map_flatten]
  rw [hflat]
  have hidx : quads.flatten.idxOf i < quads.flatten.length := List.idxOf_lt_length_iff.mpr hm
  simp only [List.getD_eq_getElem?_getD, List.getElem?_map, List.getElem?_range hi, Option.map_some,
    Option.getD_some, List.getElem?_eq_getElem hidx]
  simp [pget, List.getD_eq_getElem?_getD]

/-- `MeshSmoother.backport`: vertex `i` receives point `i` -/
theorem T_C15_backport_mesh (p : List V3) : backportMesh p = p := by
  unfold backportMesh
  apply List.ext_getElem (by simp)
  intro i h1 h2
  simp [pget, List.getD_eq_getElem?_getD, h2]

/-! ### histories: several fixing / smoothing calls on one smoother; a sketch smoothed again after it was moved -/

/-- the fixed set only grows, whatever the calls -/
theorem T_C15_history_fixed_mono (g : Grid) (s : SmState) (ops : List Op) (i : Nat) (h : i ∈ s.fixed) :
    i ∈ (runOps g s ops).fixed := by
  unfold runOps
  induction ops generalizing s with
  | nil => exact h
  | cons o os ih =>
    simp only [List.foldl_cons]
    apply ih
    cases o <;> simp [runOp, h]

/-- For every sequence of `fix_indexes` / `fix_points` / `smooth` calls on one smoother: a point that is on
    the boundary, outside the grid, or *already fixed at some moment* has the position it had at that
    moment ever after — later fixing calls never un-fix it. -/
theorem T_C15_history_frame (g : Grid) (s : SmState) (ops : List Op) (i : Nat)
    (h : isBoundary g i = true ∨ i ∈ s.fixed ∨ g.n ≤ i) :
    pget (runOps g s ops).p i = pget s.p i := by
  unfold runOps
  induction ops generalizing s with
  | nil => rfl
  | cons o os ih =>
    simp only [List.foldl_cons]
    have hstep : pget (runOp g s o).p i = pget s.p i := by
      cases o with
      | fixIdx l => rfl
      | fixPts q => rfl
      | smooth k => exact (T_C15_frame g s.fixed k s.p i h).1
    have hfix : isBoundary g i = true ∨ i ∈ (runOp g s o).fixed ∨ g.n ≤ i := by
      rcases h with h | h | h
      · exact Or.inl h
      · right; left; cases o <;> simp [runOp, h]
      · exact Or.inr (Or.inr h)
    rw [ih (runOp g s o) hfix, hstep]

/-- the same, counted from any moment of the history: `pre` then `post` -/
theorem T_C15_history_frame_from (g : Grid) (s : SmState) (pre post : List Op) (i : Nat)
    (h : isBoundary g i = true ∨ i ∈ (runOps g s pre).fixed ∨ g.n ≤ i) :
    pget (runOps g s (pre ++ post)).p i = pget (runOps g s pre).p i := by
  have : runOps g s (pre ++ post) = runOps g (runOps g s pre) post := by
    unfold runOps; rw [List.foldl_append]
  rw [this]
  exact T_C15_history_frame g _ post i h

/-- a call `fix_indexes(l)` fixes every index of `l`, a call `fix_points(q)` every junction within TOL of a
    point of `q` at that moment — both in addition to what was fixed before -/
theorem T_C15_history_fix (g : Grid) (s : SmState) (l : List Nat) (q : List V3) :
    (∀ i ∈ l, i ∈ (runOp g s (.fixIdx l)).fixed) ∧
    (∀ i ∈ fixPoints tol2 s.p q, i ∈ (runOp g s (.fixPts q)).fixed) ∧
    (∀ i ∈ s.fixed, i ∈ (runOp g s (.fixIdx l)).fixed ∧ i ∈ (runOp g s (.fixPts q)).fixed) := by
  refine ⟨?_, ?_, ?_⟩ <;> intro i hi <;> simp [runOp, hi]

/-- `fix_points` matches by the *absolute* distance `< TOL` only: moving the whole geometry and the given
    positions by any vector — however far from the origin — fixes exactly the same junctions. -/
theorem T_C15_fix_points_translation (tol : Rat) (t : V3) (p q : List V3) :
    fixPoints tol (p.map (fun x => x + t)) (q.map (fun x => x + t)) = fixPoints tol p q := by
  unfold fixPoints
  rw [List.flatMap_map, List.length_map]
  apply List.flatMap_congr
  intro x _
  apply List.filter_congr
  intro j hj
  have hlt : j < p.length := List.mem_range.mp hj
  have hp : pget (p.map (fun x => x + t)) j = pget p j + t := by
    simp [pget, List.getD_eq_getElem?_getD, hlt]
  rw [hp]
  have : V3.norm2 (x + t - (pget p j + t)) = V3.norm2 (x - pget p j) := by
    simp only [V3.norm2, V3.dot, V3.sub_x, V3.sub_y, V3.sub_z, V3.add_x, V3.add_y, V3.add_z]; ring
  rw [this]

/-- … and a junction is fixed by `fix_points([q])` iff it lies within TOL of `q` -/
theorem T_C15_fix_points_radius (tol : Rat) (p : List V3) (q : V3) (j : Nat) :
    j ∈ fixPoints tol p [q] ↔ j < p.length ∧ V3.norm2 (q - pget p j) < tol := by
  simp [fixPoints, List.mem_filter]

/-- non-vacuity: fix by position, then by index, then smooth: both stay, the fixed set holds both -/
example :
    let g : Grid := structQuads 3 3
    let p : List V3 := (List.range 16).map (fun q => if q = 5 then ⟨5/4, 3/4, 0⟩ else if q = 10 then ⟨9/4, 2, 0⟩ else quadCoord 3 q)
    let s := runOps g ⟨[], p⟩ [.fixPts [⟨5/4, 3/4, 0⟩], .fixIdx [10], .smooth 3]
    s.fixed = [5, 10] ∧ pget s.p 5 = ⟨5/4, 3/4, 0⟩ ∧ pget s.p 10 = ⟨9/4, 2, 0⟩ := by decide +kernel

/-- `SketchSmoother(sketch).smooth(k)` works on the positions the faces hold *now*: every corner that holds
    a boundary (or fixed) point keeps the position that `sketch.positions`, reconstructed from the current
    faces, gives for its index — wherever the sketch was moved to since an earlier smoothing. -/
theorem T_C15_sketch_frame (quads : List (List Nat)) (faces : List (List V3)) (n : Nat) (fixed : List Nat)
    (k f c i : Nat) (hi : (quads[f]?).bind (·[c]?) = some i)
    (h : isBoundary ⟨quadKind, quads, n⟩ i = true ∨ i ∈ fixed ∨ n ≤ i) :
    ((smoothSketch quads faces n fixed k)[f]?).bind (·[c]?) = some (pget (positionsOf quads faces n) i) := by
  unfold smoothSketch
  rw [T_C15_backport, hi]
  simp only [Option.map_some]
  rw [(T_C15_frame ⟨quadKind, quads, n⟩ fixed k _ i h).1]

end CBV.C15
