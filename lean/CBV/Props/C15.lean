/- C15 — property theorems.  Stub. -/
import CBV.Model.C15

namespace CBV.C15

end CBV.C15
