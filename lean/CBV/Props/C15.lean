/- C15 — property theorems (work in progress). -/
import CBV.Model.C15

namespace CBV.C15

end CBV.C15
