/- C12 — property theorems.  Stub. -/
import CBV.Model.C12

namespace CBV.C12

end CBV.C12
