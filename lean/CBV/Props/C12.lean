/-
C12 — property theorems about the state machine `CBV.C12` (Model/C12.lean), for *every* state / history:

* `T_C12_clear`           clear(); assemble() does not change the written dictionary, also after any number of
                          modify_patch / set_default_patch / write calls on the assembled mesh;
* `T_C12_clear_fresh`     the same, stated against a single assembly of a never-assembled mesh;
* `T_C12_roundtrip_idem`  clear(); assemble() twice = once (state equality);
* `T_C12_write_idem`      a second write() leaves state and file as they are;
* `T_C12_delete`          after delete + re-assembly the lists are those of the mesh that never held the
                          operation; the blocks are exactly the live operations, each once, in order;
* `T_C12_aligned`         after (re-)assembly every operation has the locations of its block's vertices;
* `T_C12_backport_id`     backport() with no vertex moved = clear(); assemble(), the file is unchanged;
* `T_C12_backport_move`   backport() gives every operation that has a block the locations of that block's vertices,
                          leaves operations without a block (deleted ones) alone, and re-assembles on them;
* `T_C12_backport_single_move`  after one move_to: only corners that sat on the moved vertex change;
* `T_C12_wf_run`          the representation invariant holds along every legal history.
-/
import CBV.Lemmas.C12Tie
import CBV.Lemmas.C12X
import CBV.Lemmas.C12Tol
import CBV.Gen.TC12

namespace CBV.C12

section
attribute [local irreducible] addVerts addEdges addFaces patchItems faceItems

/-! ### clear / assemble -/

/-- `clear(); assemble()` twice is the same state as once -/
theorem T_C12_roundtrip_idem (m : Mesh) : RT (RT m) = RT m := RT_idem m

/-- Take any state `m`, re-assemble it (`RT m = assemble (clear m)`), then call modify_patch / set_default_patch /
    write any number of times: clearing and assembling again does not change what `write` produces. -/
theorem T_C12_clear (m : Mesh) (q : List Step) (hq : ∀ s ∈ q, s.quiet = true) :
    written (RT (run (RT m) q)) = written (run (RT m) q) :=
  canon_written _ (canon_run (RT m) q hq (canon_RT m))

/-- the same against a *single* assembly: `u` has never been assembled (or was cleared) -/
theorem T_C12_clear_fresh (u : Mesh) (hu : clear u = u) (q : List Step) (hq : ∀ s ∈ q, s.quiet = true) :
    written (assemble (clear (run (assemble u) q))) = written (run (assemble u) q) := by
  have : assemble u = RT u := by unfold RT; rw [hu]
  rw [this]
  exact T_C12_clear u q hq

/-- non-vacuity: modify_patch, write, set_default_patch, add_geometry are quiet -/
example : ∀ s ∈ [Step.modify "inlet" "wall" (some ["transform none"]), Step.write, Step.setDefault "walls" "wall",
      Step.addGeometry "terrain" ["type triSurfaceMesh"]],
    s.quiet = true := by decide

/-! ### write twice -/

/-- a second `write()` returns the same file (or error) and leaves the state as the first one left it -/
theorem T_C12_write_idem (m : Mesh) : write (write m).1 = ((write m).1, (write m).2) := by
  by_cases h : isAssembled m = true
  · have h1 : write m = writeFrom m := by rw [write_eq]; simp [h]
    have h2 : (writeFrom m).1 = gradeBlocks m := writeFrom_state m h
    rw [h1, h2]
    have h3 : isAssembled (gradeBlocks m) = true := h
    rw [write_eq]
    simp only [h3, if_true]
    rw [writeFrom_gradeBlocks m h, ← h2]
  · have h' : isAssembled m = false := by simpa using h
    have h1 : write m = writeFrom (assemble m) := by rw [write_eq]; simp [h']
    by_cases g : isAssembled (assemble m) = true
    · have h2 : (writeFrom (assemble m)).1 = gradeBlocks (assemble m) := writeFrom_state _ g
      rw [h1, h2]
      have h3 : isAssembled (gradeBlocks (assemble m)) = true := g
      rw [write_eq]
      simp only [h3, if_true]
      rw [writeFrom_gradeBlocks _ g, ← h2]
    · have g' : isAssembled (assemble m) = false := by simpa using g
      have hm : assemble m = m := assemble_of_not_assembled m g'
      rw [h1, hm]
      have : (writeFrom m).1 = m := by unfold writeFrom; simp [h']
      rw [this, write_eq]
      simp only [h', hm, Bool.false_eq_true, if_false]
      exact Prod.ext this rfl

/-- The rejecting branch of `write()` ("Cannot grade a mesh before it is assembled"): it is taken exactly when the mesh is
    not assembled and no operation of the depot is left to assemble (empty depot, or everything deleted). -/
theorem T_C12_write_rejects (m : Mesh) :
    written m = .error .notAssembled ↔ (isAssembled m = false ∧ liveOps m = []) := by
  have key : ∀ x : Mesh, (writeFrom x).2 = .error .notAssembled ↔ isAssembled x = false := by
    intro x
    unfold writeFrom
    by_cases hx : isAssembled x = true
    · simp only [hx, Bool.not_true, Bool.false_eq_true, if_false]
      split <;> simp
    · have hx' : isAssembled x = false := by simpa using hx
      simp [hx']
  unfold written
  rw [write_eq]
  by_cases h : isAssembled m = true
  · simp only [h, if_true, key]
    simp
  · have h' : isAssembled m = false := by simpa using h
    simp only [h', Bool.false_eq_true, if_false, key, true_and]
    constructor
    · intro ha
      rcases Classical.em (liveOps m = []) with hl | hne
      · exact hl
      · have := foldl_addOp_verts_ne_nil (slavePatches m) (liveOps m) m.lists (Or.inl hne)
        rw [← assemble_lists] at this
        simp [isAssembled] at ha
        exact absurd ha this
    · intro hl
      have : (assemble m).lists = m.lists := by rw [assemble_lists, hl]; rfl
      simp only [isAssembled, this]
      exact h'

/-- both sides of `T_C12_write_rejects` occur: an empty mesh is rejected, the example history is not -/
example : written ({} : Mesh) = .error .notAssembled :=
  (T_C12_write_rejects {}).mpr ⟨rfl, rfl⟩

theorem T_C12_write_idem_file (m : Mesh) : written (write m).1 = written m := by
  unfold written; rw [T_C12_write_idem]

/-! ### delete -/

/-- `assemble` makes one block per live operation (in the depot, not deleted), in depot order -/
theorem T_C12_assemble_live (m : Mesh) :
    (assemble m).lists = (liveOps m).foldl (addOp (slavePatches m)) m.lists ∧
    (RT m).lists.blocks.map (·.opId) = (liveOps m).map (·.id) ∧
    (RT m).lists.assembled = (liveOps m).map (·.id) := by
  refine ⟨assemble_lists m, ?_, ?_⟩
  · rw [RT_lists]; simpa using (foldl_addOp_blocks (slavePatches m) (liveOps m) {}).1
  · rw [RT_lists]; simpa using (foldl_addOp_blocks (slavePatches m) (liveOps m) {}).2

/-- The depot is a list of entities, each holding one (Operation) or several (Shape, Stack, Assembly) operations, and
    `Mesh.assemble` runs two nested loops over it.  The nesting does not matter: the result is the single loop over all
    operations in order, so a deleted operation is skipped and the operations after it *in the same entity* are not. -/
theorem T_C12_entities (sl : List String) (del : List Nat) (es : List (List Op)) (l : Lists) (m : Mesh) :
    assembleEntities sl del es l = assembleLoop sl del es.flatten l ∧
    (entities m).flatten = m.depot ∧
    assemble m = { m with lists := assembleLoop (slavePatches m) m.deleted m.depot m.lists } :=
  ⟨assembleEntities_flatten sl del es l, flatten_splitGroups m.groups m.depot, assemble_flat m⟩

/-- Deleting an operation and re-assembling gives the lists — hence the file — of the mesh that never held it:
    its block is gone and nothing else changes. -/
theorem T_C12_delete (m : Mesh) (id : Nat) :
    (RT (delete m id)).lists = (RT (without m id)).lists ∧
    written (RT (delete m id)) = written (RT (without m id)) ∧
    (RT (delete m id)).lists.blocks.map (·.opId) = ((liveOps m).filter (fun o => decide (o.id ≠ id))).map (·.id) := by
  have hl := liveOps_delete m id
  have h1 : (RT (delete m id)).lists = (RT (without m id)).lists := by
    rw [RT_lists, RT_lists, hl]; rfl
  refine ⟨h1, ?_, ?_⟩
  · apply written_congr _ _ h1 rfl rfl rfl hl rfl
  · rw [(T_C12_assemble_live (delete m id)).2.1, hl]
    simp only [liveOps, without, List.filter_filter]
    congr 1
    apply List.filter_congr
    intro o _
    by_cases h1 : o.id = id <;> by_cases h2 : o.id ∈ m.deleted <;> simp [h1, h2]

/-! ### backport -/

/-- After `clear(); assemble()` of a well-formed depot every operation has the locations of its block's vertices. -/
theorem T_C12_aligned (m : Mesh) (h : DepotWF m.depot) : Aligned (RT m) := aligned_RT m h

/-- `backport()` on an assembled mesh whose vertices were not moved is `clear(); assemble()` -/
theorem T_C12_backport_id (m : Mesh) (ha : Aligned m) (h : isAssembled m = true) : backport m = some (RT m) := by
  unfold backport
  rw [if_pos h, backportDepot_aligned m ha]
  rfl

/-- Back-porting unmodified vertices yields the same written dictionary as the assembly it started from, whatever
    modify_patch / set_default_patch / write calls came in between. -/
theorem T_C12_backport_unmoved (m : Mesh) (h : DepotWF m.depot) (q : List Step) (hq : ∀ s ∈ q, s.quiet = true)
    (ha : isAssembled (run (RT m) q) = true) :
    ∃ t', backport (run (RT m) q) = some t' ∧ written t' = written (run (RT m) q) := by
  refine ⟨RT (run (RT m) q), ?_, T_C12_clear m q hq⟩
  apply T_C12_backport_id _ _ ha
  have hwf : DepotWF (RT m).depot := h
  exact aligned_run (RT m) q hq (canon_RT m) (by rw [← RT_idem m]; exact aligned_RT (RT m) hwf)

/-- What `backport()` does to the depot, for any assembled state in which every block belongs to one operation:
    an operation without a block (deleted before assembly) is untouched; an operation with a block receives the
    locations of that block's vertices; the result is re-assembled from that depot, so (`T_C12_aligned`) the new
    blocks sit on the moved locations. -/
theorem T_C12_backport_move (m m' : Mesh) (hb : backport m = some m')
    (hl : m.lists.blocks.length = m.lists.assembled.length) (hn : m.lists.assembled.Nodup) :
    let pairs := m.lists.blocks.zip m.lists.assembled
    m'.depot = m.depot.map (bpOne m.lists.verts pairs) ∧
    m' = RT { m with depot := m.depot.map (bpOne m.lists.verts pairs) } ∧
    (∀ o, o.id ∉ m.lists.assembled → bpOne m.lists.verts pairs o = o) ∧
    (∀ p ∈ pairs, ∀ o, o.id = p.2 →
      (bpOne m.lists.verts pairs o).corners = p.1.verts.map (locOf m.lists.verts) ∧
      (bpOne m.lists.verts pairs o).id = o.id) := by
  intro pairs
  have hsnd : pairs.map (·.2) = m.lists.assembled := by
    simp only [pairs]
    rw [List.map_snd_zip]; omega
  unfold backport at hb
  split at hb
  · cases hb
    refine ⟨?_, ?_, ?_, ?_⟩
    · show backportDepot _ _ _ = _
      exact backportDepot_eq_map _ _ _
    · show assemble (clear _) = RT _
      rw [backportDepot_eq_map]; rfl
    · intro o ho
      apply bpOne_untouched
      rw [hsnd]; exact ho
    · intro p hp o hid
      obtain ⟨b, id⟩ := p
      simp only at hid
      subst hid
      exact ⟨bpOne_corners _ pairs o b (by rw [hsnd]; exact hn) hp, bpOne_id _ _ _⟩
  · cases hb

/-- One `move_to` on an aligned mesh, then `backport()`: an operation's corner changes iff it sat on the moved
    vertex; operations whose block does not contain that vertex keep all their points. -/
theorem T_C12_backport_single_move (m0 : Mesh) (r : Nat) (loc : Pt) (ha : Aligned m0) (hv : m0.lists.verts ≠ []) :
    let i := r % m0.lists.verts.length
    let m := moveVertex m0 r loc
    ∀ p ∈ m0.lists.blocks.zip m0.lists.assembled, ∀ o ∈ m0.depot, o.id = p.2 →
      p.1.verts.map (locOf m.lists.verts) = p.1.verts.map (fun v => if v = i then loc else locOf m0.lists.verts v) ∧
      (i ∉ p.1.verts → p.1.verts.map (locOf m.lists.verts) = o.corners) := by
  intro i m p hp o ho hid
  have hlen : i < m0.lists.verts.length := Nat.mod_lt _ (List.length_pos_iff.mpr hv)
  have hm : m.lists.verts = m0.lists.verts.modify i (fun v => { v with loc := loc }) := by
    simp only [m, moveVertex]
    have : m0.lists.verts.isEmpty = false := by
      cases hvv : m0.lists.verts with
      | nil => exact absurd hvv hv
      | cons _ _ => rfl
    simp [this, i]
  have h1 : p.1.verts.map (locOf m.lists.verts) =
      p.1.verts.map (fun v => if v = i then loc else locOf m0.lists.verts v) := by
    apply List.map_congr_left
    intro v _
    rw [hm, locOf_modify _ _ _ _ hlen]
  refine ⟨h1, ?_⟩
  intro hni
  rw [h1, ha p hp o ho hid]
  apply List.map_congr_left
  intro v hvm
  have : ¬ v = i := fun e => hni (e ▸ hvm)
  simp [this]

/-- `a.move_to(b.position)` copies the coordinates: afterwards `a` is where `b` is, and moving `a` on does not move `b`
    (two vertices at one place remain two vertices). -/
theorem T_C12_move_onto (m : Mesh) (r1 r2 : Nat) (loc : Pt) (hv : m.lists.verts ≠ [])
    (hne : r1 % m.lists.verts.length ≠ r2 % m.lists.verts.length) :
    locOf (moveOnto m r1 r2).lists.verts (r1 % m.lists.verts.length) = locOf m.lists.verts (r2 % m.lists.verts.length) ∧
    locOf (moveVertex (moveOnto m r1 r2) r1 loc).lists.verts (r1 % m.lists.verts.length) = loc ∧
    locOf (moveVertex (moveOnto m r1 r2) r1 loc).lists.verts (r2 % m.lists.verts.length)
      = locOf m.lists.verts (r2 % m.lists.verts.length) := by
  have hl1 : r1 % m.lists.verts.length < m.lists.verts.length := Nat.mod_lt _ (List.length_pos_iff.mpr hv)
  have he : m.lists.verts.isEmpty = false := by
    cases hvv : m.lists.verts with
    | nil => exact absurd hvv hv
    | cons _ _ => rfl
  have h1 : (moveOnto m r1 r2).lists.verts = m.lists.verts.modify (r1 % m.lists.verts.length)
      (fun v => { v with loc := locOf m.lists.verts (r2 % m.lists.verts.length) }) := by
    simp [moveOnto, moveVertex, he]
  have hlen : (moveOnto m r1 r2).lists.verts.length = m.lists.verts.length := by rw [h1]; simp
  have he2 : (moveOnto m r1 r2).lists.verts.isEmpty = false := by
    rw [List.isEmpty_eq_false_iff, ← List.length_pos_iff, hlen]; exact List.length_pos_iff.mpr hv
  have h2 : (moveVertex (moveOnto m r1 r2) r1 loc).lists.verts = (moveOnto m r1 r2).lists.verts.modify
      (r1 % m.lists.verts.length) (fun v => { v with loc := loc }) := by
    simp [moveVertex, he2, hlen]
  refine ⟨?_, ?_, ?_⟩
  · rw [h1, locOf_modify _ _ _ _ hl1]; simp
  · rw [h2, locOf_modify _ _ _ _ (by rw [hlen]; exact hl1)]; simp
  · rw [h2, locOf_modify _ _ _ _ (by rw [hlen]; exact hl1), h1, locOf_modify _ _ _ _ hl1]
    simp [Ne.symm hne]

/-- `backport()` keeps the depot well formed (same identity ⇒ same object, 8 points), so `T_C12_aligned` applies
    to its result: the re-assembled blocks sit on the back-ported (moved) locations. -/
theorem T_C12_backport_aligned (m m' : Mesh) (hb : backport m = some m') (h : DepotWF m.depot)
    (hl : m.lists.blocks.length = m.lists.assembled.length) (hn : m.lists.assembled.Nodup)
    (h8 : ∀ b ∈ m.lists.blocks, b.verts.length = 8) : DepotWF m'.depot ∧ Aligned m' := by
  obtain ⟨hd, hrt, _, _⟩ := T_C12_backport_move m m' hb hl hn
  have hsnd : (m.lists.blocks.zip m.lists.assembled).map (·.2) = m.lists.assembled := by
    rw [List.map_snd_zip]; omega
  have hwf : DepotWF m'.depot := by
    rw [hd]
    apply depotWF_map_bpOne _ _ _ h (by rw [hsnd]; exact hn)
    intro p hp
    exact h8 p.1 (List.of_mem_zip hp).1
  refine ⟨hwf, ?_⟩
  rw [hrt]
  apply aligned_RT
  rw [hd] at hwf
  exact hwf

/-! ### the representation invariant along histories -/

/-- the invariant holds in every state a legal history reaches -/
theorem T_C12_wf_run (m : Mesh) (h : List Step) (hw : WF m) (hl : Legal m h) : WF (run m h) := by
  induction h generalizing m with
  | nil => exact hw
  | cons s rest ih =>
    simp only [run, List.foldl_cons]
    exact ih (step m s) (wf_step m s hw hl.1) hl.2

/-- For every legal history: the round-trip, write and delete theorems above hold in the state it reaches (they hold
    in every state), and the state satisfies the hypotheses of the backport theorems: the depot is well formed, so
    after `clear(); assemble()` or `backport()` operations and blocks are aligned. -/
theorem T_C12_history (h : List Step) (hl : Legal {} h) :
    let s := run {} h
    DepotWF s.depot ∧ Aligned (RT s) ∧ RT (RT s) = RT s ∧ written (write s).1 = written s := by
  intro s
  have hw := T_C12_wf_run {} h wf_init hl
  exact ⟨hw.1, aligned_RT s hw.1, RT_idem s, T_C12_write_idem_file s⟩

end

/-! ### coordinates: shared points, payloads, translate, many vertices at once (round 6) -/

/-- `backport()` changes the corner points of an operation and nothing else: its edges with their payload (arc points,
    spline / polyLine points, projection labels), patch names, projections, chops and cell zone are what they were. -/
theorem T_C12_backport_payload (vs : List Vtx) (pairs : List (Block × Nat)) (o : Op) :
    { bpOne vs pairs o with corners := o.corners } = o := by
  have key : ∀ (pairs : List (Block × Nat)) (o : Op), ∃ cs, bpOne vs pairs o = { o with corners := cs } := by
    intro pairs
    induction pairs with
    | nil => intro o; exact ⟨o.corners, rfl⟩
    | cons p rest ih =>
      intro o
      obtain ⟨b, id⟩ := p
      simp only [bpOne]
      have h2 : ∃ cs1, setCorners (b.verts.map (locOf vs)) id o = { o with corners := cs1 } := by
        unfold setCorners
        split
        · exact ⟨_, rfl⟩
        · exact ⟨o.corners, rfl⟩
      obtain ⟨cs1, h2⟩ := h2
      obtain ⟨cs, h3⟩ := ih { o with corners := cs1 }
      exact ⟨cs, by rw [h2, h3]⟩
  obtain ⟨cs, h⟩ := key pairs o
  rw [h]

/-- in particular the twelve edge data survive a `backport()` whatever was moved -/
theorem T_C12_backport_edges (vs : List Vtx) (pairs : List (Block × Nat)) (o : Op) :
    (bpOne vs pairs o).bottomEdges = o.bottomEdges ∧ (bpOne vs pairs o).topEdges = o.topEdges ∧
    (bpOne vs pairs o).sideEdges = o.sideEdges ∧ (bpOne vs pairs o).chops = o.chops := by
  have h := T_C12_backport_payload vs pairs o
  exact ⟨by rw [← congrArg Op.bottomEdges h], by rw [← congrArg Op.topEdges h], by rw [← congrArg Op.sideEdges h],
    by rw [← congrArg Op.chops h]⟩

/-- Shared points are back-ported consistently: when corner `c1` of one operation and corner `c2` of another (or the same)
    were made the same vertex `v` by the assembly, both corners have the coordinates of `v` after `backport()` —
    whatever `move_to` / `translate` / optimisation put there. -/
theorem T_C12_backport_shared (m m' : Mesh) (hb : backport m = some m')
    (hl : m.lists.blocks.length = m.lists.assembled.length) (hn : m.lists.assembled.Nodup)
    (p1 p2 : Block × Nat) (h1 : p1 ∈ m.lists.blocks.zip m.lists.assembled) (h2 : p2 ∈ m.lists.blocks.zip m.lists.assembled)
    (o1 o2 : Op) (hi1 : o1.id = p1.2) (hi2 : o2.id = p2.2) (c1 c2 v : Nat)
    (hv1 : p1.1.verts[c1]? = some v) (hv2 : p2.1.verts[c2]? = some v) :
    let pairs := m.lists.blocks.zip m.lists.assembled
    (bpOne m.lists.verts pairs o1).corners[c1]? = some (locOf m.lists.verts v) ∧
    (bpOne m.lists.verts pairs o2).corners[c2]? = some (locOf m.lists.verts v) := by
  intro pairs
  obtain ⟨_, _, _, hc⟩ := T_C12_backport_move m m' hb hl hn
  have e1 := (hc p1 h1 o1 hi1).1
  have e2 := (hc p2 h2 o2 hi2).1
  simp only [pairs] at *
  rw [e1, e2]
  simp [List.getElem?_map, hv1, hv2]

/-- `vertex.translate(d)` adds the displacement to the three coordinates of that vertex and leaves every other vertex
    where it is -/
theorem T_C12_translate (m : Mesh) (r : Nat) (d : Pt) (hv : m.lists.verts ≠ []) :
    let i := r % m.lists.verts.length
    let p := locOf m.lists.verts i
    locOf (translateVertex m r d).lists.verts i = ⟨p.x + d.x, p.y + d.y, p.z + d.z⟩ ∧
    ∀ j, j ≠ i → locOf (translateVertex m r d).lists.verts j = locOf m.lists.verts j := by
  intro i p
  have hlen : i < m.lists.verts.length := Nat.mod_lt _ (List.length_pos_iff.mpr hv)
  have he : m.lists.verts.isEmpty = false := by
    cases hvv : m.lists.verts with
    | nil => exact absurd hvv hv
    | cons _ _ => rfl
  have hm : (translateVertex m r d).lists.verts = m.lists.verts.modify i (fun v => { v with loc := p.add d }) := by
    simp [translateVertex, moveVertex, he, i, p]
  refine ⟨?_, ?_⟩
  · rw [hm, locOf_modify _ _ _ _ hlen]; simp [Pt.add]
  · intro j hj
    rw [hm, locOf_modify _ _ _ _ hlen]; simp [hj]

/-- translate one vertex of an aligned mesh, then `backport()`: a corner that sat on that vertex is displaced by `d`, every
    other corner keeps its coordinates -/
theorem T_C12_backport_translate (m0 : Mesh) (r : Nat) (d : Pt) (ha : Aligned m0) (hv : m0.lists.verts ≠ []) :
    let i := r % m0.lists.verts.length
    let m := translateVertex m0 r d
    ∀ p ∈ m0.lists.blocks.zip m0.lists.assembled, ∀ o ∈ m0.depot, o.id = p.2 →
      p.1.verts.map (locOf m.lists.verts) =
        p.1.verts.map (fun v => if v = i then (locOf m0.lists.verts i).add d else locOf m0.lists.verts v) ∧
      (i ∉ p.1.verts → p.1.verts.map (locOf m.lists.verts) = o.corners) :=
  T_C12_backport_single_move m0 r _ ha hv

/-- Many vertices moved at once (an optimisation run: `move_to` in a loop): only vertex positions change — the vertex
    list keeps its length, blocks / edges / faces / patches / `assembled` / depot are what they were — and a vertex that
    is not addressed stays where it is. -/
theorem T_C12_move_many (m : Mesh) (mv : List (Nat × Pt)) :
    ∃ vs, moveMany m mv = { m with lists := { m.lists with verts := vs } } ∧ vs.length = m.lists.verts.length ∧
      ∀ j, (∀ q ∈ mv, q.1 % m.lists.verts.length ≠ j) → locOf vs j = locOf m.lists.verts j := by
  induction mv generalizing m with
  | nil => exact ⟨m.lists.verts, rfl, rfl, fun _ _ => rfl⟩
  | cons q rest ih =>
    simp only [moveMany, List.foldl_cons]
    obtain ⟨vs, h1, h2, h3⟩ := ih (moveVertex m q.1 q.2)
    simp only [moveMany] at h1
    by_cases he : m.lists.verts.isEmpty = true
    · have hm : moveVertex m q.1 q.2 = m := by simp [moveVertex, he]
      rw [hm] at h1 h2 h3 ⊢
      exact ⟨vs, h1, h2, fun j hj => h3 j (fun q' hq' => hj q' (by simp [hq']))⟩
    · have he' : m.lists.verts.isEmpty = false := by simpa using he
      have hne : m.lists.verts ≠ [] := by
        intro e; rw [e] at he'; simp at he'
      have hm : moveVertex m q.1 q.2 = { m with lists := { m.lists with
          verts := m.lists.verts.modify (q.1 % m.lists.verts.length) (fun v => { v with loc := q.2 }) } } := by
        simp [moveVertex, he']
      have hlen : (moveVertex m q.1 q.2).lists.verts.length = m.lists.verts.length := by rw [hm]; simp
      refine ⟨vs, ?_, by rw [h2, hlen], ?_⟩
      · rw [h1, hm]
      · intro j hj
        rw [h3 j (fun q' hq' => by rw [hlen]; exact hj q' (by simp [hq']))]
        rw [hm]
        have hi : q.1 % m.lists.verts.length < m.lists.verts.length := Nat.mod_lt _ (List.length_pos_iff.mpr hne)
        show locOf (m.lists.verts.modify _ _) j = _
        rw [locOf_modify _ _ _ _ hi]
        have : ¬ j = q.1 % m.lists.verts.length := fun e => hj q (by simp) e.symm
        simp [this]

/-- … hence after `backport()` an operation whose block holds none of the addressed vertices has exactly its old points
    (and, by `T_C12_backport_move`, every other operation has the current coordinates of its block's vertices) -/
theorem T_C12_backport_many (m0 : Mesh) (mv : List (Nat × Pt)) (ha : Aligned m0) :
    ∀ p ∈ m0.lists.blocks.zip m0.lists.assembled, ∀ o ∈ m0.depot, o.id = p.2 →
      (∀ q ∈ mv, q.1 % m0.lists.verts.length ∉ p.1.verts) →
      p.1.verts.map (locOf (moveMany m0 mv).lists.verts) = o.corners ∧
      (moveMany m0 mv).lists.blocks.zip (moveMany m0 mv).lists.assembled = m0.lists.blocks.zip m0.lists.assembled := by
  intro p hp o ho hid hq
  obtain ⟨vs, h1, _, h3⟩ := T_C12_move_many m0 mv
  rw [h1]
  refine ⟨?_, rfl⟩
  rw [ha p hp o ho hid]
  apply List.map_congr_left
  intro v hv
  exact h3 v (fun q hq' e => hq q hq' (e ▸ hv))

/-! ### exceptions in the middle (round 6) -/

/-- What a failed `write()` leaves behind.  Rejected ("Cannot grade a mesh before it is assembled"): the state is untouched.
    Failed on undefined gradings (`UndefinedGradingsError`): nothing is rolled back — the mesh stays assembled (it was
    assembled by this call if it was not before) with every block graded, all other lists as the assembly made them. -/
theorem T_C12_write_failure_state (m : Mesh) :
    (written m = .error .notAssembled → (write m).1 = m) ∧
    (written m = .error .undefined →
      (write m).1 = gradeBlocks (if isAssembled m then m else assemble m) ∧ isAssembled (write m).1 = true) := by
  constructor
  · intro h
    obtain ⟨hna, hl⟩ := (T_C12_write_rejects m).mp h
    have hm : assemble m = m := by
      have : (assemble m).lists = m.lists := by rw [assemble_lists, hl]; rfl
      show ({ m with lists := (assemble m).lists } : Mesh) = m
      rw [this]
    exact write_state_unassembled m hna hm
  · intro h
    unfold written at h
    rw [write_eq] at h ⊢
    generalize (if isAssembled m = true then m else assemble m) = x at h ⊢
    unfold writeFrom at h ⊢
    by_cases hx : isAssembled x = true
    · simp only [hx, Bool.not_true, Bool.false_eq_true, if_false] at h ⊢
      split
      · exact ⟨rfl, hx⟩
      · exact ⟨rfl, hx⟩
    · have hx' : isAssembled x = false := by simpa using hx
      simp [hx'] at h

/-- … and it leaves no trace a re-assembly would not remove: on a mesh that is in sync with its depot, `write()` —
    successful or failed — followed by `clear(); assemble()` gives back the very same state, and a second `write()` fails
    (or succeeds) in the same way. -/
theorem T_C12_write_failure_recover (m : Mesh) :
    RT (write (RT m)).1 = RT m ∧ written (write m).1 = written m := by
  refine ⟨?_, T_C12_write_idem_file m⟩
  by_cases h : isAssembled (RT m) = true
  · rw [write_state_assembled _ h]
    show assemble (clear (gradeBlocks (RT m))) = RT m
    have : clear (gradeBlocks (RT m)) = clear (RT m) := rfl
    rw [this]
    exact RT_idem m
  · have h' : isAssembled (RT m) = false := by simpa using h
    rw [write_state_unassembled _ h' (canon_not_assembled _ (canon_RT m) h')]
    exact RT_idem m

/-! ### an exception inside `assemble()` (round 6c) -/

/-- Without edge data `factory.create` raises on, the exception-aware functions the driver runs are the plain ones all
    theorems above are about: `assemble` and `backport` never raise, `write` leaves the same state (`stepX` is `step` for every
    call: for all other calls by definition). -/
theorem T_C12_stepX_ok (m : Mesh) (h : ∀ o ∈ m.depot, NoInvalid o) :
    assembleX m = (assemble m, false) ∧ stepX m .assemble = step m .assemble ∧ stepX m .backport = step m .backport ∧
    stepX m .write = step m .write := by
  have ha := assembleX_ok m h
  refine ⟨ha, by simp [stepX, step, ha], ?_, ?_⟩
  · simp only [stepX, step, backportX_ok m h]
    cases backport m <;> rfl
  simp only [stepX, step, writeX, write, ha]
  by_cases hs : isAssembled m = true
  · by_cases hd : (gradeBlocks m).lists.blocks.all Block.isDefined = true <;> simp [hs, hd, -List.all_eq_true]
  · by_cases hb : isAssembled (assemble m) = true
    · by_cases hd : (gradeBlocks (assemble m)).lists.blocks.all Block.isDefined = true <;>
        simp [hs, hb, hd, -List.all_eq_true]
    · simp [hs, hb]

/-- … along every history: what the driver runs (`stepX`, exceptions included) is the history the theorems are about
    (`run` = `step`), as long as no `add` brings invalid edge data (`backport` keeps edge data, so the depot stays valid). -/
theorem T_C12_runX (hist : List Step) (hs : ∀ s ∈ hist, StepOk s) : hist.foldl stepX {} = run {} hist :=
  runX_eq_run {} hist (by intro o ho; simp at ho) hs

/-- What an `assemble()` that is left by an exception leaves behind: the lists hold everything the live operations before
    the failing one (`pre`) contributed — reached without an exception —, plus the vertices of the failing operation `b` and
    the edges of its beams before the failing one; blocks, `assembled`, patches and faces are those of `pre` only, depot and
    all flags are untouched; and the mesh **counts as assembled** (`is_assembled` looks at the vertex list), so a following
    `write()` does not assemble again and writes this partial mesh. -/
theorem T_C12_exception_state (m p : Mesh) (h : assembleX m = (p, true)) :
    ∃ pre b post P, m.depot = pre ++ b :: post ∧ b.id ∉ m.deleted ∧
      assembleLoopX (slavePatches m) m.deleted pre m.lists = (P, false) ∧
      p = { m with lists := { P with verts := (addVerts (slavePatches m) b P.verts).1,
                                     edges := (addEdgesX P.edges b (addVerts (slavePatches m) b P.verts).2).1 } } ∧
      isAssembled p = true := by
  unfold assembleX at h
  have h1 := (Prod.ext_iff.mp h).1
  have h2 := (Prod.ext_iff.mp h).2
  simp only at h1 h2
  obtain ⟨pre, b, post, P, e, hb, hp, hL, _⟩ :=
    assembleLoopX_raised (slavePatches m) m.deleted m.depot m.lists _ (Prod.ext rfl h2)
  refine ⟨pre, b, post, P, e, hb, hp, ?_, ?_⟩
  · rw [← h1]; exact congrArg (fun L => ({ m with lists := L } : Mesh)) hL
  · rw [← h1]
    obtain ⟨ext, _, h8, hlt, _⟩ := addVerts_spec (slavePatches m) b P.verts
    show (!(assembleLoopX (slavePatches m) m.deleted m.depot m.lists).1.verts.isEmpty) = true
    have hv' := congrArg Lists.verts hL
    simp only at hv'
    rw [hv']
    cases hv : (addVerts (slavePatches m) b P.verts).1 with
    | nil =>
      cases hi : (addVerts (slavePatches m) b P.verts).2 with
      | nil => rw [hi] at h8; simp at h8
      | cons i _ =>
        have := hlt i (by rw [hi]; simp)
        rw [hv] at this; simp at this
    | cons _ _ => rfl

/-- Recovery.  Let `p` be what an interrupted assembly of `c` left behind as far as `clear(); assemble()` can see it: same
    depot, deleted set and merged pairs, and a patch table that received the items `X` of the operations assembled before
    the exception.  If the new assembly contributes those items again first (the operations before the failing one are
    still there, e.g. the failing operation was deleted or repaired), `clear(); assemble()` builds exactly the lists it
    would have built had the interrupted assembly never happened: leftovers are not visible afterwards. -/
theorem T_C12_exception_recover (p c : Mesh) (hd : p.depot = c.depot) (hdel : p.deleted = c.deleted)
    (hm : p.merged = c.merged) (X S : List (String × List Nat))
    (hp : p.lists.patches = addItems c.lists.patches X)
    (hi : allItems (slavePatches c) (liveOps c) [] = X ++ S) : (RT p).lists = (RT c).lists := by
  have hl : liveOps p = liveOps c := by simp [liveOps, hd, hdel]
  have hs : slavePatches p = slavePatches c := by simp [slavePatches, hm]
  rw [RT_lists, RT_lists, hl, hs, hp, hi, recover_patches]

/-- `T_C12_exception_recover` with leftovers that agree with the items of the new assembly on their *names* only (round 6g):
    the interrupted assembly may have started from any vertex list, e.g. on top of an assembled mesh. -/
theorem T_C12_exception_recover_names (p c : Mesh) (hd : p.depot = c.depot) (hdel : p.deleted = c.deleted)
    (hm : p.merged = c.merged) (X X' S : List (String × List Nat))
    (hp : p.lists.patches = addItems c.lists.patches X) (hx : X.map (·.1) = X'.map (·.1))
    (hi : allItems (slavePatches c) (liveOps c) [] = X' ++ S) : (RT p).lists = (RT c).lists := by
  have hl : liveOps p = liveOps c := by simp [liveOps, hd, hdel]
  have hs : slavePatches p = slavePatches c := by simp [slavePatches, hm]
  rw [RT_lists, RT_lists, hl, hs, hp, hi, recover_patches_names _ _ _ _ hx]

/-- Recovery, unconditionally on the model (rounds 6e, 6g).  An `assemble()` of a mesh — fresh, cleared, or already
    assembled (a direct second `assemble()`) — in whose depot no identity occurs twice is left by an exception at operation `b`.  Then `delete(b); clear(); assemble()` gives **the very state** — all lists, patch table
    with its entries and their order, flags — of the mesh that never went through the interrupted assembly; by `T_C12_delete`
    its lists and its file are those of the mesh that never held `b`. -/
theorem T_C12_exception_recover_assembleX (m p : Mesh) (h : assembleX m = (p, true))
    (hn : (m.depot.map (·.id)).Nodup) :
    ∃ pre b post, m.depot = pre ++ b :: post ∧ b.id ∉ m.deleted ∧
      RT (delete p b.id) = RT (delete m b.id) ∧
      (RT (delete p b.id)).lists = (RT (without m b.id)).lists ∧
      written (RT (delete p b.id)) = written (RT (without m b.id)) := by
  obtain ⟨pre, b, post, P, hdep, hb, hpre, hp, _⟩ := T_C12_exception_state m p h
  refine ⟨pre, b, post, hdep, hb, ?_⟩
  -- identities before `b` differ from `b`'s
  have hne : ∀ o ∈ pre, o.id ≠ b.id := by
    intro o ho e
    rw [hdep, List.map_append, List.map_cons] at hn
    have := (List.nodup_append.mp hn).2.2 o.id (List.mem_map.mpr ⟨o, ho, rfl⟩) b.id (by simp)
    exact this e
  have hpat : p.lists.patches = addItems m.lists.patches
      (allItems (slavePatches m) (pre.filter (fun o => decide (o.id ∉ m.deleted))) m.lists.verts) := by
    rw [hp]
    show P.patches = _
    rw [assembleLoopX_patches _ _ _ _ _ hpre]
  have hfil : pre.filter (fun o => decide (o.id ∉ b.id :: m.deleted)) = pre.filter (fun o => decide (o.id ∉ m.deleted)) := by
    apply List.filter_congr
    intro o ho
    simp [hne o ho]
  have hlive : liveOps (delete m b.id) =
      pre.filter (fun o => decide (o.id ∉ m.deleted)) ++ post.filter (fun o => decide (o.id ∉ b.id :: m.deleted)) := by
    simp only [liveOps, delete, hdep, List.filter_append, List.filter_cons]
    rw [hfil]
    simp
  obtain ⟨S, hS⟩ := allItems_append (slavePatches m) (pre.filter (fun o => decide (o.id ∉ m.deleted)))
    (post.filter (fun o => decide (o.id ∉ b.id :: m.deleted))) []
  have hdepot : p.depot = m.depot := by rw [hp]
  have hdel : p.deleted = m.deleted := by rw [hp]
  have hmer : p.merged = m.merged := by rw [hp]
  have hl : (RT (delete p b.id)).lists = (RT (delete m b.id)).lists := by
    apply T_C12_exception_recover_names (delete p b.id) (delete m b.id) (by simp [delete, hdepot]) (by simp [delete, hdel])
      (by simp [delete, hmer])
      (allItems (slavePatches m) (pre.filter (fun o => decide (o.id ∉ m.deleted))) m.lists.verts)
      (allItems (slavePatches m) (pre.filter (fun o => decide (o.id ∉ m.deleted))) []) S
    · exact hpat
    · exact allItems_names _ _ _ _
    · show allItems (slavePatches m) (liveOps (delete m b.id)) [] = _
      rw [hlive, hS]
  have hst : RT (delete p b.id) = RT (delete m b.id) := by
    rw [RT_eta (delete p b.id), RT_eta (delete m b.id), hl]
    rw [hp]
    rfl
  refine ⟨hst, ?_, ?_⟩
  · rw [hst]; exact (T_C12_delete m b.id).1
  · rw [hst]; exact (T_C12_delete m b.id).2.1

/-! ### vertex identity by distance < TOL (round 6d) -/

/-- The code merges corners closer than `constants.TOL` (`vfindT`, C05's `closeV3` with the TOL of the current source); the
    model merges corners with equal coordinates.  On every set of points `S` on which "closer than TOL" means "equal", that
    holds the corners of all operations and the present vertices, the tolerance-based assembly loop builds exactly the lists of
    the model's loop, vertex by vertex — so every theorem of this file about `assemble` / `RT` / `backport` is a theorem about
    the tolerance-based assembly of such a mesh — and the vertices stay inside `S`. -/
theorem T_C12_tol_assemble (S : Pt → Prop) (hS : Separated S) (m : Mesh)
    (ho : ∀ o ∈ m.depot, ∀ c, S (o.corners.getD c 0)) (hv : ∀ v ∈ m.lists.verts, S v.loc) :
    assembleLoopT (slavePatches m) m.deleted m.depot m.lists = (assemble m).lists ∧
    assembleLoopT (slavePatches m) m.deleted m.depot (clear m).lists = (RT m).lists ∧
    (∀ v ∈ (assemble m).lists.verts, S v.loc) ∧ (∀ v ∈ (RT m).lists.verts, S v.loc) := by
  have h1 := assembleLoopT_eq S hS (slavePatches m) m.deleted m.depot m.lists ho hv
  have h2 := assembleLoopT_eq S hS (slavePatches m) m.deleted m.depot (clear m).lists ho
    (by intro v hv'; simp [clear] at hv')
  have e1 : (assemble m).lists = assembleLoop (slavePatches m) m.deleted m.depot m.lists := by rw [assemble_flat]
  have e2 : (RT m).lists = assembleLoop (slavePatches m) m.deleted m.depot (clear m).lists := by
    show (assemble (clear m)).lists = _
    rw [assemble_flat]; rfl
  rw [e1, e2]
  exact ⟨h1.1, h2.1, h1.2, h2.2⟩

/-- one corner at a time: the search itself (`VertexList.find_duplicated`) -/
theorem T_C12_tol_find (S : Pt → Prop) (hS : Separated S) (loc : Pt) (sl : List String) (vs : List Vtx)
    (hl : S loc) (hv : ∀ v ∈ vs, S v.loc) : vfindT loc sl vs = vfind loc sl vs := vfindT_eq S hS loc sl vs hl hv

/-! ### the model functions are the statements of the current source (regenerated by `cbv/tables/c12.py`) -/

/-- `Mesh.clear` of the source — its `self.<list>.clear()` statements in order, each with the statements of that list's
    `clear()` — empties exactly what the model's `clear` empties: `Mesh.assembled`, vertices and duplicated entries, edges,
    blocks, faces, and the *sides* of every patch (the entries with their types and settings stay). -/
theorem T_C12_tie_clear (m : Mesh) : clearBy CBV.Gen.c12ClearCalls CBV.Gen.c12ClearOther m = some (clear m) := by
  rfl

/-- the file is the concatenation of the `output.write(...)` calls of `Mesh.write` in source order -/
theorem T_C12_tie_render (m : Mesh) : renderBy CBV.Gen.c12WriteSections m = some (render m) := by
  simp [renderBy, CBV.Gen.c12WriteSections, sectionOf, render, List.mapM_cons, List.mapM_nil]

/-- `Mesh.backport` of the source, statement by statement (guard, the loop over `zip(blocks, assembled)` with the two
    `Face.update` calls, `clear()`, `assemble()`), is the model's `backport` -/
theorem T_C12_tie_backport (m : Mesh) : backportBy (CBV.Gen.c12S_Mesh_backport) m = some (backport m) := by
  have h : CBV.Gen.c12S_Mesh_backport =
      [("if not self.is_assembled:", ["    raise RuntimeError"]),
       ("for v0, v1 in zip(self.blocks, self.assembled):",
        ["    v2 = [v3.position for v3 in v0.vertices]", "    v1.bottom_face.update(v2[:4])",
         "    v1.top_face.update(v2[4:])"]),
       ("self.clear()", []), ("self.assemble()", [])] := by decide
  rw [h]
  unfold backport
  by_cases ha : isAssembled m = true <;> simp [backportBy, backportEffect, ha]

/-- `Mesh.write` of the source (assemble when not assembled, `grade()` = the four statements of `Mesh.grade`, then the
    sections) is the model's `write`: same state afterwards, same file or error -/
theorem T_C12_tie_write (m : Mesh) :
    writeBy CBV.Gen.c12WritePre (CBV.Gen.c12S_Mesh_grade) CBV.Gen.c12WriteSections m = some (write m) := by
  have hg : CBV.Gen.c12S_Mesh_grade =
      [("if not self.is_assembled:", ["    raise RuntimeError"]),
       ("self.block_list.grade_blocks()", []), ("self.block_list.propagate_gradings()", []),
       ("self.block_list.check_consistency()", [])] := by decide
  have hp : CBV.Gen.c12WritePre =
      [("if not self.is_assembled:", ["    self.assemble()"]),
       ("if v1 is not None:", ["    write_vtk(v1, self.vertex_list.vertices, self.block_list.blocks)"]),
       ("self.grade()", [])] := by decide
  rw [hg, hp]
  exact writeBy_eq m

/-- the one-statement methods and the skeleton of `Mesh.assemble` (two nested loops, the skip of deleted operations with
    `continue`, vertices → block → edges → chops → cell zone → block list → `assembled` → patches → faces) are literally
    what the model mirrors; `is_assembled` looks at the vertex list; `Face.update` assigns the positions in order;
    `grade_blocks` resets every axis before grading -/
theorem T_C12_tie_statements :
    CBV.Gen.c12S_Mesh_delete = [("self.deleted.add(v0)", [])] ∧
    CBV.Gen.c12S_Mesh_add = [("self.depot.append(v0)", [])] ∧
    CBV.Gen.c12S_Mesh_is_assembled = [("return len(self.vertex_list.vertices) > 0", [])] ∧
    CBV.Gen.c12S_Mesh_add_geometry = [("self.geometry_list.add(v0)", [])] ∧
    CBV.Gen.c12S_Mesh_modify_patch = [("self.patch_list.modify(v0, v1, v2)", [])] ∧
    CBV.Gen.c12S_Mesh_set_default_patch = [("self.patch_list.set_default(v0, v1)", [])] ∧
    CBV.Gen.c12S_Mesh_merge_patches = [("self.patch_list.merge(v0, v1)", [])] ∧
    CBV.Gen.c12S_PatchList_modify = [("v3 = self.get(v0)", []), ("v3.kind = v1", []),
      ("if v2 is not None:", ["    v3.settings = v2"]), ("self.modified.add(v0)", [])] ∧
    CBV.Gen.c12S_Face_update = [("for v1, v2 in enumerate(v0):",
      ["    self.points[v1].position = np.array(v2, dtype=constants.DTYPE)"])] ∧
    CBV.Gen.c12S_BlockList_grade_blocks = [("for v0 in self.blocks:", ["    for v1 in v0.axes:", "        v1.wires.reset()"]),
      ("for v0 in self.blocks:", ["    v0.grade()"])] ∧
    CBV.Gen.c12S_Mesh_assemble.head? = some ("for v1 in self.depot:",
      ["    if isinstance(v1, Operation):", "        v2 = [v1]", "    else:",
       "        v2 = v1.operations", "    for v3 in v2:",
       "        if v3 in self.deleted:", "            continue",
       "        v4 = self._add_vertices(v3)",
       "        v5 = Block(len(self.block_list.blocks), v4)", "        if not v0:",
       "            for v6 in self.edge_list.add_from_operation(v4, v3):",
       "                v5.add_edge(*v6)", "        for v7 in get_args(AxisType):",
       "            for v8 in v3.chops[v7]:", "                v5.chop(v7, v8)",
       "        v5.cell_zone = v3.cell_zone", "        self.block_list.add(v5)",
       "        self.assembled.append(v3)", "        self.patch_list.add(v4, v3)",
       "        self.face_list.add(v4, v3)", "    if v1.geometry is not None:",
       "        self.add_geometry(v1.geometry)"]) ∧
    -- what `Mesh.__init__` creates: the state components of the model, and `settings`, which no call of a history touches
    CBV.Gen.c12InitAttrs.map (·.1) = ["depot", "deleted", "assembled", "vertex_list", "edge_list", "block_list",
      "patch_list", "face_list", "geometry_list", "settings"] := by
  decide

/-! ### non-vacuity: a concrete history satisfies the hypotheses -/

def exOp (id : Nat) (cs : List Pt) (left : Option String) : Op :=
  { id := id, corners := cs, bottomPatch := none, topPatch := none, sidePatches := [none, none, none, left],
    bottomProj := none, topProj := none, sideProj := [none, none, none, none],
    cornerProj := [[], [], [], [], [], [], [], []],
    bottomEdges := [.line, .line, .line, .line], topEdges := [.line, .arc ⟨11/2, 1/4, -1/8⟩, .line, .line],
    sideEdges := [.line, .line, .line, .line], chops := [[⟨"1.0", 2⟩], [⟨"1.0", 3⟩], [⟨"0.5", 1⟩, ⟨"0.5", 2⟩]], zone := "" }

/-- two boxes side by side, the first one deleted, a patch type changed, one vertex moved -/
def exHistory : List Step :=
  [.add (exOp 0 [0, 1, 2, 3, 4, 5, 6, 7] (some "inlet")), .add (exOp 1 [1, 8, 9, 2, 5, 10, 11, 6] none),
   .modify "inlet" "wall" none, .delete 0, .assemble, .move 7 12, .write]

example : Legal {} exHistory := by
  simp [exHistory, Legal, step, add, exOp]

example : isAssembled (run {} exHistory) = true := by decide +kernel

/-- the hypotheses of `T_C12_backport_move` hold in that state and the back-ported depot is the expected one:
    the deleted operation 0 keeps its points, operation 1 gets location 12 where vertex 7 was moved -/
example : ((backport (run {} exHistory)).map (fun m => m.depot.map (·.corners)))
    = some [[0, 1, 2, 3, 4, 5, 6, 7], [1, 8, 9, 2, 5, 10, 11, 12]] := by decide +kernel

example : (run {} exHistory).lists.assembled.Nodup ∧
    (run {} exHistory).lists.blocks.length = (run {} exHistory).lists.assembled.length := by decide +kernel

/-- and the second write of that history returns the same file -/
example : (written (write (run {} exHistory)).1).toOption = (written (run {} exHistory)).toOption ∧
    (written (run {} exHistory)).toOption.isSome = true := by decide +kernel

/-- a mesh that was never assembled is its own `clear` (hypothesis of `T_C12_clear_fresh`) -/
example : clear (run {} (exHistory.take 4)) = run {} (exHistory.take 4) := by decide +kernel

/-- hypothesis of `T_C12_aligned` / `T_C12_backport_unmoved`: the depot of the example history is well formed … -/
example : DepotWF (run {} exHistory).depot :=
  (T_C12_history exHistory (by simp [exHistory, Legal, step, add, exOp])).1

/-- … and the re-assembled mesh is still assembled after quiet calls -/
example : isAssembled (run (RT (run {} exHistory)) [.modify "inlet" "cyclic" (some ["k v"]), .write]) = true := by
  decide +kernel

/-- hypotheses of `T_C12_backport_single_move`: aligned (by `T_C12_aligned`) and with vertices -/
example : Aligned (RT (run {} exHistory)) ∧ (RT (run {} exHistory)).lists.verts ≠ [] :=
  ⟨T_C12_aligned _ (T_C12_history exHistory (by simp [exHistory, Legal, step, add, exOp])).1, by decide +kernel⟩

/-- one entity of three operations (a Shape), the middle one deleted: the blocks of the first and the last remain -/
example : (run {} [.addEntity [exOp 0 [0, 1, 2, 3, 4, 5, 6, 7] none, exOp 1 [1, 8, 9, 2, 5, 10, 11, 6] none,
      exOp 2 [8, 12, 13, 9, 10, 14, 15, 11] none], .delete 1, .assemble]).lists.blocks.map (·.opId) = [0, 2] ∧
    (entities (run {} [.addEntity [exOp 0 [0, 1, 2, 3, 4, 5, 6, 7] none, exOp 1 [1, 8, 9, 2, 5, 10, 11, 6] none],
      .add (exOp 2 [8, 12, 13, 9, 10, 14, 15, 11] none)])).map (·.map (·.id)) = [[0, 1], [2]] := by decide +kernel

/-- a surface added with `add_geometry` is written, and still written after `clear(); assemble()` and after `backport()` -/
example :
    let m := run {} (exHistory ++ [.addGeometry "terrain" ["type triSurfaceMesh", "file t.stl"]])
    m.geometry = [("terrain", ["type triSurfaceMesh", "file t.stl"])] ∧ (RT m).geometry = m.geometry ∧
    ((backport m).map (·.geometry)) = some m.geometry ∧
    (written (RT (RT m))).toOption = (written (RT m)).toOption := by decide +kernel

/-- hypotheses of `T_C12_move_onto`: the example mesh has vertices and vertices 5 and 2 are different ones -/
example : (RT (run {} exHistory)).lists.verts ≠ [] ∧
    5 % (RT (run {} exHistory)).lists.verts.length ≠ 2 % (RT (run {} exHistory)).lists.verts.length := by decide +kernel

/-! ### non-vacuity of the round-6 theorems -/

/-- two live boxes sharing four points, vertex 1 (shared) displaced by (1/2, 1/4, 0) -/
def exShared : List Step :=
  [.add (exOp 0 [0, 1, 2, 3, 4, 5, 6, 7] (some "inlet")), .add (exOp 1 [1, 8, 9, 2, 5, 10, 11, 6] none), .assemble,
   .translate 1 ⟨1/2, 1/4, 0⟩]

/-- hypotheses of `T_C12_backport_shared` hold there (assembled, one `assembled` entry per block, no identity twice; corner 1
    of operation 0 and corner 0 of operation 1 are vertex 1), and both corners arrive at (3/2, 1/4, 0) -/
example :
    let m := run {} exShared
    (backport m).isSome = true ∧ m.lists.blocks.length = m.lists.assembled.length ∧ m.lists.assembled.Nodup ∧
    (m.lists.blocks.map (·.verts[1]?))[0]? = some (some 1) ∧ (m.lists.blocks.map (·.verts[0]?))[1]? = some (some 1) ∧
    (backport m).map (fun m' => m'.depot.map (fun o => (o.corners[1]?, o.corners[0]?))) =
      some [(some ⟨3/2, 1/4, 0⟩, some 0), (some 8, some ⟨3/2, 1/4, 0⟩)] := by decide +kernel

/-- hypothesis of `T_C12_translate`: the mesh has vertices; the arc of the top face is still there after the backport
    (`T_C12_backport_edges`) and the vertex is written with `%.8f` -/
example :
    let m := run {} exShared
    m.lists.verts ≠ [] ∧
    (backport m).map (fun m' => m'.depot.map (·.topEdges)) = some [(exOp 0 [] none).topEdges, (exOp 1 [] none).topEdges] ∧
    (m.lists.verts[1]?).map Vtx.descr = some "(1.50000000 0.25000000 0.00000000)" := by decide +kernel

/-- `%.8f`: sign, padding, ties to even -/
example : fmt8 (-1/3) = "-0.33333333" ∧ fmt8 (1/200000000) = "0.00000000" ∧ fmt8 (3/200000000) = "0.00000002" ∧
    fmt8 (2500 + 1/8) = "2500.12500000" := by decide +kernel

def failsWith (e : Err) (r : Except Err Text) : Bool := match r with | .error e' => decide (e' = e) | .ok _ => false

theorem failsWith_iff (e : Err) (r : Except Err Text) : failsWith e r = true ↔ r = .error e := by
  cases r <;> simp [failsWith]

/-- both failures of `T_C12_write_failure_state` occur: an empty mesh is rejected; an operation without chops on its first
    axis fails on undefined gradings and the mesh is left assembled -/
example : written ({} : Mesh) = .error .notAssembled ∧
    written (run {} [.add { exOp 0 [0, 1, 2, 3, 4, 5, 6, 7] none with chops := [[], [⟨"1.0", 3⟩], [⟨"1.0", 2⟩]] }])
      = .error .undefined ∧
    isAssembled (run {} [.add { exOp 0 [0, 1, 2, 3, 4, 5, 6, 7] none with chops := [[], [⟨"1.0", 3⟩], [⟨"1.0", 2⟩]] }, .write])
      = true :=
  ⟨(failsWith_iff _ _).mp (by decide +kernel), (failsWith_iff _ _).mp (by decide +kernel), by decide +kernel⟩

/-! ### non-vacuity of the round-6c theorems -/

/-- the second of three boxes has invalid data on the first edge of its top face -/
def exBad : List Step :=
  [.add (exOp 0 [0, 1, 2, 3, 4, 5, 6, 7] (some "inlet")),
   .add { exOp 1 [1, 8, 9, 2, 5, 10, 11, 6] (some "wall") with topEdges := [.invalid, .line, .line, .line] },
   .add (exOp 2 [8, 12, 13, 9, 10, 14, 15, 11] (some "outlet"))]

/-- hypothesis of `T_C12_exception_state`: the assembly raises; what is left: 12 vertices, the block of the first box only,
    the mesh counts as assembled and `write()` writes one `hex`; after deleting the operation, `clear(); assemble()` gives the
    lists of the mesh that was never assembled before (`T_C12_exception_recover`), with two blocks -/
example :
    let m := run {} exBad
    let p := (assembleX m).1
    (assembleX m).2 = true ∧ p.lists.verts.length = 12 ∧ p.lists.blocks.map (·.opId) = [0] ∧ p.lists.assembled = [0] ∧
    isAssembled p = true ∧ (writeX p).1.lists.blocks.length = 1 ∧
    (RT (delete p 1)).lists = (RT (delete m 1)).lists ∧ (RT (delete p 1)).lists.blocks.map (·.opId) = [0, 2] := by
  decide +kernel

/-- hypothesis of `T_C12_stepX_ok`: the operations of the first example history carry no invalid data -/
example : ∀ o ∈ (run {} exHistory).depot, NoInvalid o := by
  intro o ho
  apply noInvalid_of_slots
  have : (run {} exHistory).depot = [exOp 0 [0, 1, 2, 3, 4, 5, 6, 7] (some "inlet"), exOp 1 [1, 8, 9, 2, 5, 10, 11, 6] none] := by
    decide +kernel
  rw [this] at ho
  simp only [List.mem_cons, List.not_mem_nil, or_false] at ho
  rcases ho with rfl | rfl <;> decide

/-- hypothesis of `T_C12_runX`: the calls of the example history bring valid edge data only -/
example : ∀ s ∈ exHistory, StepOk s := by
  intro s hs
  simp only [exHistory, List.mem_cons, List.not_mem_nil, or_false] at hs
  rcases hs with rfl | rfl | rfl | rfl | rfl | rfl | rfl <;>
    first | exact trivial | (apply noInvalid_of_slots; decide)

/-! ### non-vacuity of the round-6d theorems -/

/-- hypothesis of `T_C12_tol_assemble`: the corner points of the two boxes of `exShared` (and the default point) are
    separated with the TOL of the current source … -/
example : Separated (· ∈ ([0, 1, 2, 3, 4, 5, 6, 7, 8, 9, 10, 11] : List Pt)) :=
  separated_of_list _ (by decide +kernel)

/-- … and the hypothesis is needed: two points 1e-8 apart are one vertex for the code and two for the exact search -/
example : vfindT ⟨1/100000000, 0, 0⟩ [] [⟨0, [], []⟩] = some 0 ∧ vfind ⟨1/100000000, 0, 0⟩ [] [⟨0, [], []⟩] = none := by
  decide +kernel

/-- hypotheses of `T_C12_exception_recover_assembleX` hold for `exBad` (the assembly raises, the three identities are
    different), and also when the interrupted assembly runs on top of an assembled mesh: two valid boxes assembled, then the
    invalid one added and `assemble()` called again -/
example : (assembleX (run {} exBad)).2 = true ∧ ((run {} exBad).depot.map (·.id)).Nodup ∧
    (let m := run {} [exBad.getD 0 .assemble, exBad.getD 2 .assemble, .assemble, exBad.getD 1 .assemble]
     (assembleX m).2 = true ∧ m.lists.verts ≠ [] ∧ (m.depot.map (·.id)).Nodup ∧
     RT (delete (assembleX m).1 1) = RT (delete m 1)) := by decide +kernel

end CBV.C12
