/-
C04 — property theorems on M-PROP: on every edge shared by several blocks the written grading describes
the same sequence of sections from either block (identical when the blocks traverse the edge in the same
direction, reversed with reciprocal expansions when opposite), multi-section gradings included; the four
edges of a chopped direction each get the chop evaluated on *their own* length (which is what makes a
preserved first/last cell size hold on every edge); every chop a block receives by propagation descends
from a user chop with the same count and length ratio; a direction is reported `simple` only if its four
gradings are equal.  For every input, schedule and expansion oracle.
For orientable inputs (`WireCoh`: an orientation of the block directions under which two wires on the same vertex
pair run the same way iff their directions are oriented alike) the inversion *parity* a propagated chop carries equals
the orientation of the receiving direction relative to the chopped one (`T_C04_parity`), so the expansion oracle is
always consulted "as seen from the receiving edge's own direction".  Partial: that the geometric input is orientable
(no Möbius-like family) is a hypothesis — decided per generated case by the harness, which skips non-orientable
families; that the expansion oracle itself realises the preserved size at that end is checked on the written file
(`hex:preserved-size-not-realised-at-the-same-end`).
-/
import CBV.Props.C01
import CBV.Lemmas.C04Desc
import CBV.Lemmas.C04Parity

namespace CBV.Prop

/-- shared edges: same sections when aligned, the inverted sections otherwise (to the tolerance of
    `Grading.__eq__`) -/
theorem T_C04_shared (inp : Inp) (st : St) (h : run inp = .ok st) (w w' : Nat)
    (hw : w < 12 * inp.nBlocks) (hw' : w' < 12 * inp.nBlocks) (hb : w / 12 ≠ w' / 12)
    (hp : samePair inp w w' = true) :
    specEq (specOf st w) (if aligned inp w' w then specOf st w' else invertSpec (specOf st w')) = true := by
  obtain ⟨hcc, hck⟩ := T_C01_checked inp st h
  have hmem : (inp.coinc w).contains w' = true := by
    unfold coincComplete at hcc
    rw [List.all_eq_true] at hcc
    have h1 := hcc w (List.mem_range.mpr hw)
    rw [List.all_eq_true] at h1
    have h2 := h1 w' (List.mem_range.mpr hw')
    have hne : (w / 12 != w' / 12) = true := by simpa using hb
    simpa [hne, hp] using h2
  have hx : w / 4 < 3 * inp.nBlocks := by omega
  have hc := axisConsistent_of_checkAll hck hx
  unfold axisConsistent at hc
  rw [Bool.and_eq_true] at hc
  have h2 := hc.2
  rw [List.all_eq_true] at h2
  have m1 : w ∈ axisWires (w / 4) := by
    unfold axisWires; simp only [List.mem_cons, List.not_mem_nil, or_false]; omega
  have h3 := h2 w m1
  unfold wireConsistent at h3
  rw [List.all_eq_true] at h3
  have h4 := h3 w' (by simpa using hmem)
  rw [Bool.and_eq_true] at h4
  exact h4.2

/-- inverting keeps the number of sections and the total count, reverses the order, and takes the
    reciprocal of every expansion -/
theorem T_C04_invert (s : Spec) :
    (invertSpec s).length = s.length ∧ count (invertSpec s) = count s ∧
    (invertSpec s).map (·.exp) = (s.map (fun d => 1 / d.exp)).reverse ∧
    (invertSpec s).map (·.ratio) = (s.map (·.ratio)).reverse := by
  refine ⟨by simp [invertSpec], ?_, by simp [invertSpec, List.map_reverse, Function.comp_def],
    by simp [invertSpec, List.map_reverse, Function.comp_def]⟩
  unfold count invertSpec
  simp [List.map_reverse, Function.comp_def, List.sum_reverse]

/-- a chopped direction: each of the four edges carries the user's chops evaluated on that edge itself -/
theorem T_C04_own (inp : Inp) (st : St) (h : run inp = .ok st) (x : Nat) (hx : x < 3 * inp.nBlocks)
    (hu : userChopped inp x = true) :
    ∀ w ∈ axisWires x, specOf st w = (inp.chops x).map (fun c => ⟨c.ratio, c.count, inp.ev c.id c.inv w⟩) := by
  intro w hw
  have hw4 : w / 4 = x := by
    unfold axisWires at hw; simp only [List.mem_cons, List.not_mem_nil, or_false] at hw; omega
  exact run_inv inp st h x hx hu w hw4

/-- propagation hands on chops, it never invents them: every chop any block direction holds at the end
    descends from a user chop with the same identity, length ratio and count -/
theorem T_C04_descends (inp : Inp) (st : St) (h : run inp = .ok st) (x : Nat) :
    ∀ c ∈ chopsOf st x, ∃ y, ∃ c0 ∈ inp.chops y, c.id = c0.id ∧ c.ratio = c0.ratio ∧ c.count = c0.count :=
  run_desc inp st h x

/-- orientation: when the block directions can be oriented coherently (`o`), every chop a direction holds at the end —
    its own or received through any chain of aligned / anti-aligned hops, in any schedule — is inverted exactly when its
    direction is oriented against the direction the user chopped (`src` of the chop's id) -/
theorem T_C04_parity (inp : Inp) (st : St) (h : run inp = .ok st) (o : Nat → Bool) (src : Nat → Nat)
    (hc : WireCoh inp o) (hs : Src inp src) :
    ∀ x, x < 3 * inp.nBlocks → ∀ c ∈ chopsOf st x, c.inv = (o x != o (src c.id)) :=
  run_par inp o src hc hs st h

/-- hence two directions of one family that are oriented alike hold their common chops with the same parity, and
    oppositely oriented ones with opposite parity -/
theorem T_C04_parity_relative (inp : Inp) (st : St) (h : run inp = .ok st) (o : Nat → Bool) (src : Nat → Nat)
    (hc : WireCoh inp o) (hs : Src inp src) (x y : Nat) (hx : x < 3 * inp.nBlocks) (hy : y < 3 * inp.nBlocks)
    (c d : Chop) (hcx : c ∈ chopsOf st x) (hdy : d ∈ chopsOf st y) (hid : c.id = d.id) :
    (c.inv == d.inv) = (o x == o y) := by
  rw [run_par inp o src hc hs st h x hx c hcx, run_par inp o src hc hs st h y hy d hdy, hid]
  cases o x <;> cases o y <;> cases o (src d.id) <;> rfl

/-- a direction is written with a single expansion only if the gradings of its four edges are equal
    (to the tolerance of `Grading.__eq__`) -/
theorem T_C04_simple (st : St) (x : Nat) (h : isSimple st x = true) :
    ∀ w ∈ axisWires x, w ≠ 4 * x → specEq (specOf st w) (specOf st (4 * x)) = true := by
  intro w hw hne
  unfold isSimple at h
  rw [List.all_eq_true] at h
  apply h
  unfold axisWires at hw
  simp only [List.mem_cons, List.not_mem_nil, or_false] at hw ⊢
  omega

/-- blockMesh corner numbering: local coordinates (x, y, z) ∈ {0,1}³ of corner `c` -/
def cornerCoord (c : Nat) : List Bool := [c % 4 == 1 || c % 4 == 2, c % 4 == 2 || c % 4 == 3, c ≥ 4]

/-- the four edges of a block direction are parallel and point the same way: in the generated `AXIS_PAIRS`
    every pair of axis `a` runs from the corner with coordinate `a` = 0 to the corner that differs from it in
    coordinate `a` only.  Hence "the first cell" of the four wires of an axis lies on the same side of the
    block, and together with `T_C04_shared` (shared edges agree, reversed when traversed the other way) a
    preserved first/last cell size sits at the geometrically same end on every edge it reaches. -/
theorem T_C04_axis_pairs_parallel :
    CBV.Gen.axisPairs.length = 3 ∧
    ∀ a ∈ List.range 3, ∀ p ∈ CBV.Gen.axisPairs.getD a [],
      (cornerCoord p.1).getD a true = false ∧ (cornerCoord p.2).getD a false = true ∧
      ∀ b ∈ List.range 3, b ≠ a → (cornerCoord p.1).getD b false = (cornerCoord p.2).getD b true := by decide

/-- `Grading.__eq__` accepts only gradings with the same number of sections -/
theorem specEq_length : ∀ (s t : Spec), specEq s t = true → s.length = t.length
  | [], [], _ => rfl
  | _ :: as, _ :: bs, h => by
      simp only [specEq, Bool.and_eq_true] at h
      simp [specEq_length as bs h.2]
  | [], _ :: _, h => by simp [specEq] at h
  | _ :: _, [], h => by simp [specEq] at h

end CBV.Prop

namespace CBV.Prop.Examples
open CBV.Prop

/-- non-vacuity of `T_C04_shared`: the two-box input runs, and its wires 5 / 16 are a shared edge -/
example : samePair (twoBoxes 5 0) 5 16 = true ∧ (5 : Nat) / 12 ≠ 16 / 12 := by
  constructor
  · decide +kernel
  · decide

/-- non-vacuity of `T_C04_parity`: the two boxes are orientable (all shared edges are traversed the same way) … -/
example : WireCoh (twoBoxes 5 0) (fun _ => false) :=
  wireCoh_of_check _ _ (by decide +kernel)

/-- … and the ids of their user chops name the chopped direction -/
example : Src (twoBoxes 5 0) (fun id => id) := by
  intro y c hc
  by_cases hy : y < 5
  · have : y = 0 ∨ y = 1 ∨ y = 2 ∨ y = 3 ∨ y = 4 := by omega
    rcases this with e | e | e | e | e <;> subst e <;> simp [twoBoxes] at hc <;> subst hc <;> exact ⟨rfl, rfl⟩
  · exfalso
    have h0 : y ≠ 0 := by omega
    have h1 : y ≠ 1 := by omega
    have h2 : y ≠ 2 := by omega
    have h3 : y ≠ 3 := by omega
    simp [twoBoxes, h0, h1, h2, h3] at hc

end CBV.Prop.Examples
