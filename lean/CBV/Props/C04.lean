/- C04 — property theorems.  Stub. -/
import CBV.Model.C04

namespace CBV.C04

end CBV.C04
