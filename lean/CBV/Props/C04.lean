/-
C04 — property theorems on M-PROP: on every edge shared by several blocks the written grading describes
the same sequence of sections from either block (identical when the blocks traverse the edge in the same
direction, reversed with reciprocal expansions when opposite), multi-section gradings included; the four
edges of a chopped direction each get the chop evaluated on *their own* length (which is what makes a
preserved first/last cell size hold on every edge); every chop a block receives by propagation descends
from a user chop with the same count and length ratio; a direction is reported `simple` only if its four
gradings are equal.  For every input, schedule and expansion oracle.
For orientable inputs (`WireCoh`: an orientation of the block directions under which two wires on the same vertex
pair run the same way iff their directions are oriented alike) the inversion *parity* a propagated chop carries equals
the orientation of the receiving direction relative to the chopped one (`T_C04_parity`), so the expansion oracle is
always consulted "as seen from the receiving edge's own direction".  Partial: that the geometric input is orientable
(no Möbius-like family) is a hypothesis — decided per generated case by the harness, which skips non-orientable
families; that the expansion oracle itself realises the preserved size at that end is checked on the written file
(`hex:preserved-size-not-realised-at-the-same-end`).
Round 6: on the composed model M-PROP ∘ M-CALC (`Model/C04Chop.lean`: counts, preserved quantities and expansions
computed by C03's calculator from the chop arguments and the wire lengths) the `preserve` clause is a theorem for the
whole family: `T_C04_c2c_wire`, `T_C04_start_wire`, `T_C04_end_wire` (what the calculator returns for the preserving
copy on any wire), `T_C04_preserved_start_family` / `_end_family` (with the parity theorem: the size sits at the
end that is the start / end in the orientation of the direction the user chopped), `T_C04_src`, `T_C04_own_computed`.
-/
import CBV.Lemmas.C01Core
import CBV.Lemmas.C04Desc
import CBV.Lemmas.C04Parity
import CBV.Lemmas.C04Chop
import CBV.Lemmas.C04Hist
import CBV.Lemmas.C04Prov
import CBV.Lemmas.C04Total
import CBV.Lemmas.C04ProvM
import CBV.Lemmas.C04DescF

namespace CBV.Prop
open CBV.C03 (Vals Q Oracle Tol calculate firstCell lastCell TOL absR)

/-- shared edges: same sections when aligned, the inverted sections otherwise (to the tolerance of
    `Grading.__eq__`) -/
theorem T_C04_shared (inp : Inp) (st : St) (h : run inp = .ok st) (w w' : Nat)
    (hw : w < 12 * inp.nBlocks) (hw' : w' < 12 * inp.nBlocks) (hb : w / 12 ≠ w' / 12)
    (hp : samePair inp w w' = true) :
    specEq (specOf st w) (if aligned inp w' w then specOf st w' else invertSpec (specOf st w')) = true := by
  obtain ⟨hcc, hck⟩ := C01_checked inp st h
  have hmem : (inp.coinc w).contains w' = true := by
    unfold coincComplete at hcc
    rw [List.all_eq_true] at hcc
    have h1 := hcc w (List.mem_range.mpr hw)
    rw [List.all_eq_true] at h1
    have h2 := h1 w' (List.mem_range.mpr hw')
    have hne : (w / 12 != w' / 12) = true := by simpa using hb
    simpa [hne, hp] using h2
  have hx : w / 4 < 3 * inp.nBlocks := by omega
  have hc := axisConsistent_of_checkAll hck hx
  unfold axisConsistent at hc
  rw [Bool.and_eq_true] at hc
  have h2 := hc.2
  rw [List.all_eq_true] at h2
  have m1 : w ∈ axisWires (w / 4) := by
    unfold axisWires; simp only [List.mem_cons, List.not_mem_nil, or_false]; omega
  have h3 := h2 w m1
  unfold wireConsistent at h3
  rw [List.all_eq_true] at h3
  have h4 := h3 w' (by simpa using hmem)
  rw [Bool.and_eq_true] at h4
  exact h4.2

/-- inverting keeps the number of sections and the total count, reverses the order, and takes the
    reciprocal of every expansion -/
theorem T_C04_invert (s : Spec) :
    (invertSpec s).length = s.length ∧ count (invertSpec s) = count s ∧
    (invertSpec s).map (·.exp) = (s.map (fun d => 1 / d.exp)).reverse ∧
    (invertSpec s).map (·.ratio) = (s.map (·.ratio)).reverse := by
  refine ⟨by simp [invertSpec], ?_, by simp [invertSpec, List.map_reverse, Function.comp_def],
    by simp [invertSpec, List.map_reverse, Function.comp_def]⟩
  unfold count invertSpec
  simp [List.map_reverse, Function.comp_def, List.sum_reverse]

/-- a chopped direction: each of the four edges carries the user's chops evaluated on that edge itself -/
theorem T_C04_own (inp : Inp) (st : St) (h : run inp = .ok st) (x : Nat) (hx : x < 3 * inp.nBlocks)
    (hu : userChopped inp x = true) :
    ∀ w ∈ axisWires x, specOf st w = (inp.chops x).map (fun c => ⟨c.ratio, c.count, inp.ev c.id c.inv w⟩) := by
  intro w hw
  have hw4 : w / 4 = x := by
    unfold axisWires at hw; simp only [List.mem_cons, List.not_mem_nil, or_false] at hw; omega
  exact run_inv inp st h x hx hu w hw4

/-- propagation hands on chops, it never invents them: every chop any block direction holds at the end
    descends from a user chop with the same identity, length ratio and count -/
theorem T_C04_descends (inp : Inp) (st : St) (h : run inp = .ok st) (x : Nat) :
    ∀ c ∈ chopsOf st x, ∃ y, ∃ c0 ∈ inp.chops y, c.id = c0.id ∧ c.ratio = c0.ratio ∧ c.count = c0.count :=
  run_desc inp st h x

/-- orientation: when the block directions can be oriented coherently (`o`), every chop a direction holds at the end —
    its own or received through any chain of aligned / anti-aligned hops, in any schedule — is inverted exactly when its
    direction is oriented against the direction the user chopped (`src` of the chop's id) -/
theorem T_C04_parity (inp : Inp) (st : St) (h : run inp = .ok st) (o : Nat → Bool) (src : Nat → Nat)
    (hc : WireCoh inp o) (hs : Src inp src) :
    ∀ x, x < 3 * inp.nBlocks → ∀ c ∈ chopsOf st x, c.inv = (o x != o (src c.id)) :=
  run_par inp o src hc hs st h

/-- hence two directions of one family that are oriented alike hold their common chops with the same parity, and
    oppositely oriented ones with opposite parity -/
theorem T_C04_parity_relative (inp : Inp) (st : St) (h : run inp = .ok st) (o : Nat → Bool) (src : Nat → Nat)
    (hc : WireCoh inp o) (hs : Src inp src) (x y : Nat) (hx : x < 3 * inp.nBlocks) (hy : y < 3 * inp.nBlocks)
    (c d : Chop) (hcx : c ∈ chopsOf st x) (hdy : d ∈ chopsOf st y) (hid : c.id = d.id) :
    (c.inv == d.inv) = (o x == o y) := by
  rw [run_par inp o src hc hs st h x hx c hcx, run_par inp o src hc hs st h y hy d hdy, hid]
  cases o x <;> cases o y <;> cases o (src d.id) <;> rfl

/-- a direction is written with a single expansion only if the gradings of its four edges are equal
    (to the tolerance of `Grading.__eq__`) -/
theorem T_C04_simple (st : St) (x : Nat) (h : isSimple st x = true) :
    ∀ w ∈ axisWires x, w ≠ 4 * x → specEq (specOf st w) (specOf st (4 * x)) = true := by
  intro w hw hne
  unfold isSimple at h
  rw [List.all_eq_true] at h
  apply h
  unfold axisWires at hw
  simp only [List.mem_cons, List.not_mem_nil, or_false] at hw ⊢
  omega

/-- blockMesh corner numbering: local coordinates (x, y, z) ∈ {0,1}³ of corner `c` -/
def cornerCoord (c : Nat) : List Bool := [c % 4 == 1 || c % 4 == 2, c % 4 == 2 || c % 4 == 3, c ≥ 4]

/-- the four edges of a block direction are parallel and point the same way: in the generated `AXIS_PAIRS`
    every pair of axis `a` runs from the corner with coordinate `a` = 0 to the corner that differs from it in
    coordinate `a` only.  Hence "the first cell" of the four wires of an axis lies on the same side of the
    block, and together with `T_C04_shared` (shared edges agree, reversed when traversed the other way) a
    preserved first/last cell size sits at the geometrically same end on every edge it reaches. -/
theorem T_C04_axis_pairs_parallel :
    CBV.Gen.axisPairs.length = 3 ∧
    ∀ a ∈ List.range 3, ∀ p ∈ CBV.Gen.axisPairs.getD a [],
      (cornerCoord p.1).getD a true = false ∧ (cornerCoord p.2).getD a false = true ∧
      ∀ b ∈ List.range 3, b ≠ a → (cornerCoord p.1).getD b false = (cornerCoord p.2).getD b true := by decide

/-- `Grading.__eq__` accepts only gradings with the same number of sections -/
theorem specEq_length : ∀ (s t : Spec), specEq s t = true → s.length = t.length
  | [], [], _ => rfl
  | _ :: as, _ :: bs, h => by
      simp only [specEq, Bool.and_eq_true] at h
      simp [specEq_length as bs h.2]
  | [], _ :: _, h => by simp [specEq] at h
  | _ :: _, [], h => by simp [specEq] at h

/-! ### round 6: the chop calculator inside the model (M-PROP ∘ M-CALC, `Model/C04Chop.lean`) -/

/-- the direction a user chop was placed on -/
def srcOf (g : Geo) (id : Nat) : Nat := ((g.uchops[id]?).map (·.x)).getD 0

/-- the chops the composed model starts from are un-inverted and their ids name the chopped direction: the hypothesis
    `Src` of `T_C04_parity` holds for every input of the composed model -/
theorem T_C04_src (g : Geo) : Src (toInp g) (srcOf g) := by
  intro y c hc
  by_cases hy : y < 3 * g.nBlocks
  · rw [toInp_chops g hy] at hc
    obtain ⟨hi, _, u, hu, hx, _⟩ := chopsOn_mem hc
    exact ⟨hi, by simp [srcOf, hu, hx]⟩
  · exfalso
    have : (toInp g).chops y = [] := by
      show Array.getD _ y [] = []
      simp [Array.getD, hy]
    rw [this] at hc
    cases hc

/-- a chopped direction of the composed model: each of its four edges carries, per user chop, the length ratio typed
    by the user, the count the calculator resolved on the average length, and the expansion the calculator yields for
    the preserving copy on that edge's own length -/
theorem T_C04_own_computed (g : Geo) (st : St) (h : run (toInp g) = .ok st) (x : Nat) (hx : x < 3 * g.nBlocks)
    (hu : userChopped (toInp g) x = true) :
    ∀ w ∈ axisWires x,
      specOf st w = (chopsOn g x).map (fun c => (⟨c.ratio, countOf g c.id, evG g c.id false w⟩ : Sec)) := by
  intro w hw
  rw [T_C04_own (toInp g) st h x hx hu w hw, toInp_chops g hx, toInp_ev]
  apply List.map_congr_left
  intro c hc
  obtain ⟨hi, hn, _⟩ := chopsOn_mem hc
  rw [hi, hn]

/-- `preserve = c2c_expansion` (the default): on every wire, of whatever length, in whichever block the chop arrives,
    the calculator returns the resolved count and the total expansion `c^(n-1)` — the reciprocal when the chop was
    inverted on the way.  No solver, no oracle: the model computes it. -/
theorem T_C04_c2c_wire (g : Geo) (id : Nat) (u : UChop) (res : Vals) (n : ℕ) (c : ℚ)
    (hu : g.uchops[id]? = some u) (hp : u.preserve = .c2c) (hr : resolved g id = .ok res)
    (hn : res.count = some n) (hn1 : 1 ≤ n) (hc : res.c2c = some c) (hc0 : c ≠ 0) (inv : Bool) (w : Nat) (v : Vals)
    (h : wireVals g id inv w = .ok v) :
    v.count = some n ∧ v.total = some (if inv then 1 / c ^ (n - 1) else c ^ (n - 1)) := by
  obtain ⟨h0, h1⟩ := held_c2c hu hp hr hn hn1 hc hc0
  have hcp := (C03.ForC04.calc_copy_preserving (ob := obOf u res) rfl hp hn hn1 hc hc0).2.2
  cases inv with
  | false =>
    rw [wireVals_eq hu h0] at h
    obtain ⟨_, _, hcalc⟩ := evalOn_ok h
    simpa using (hcp _ _ _ v).1 hcalc
  | true =>
    rw [wireVals_eq hu h1] at h
    obtain ⟨_, _, hcalc⟩ := evalOn_ok h
    simpa using (hcp _ _ _ v).2 hcalc

/-- hence the expansion M-PROP receives for such a chop does not depend on the wire -/
theorem T_C04_c2c_same_on_all_wires (g : Geo) (id : Nat) (u : UChop) (res : Vals) (n : ℕ) (c : ℚ)
    (hu : g.uchops[id]? = some u) (hp : u.preserve = .c2c) (hr : resolved g id = .ok res)
    (hn : res.count = some n) (hn1 : 1 ≤ n) (hc : res.c2c = some c) (hc0 : c ≠ 0) (inv : Bool) (w w' : Nat) (v v' : Vals)
    (h : wireVals g id inv w = .ok v) (h' : wireVals g id inv w' = .ok v') :
    evG g id inv w = evG g id inv w' := by
  have a := (T_C04_c2c_wire g id u res n c hu hp hr hn hn1 hc hc0 inv w v h).2
  have b := (T_C04_c2c_wire g id u res n c hu hp hr hn hn1 hc hc0 inv w' v' h').2
  unfold evG totalOr0
  rw [h, h']
  simp only [a, b]

/-- `preserve = start_size`: on every wire the chop reaches un-inverted the calculator keeps the resolved count and
    start size, and the ratio it returns lays the first cell out with exactly that size on *this* wire's length
    (single cells and the near-uniform branch excepted, as in C03); on every wire it reaches inverted, the size is the
    end size and the *last* cell has it.  Exact tolerance; for every solver answer that meets its specification. -/
theorem T_C04_start_wire (g : Geo) (hT : g.tol = C03.T0) (id : Nat) (u : UChop) (res : Vals) (n : ℕ) (s : ℚ)
    (hu : g.uchops[id]? = some u) (hp : u.preserve = .start) (hr : resolved g id = .ok res)
    (hn : res.count = some n) (hn1 : 1 ≤ n) (hs : res.start = some s) (w : Nat) (v : Vals) :
    (wireVals g id false w = .ok v →
      v.count = some n ∧ v.start = some s ∧ ∃ c, v.c2c = some c ∧ 0 < c ∧ v.total = some (c ^ (n - 1)) ∧
        ((n = 1 ∧ c = 1) ∨ (2 ≤ n ∧ absR (n * s - g.len w * u.ratio) / (g.len w * u.ratio) < TOL ∧ c = 1) ∨
         (2 ≤ n ∧ firstCell (g.len w * u.ratio) n c = s))) ∧
    (wireVals g id true w = .ok v →
      v.count = some n ∧ v.end_ = some s ∧ ∃ c, v.c2c = some c ∧ 0 < c ∧ v.total = some (c ^ (n - 1)) ∧
        ((absR (n * s - g.len w * u.ratio) / (g.len w * u.ratio) < TOL ∧ c = 1) ∨
         (2 ≤ n ∧ lastCell (g.len w * u.ratio) n c = s))) := by
  obtain ⟨h0, h1⟩ := held_start hu hp hr hn hn1 hs
  constructor
  · intro h
    rw [wireVals_eq hu h0, hT] at h
    obtain ⟨_, _, hcalc⟩ := evalOn_ok h
    obtain ⟨a1, _, _, _, _, c, a6, a7, a8, _, a10⟩ := C03.ForC04.calc_count_start hcalc
    obtain ⟨_, _, _, _, _, _, rfl⟩ := C03.pair_count_start hcalc
    exact ⟨a1, rfl, c, a6, a7, a8, a10⟩
  · intro h
    rw [wireVals_eq hu h1, hT] at h
    obtain ⟨_, _, hcalc⟩ := evalOn_ok h
    obtain ⟨a1, _, _, _, c, a6, a7, a8, _, a10⟩ := C03.ForC04.calc_count_end hcalc
    obtain ⟨_, _, _, _, _, _, rfl⟩ := C03.pair_count_end hcalc
    exact ⟨a1, rfl, c, a6, a7, a8, a10⟩

/-- `preserve = end_size`: the mirror image -/
theorem T_C04_end_wire (g : Geo) (hT : g.tol = C03.T0) (id : Nat) (u : UChop) (res : Vals) (n : ℕ) (e : ℚ)
    (hu : g.uchops[id]? = some u) (hp : u.preserve = .end_) (hr : resolved g id = .ok res)
    (hn : res.count = some n) (hn1 : 1 ≤ n) (he : res.end_ = some e) (w : Nat) (v : Vals) :
    (wireVals g id false w = .ok v →
      v.count = some n ∧ v.end_ = some e ∧ ∃ c, v.c2c = some c ∧ 0 < c ∧ v.total = some (c ^ (n - 1)) ∧
        ((absR (n * e - g.len w * u.ratio) / (g.len w * u.ratio) < TOL ∧ c = 1) ∨
         (2 ≤ n ∧ lastCell (g.len w * u.ratio) n c = e))) ∧
    (wireVals g id true w = .ok v →
      v.count = some n ∧ v.start = some e ∧ ∃ c, v.c2c = some c ∧ 0 < c ∧ v.total = some (c ^ (n - 1)) ∧
        ((n = 1 ∧ c = 1) ∨ (2 ≤ n ∧ absR (n * e - g.len w * u.ratio) / (g.len w * u.ratio) < TOL ∧ c = 1) ∨
         (2 ≤ n ∧ firstCell (g.len w * u.ratio) n c = e))) := by
  obtain ⟨h0, h1⟩ := held_end hu hp hr hn hn1 he
  constructor
  · intro h
    rw [wireVals_eq hu h0, hT] at h
    obtain ⟨_, _, hcalc⟩ := evalOn_ok h
    obtain ⟨a1, _, _, _, c, a6, a7, a8, _, a10⟩ := C03.ForC04.calc_count_end hcalc
    obtain ⟨_, _, _, _, _, _, rfl⟩ := C03.pair_count_end hcalc
    exact ⟨a1, rfl, c, a6, a7, a8, a10⟩
  · intro h
    rw [wireVals_eq hu h1, hT] at h
    obtain ⟨_, _, hcalc⟩ := evalOn_ok h
    obtain ⟨a1, _, _, _, _, c, a6, a7, a8, _, a10⟩ := C03.ForC04.calc_count_start hcalc
    obtain ⟨_, _, _, _, _, _, rfl⟩ := C03.pair_count_start hcalc
    exact ⟨a1, rfl, c, a6, a7, a8, a10⟩

/-- C04's `preserve` clause on the composed model, for the whole family and every schedule: when the block directions
    are oriented coherently (`o`), every chop any direction `x` holds at the end of a successful `Mesh.grade` — its own or
    received through any chain of aligned / anti-aligned neighbours — evaluated on any wire `w`, has the preserved
    start size of the user's chop at the end of `w` that is the *start in the orientation of the direction the user
    chopped*: the start of `w` when `x` is oriented like that direction, the end of `w` when it is oriented against it. -/
theorem T_C04_preserved_start_family (g : Geo) (st : St) (h : run (toInp g) = .ok st)
    (o : Nat → Bool) (hc : WireCoh (toInp g) o) (x : Nat) (hx : x < 3 * g.nBlocks) (c : Chop) (hcx : c ∈ chopsOf st x)
    (u : UChop) (res : Vals) (n : ℕ) (s : ℚ) (hu : g.uchops[c.id]? = some u) (hp : u.preserve = .start)
    (hr : resolved g c.id = .ok res) (hn : res.count = some n) (hn1 : 1 ≤ n) (hs : res.start = some s)
    (hT : g.tol = C03.T0) (w : Nat) (v : Vals) (hv : wireVals g c.id c.inv w = .ok v) :
    v.count = some n ∧ (if o x = o (srcOf g c.id) then v.start = some s else v.end_ = some s) := by
  have hpar := T_C04_parity (toInp g) st h o (srcOf g) hc (T_C04_src g) x (by simpa [toInp_nBlocks] using hx) c hcx
  have hw := T_C04_start_wire g hT c.id u res n s hu hp hr hn hn1 hs w v
  by_cases e : o x = o (srcOf g c.id)
  · have hi : c.inv = false := by rw [hpar, e]; simp
    rw [hi] at hv
    obtain ⟨a, b, _⟩ := hw.1 hv
    exact ⟨a, by simp [e, b]⟩
  · have hi : c.inv = true := by
      rw [hpar]; cases h1 : o x <;> cases h2 : o (srcOf g c.id) <;> simp_all
    rw [hi] at hv
    obtain ⟨a, b, _⟩ := hw.2 hv
    exact ⟨a, by simp [e, b]⟩

/-- the same for a preserved end size -/
theorem T_C04_preserved_end_family (g : Geo) (st : St) (h : run (toInp g) = .ok st)
    (o : Nat → Bool) (hc : WireCoh (toInp g) o) (x : Nat) (hx : x < 3 * g.nBlocks) (c : Chop) (hcx : c ∈ chopsOf st x)
    (u : UChop) (res : Vals) (n : ℕ) (e : ℚ) (hu : g.uchops[c.id]? = some u) (hp : u.preserve = .end_)
    (hr : resolved g c.id = .ok res) (hn : res.count = some n) (hn1 : 1 ≤ n) (he : res.end_ = some e)
    (hT : g.tol = C03.T0) (w : Nat) (v : Vals) (hv : wireVals g c.id c.inv w = .ok v) :
    v.count = some n ∧ (if o x = o (srcOf g c.id) then v.end_ = some e else v.start = some e) := by
  have hpar := T_C04_parity (toInp g) st h o (srcOf g) hc (T_C04_src g) x (by simpa [toInp_nBlocks] using hx) c hcx
  have hw := T_C04_end_wire g hT c.id u res n e hu hp hr hn hn1 he w v
  by_cases eo : o x = o (srcOf g c.id)
  · have hi : c.inv = false := by rw [hpar, eo]; simp
    rw [hi] at hv
    obtain ⟨a, b, _⟩ := hw.1 hv
    exact ⟨a, by simp [eo, b]⟩
  · have hi : c.inv = true := by
      rw [hpar]; cases h1 : o x <;> cases h2 : o (srcOf g c.id) <;> simp_all
    rw [hi] at hv
    obtain ⟨a, b, _⟩ := hw.2 hv
    exact ⟨a, by simp [eo, b]⟩

/-! ### round 6c: sessions on one mesh object with vertex moves (M-HIST with the chop calculator inside, `Model/C04Hist.lean`) -/

/-- `Mesh.grade()` on any memory — a completed grading on other edge lengths, the half-done state of a call that raised,
    copied chops, counts resolved for another geometry — is the run of a freshly assembled mesh on the wire lengths and the
    chops (as typed) of the moment: the counts of size-based chops, the preserved sizes and every expansion follow the
    current geometry, nothing of the previous one survives -/
theorem T_C04_grade_is_runG (g : Geo) (m : Mem) : gradeG g m = runG g := gradeG_eq_runG g m

/-- every `write` of a session of writes, vertex moves and `Block.chop` calls (in any order, from any memory) gives what a
    fresh mesh with the current edge lengths and the chops placed so far gives: outcome class and the written count of
    every block direction (extends `T_C02_session_history_free` to changing geometry and to chops resolved by the calculator) -/
theorem T_C04_session_geometry_free (g : Geo) (m : Mem) (calls : List GCall) : gsession g m calls = specG g calls :=
  gsession_is_spec calls g m

/-! ### round 6d: wire-level provenance (`Lemmas/C04Prov.lean`) -/

/-- after a successful `Mesh.grade`, for every input, schedule and expansion oracle: the specification of *every* wire is
    realised on that wire's own geometric edge — built from chop lists evaluated on the wire itself
    (`WireChopManager.grade`, `propagate_grading`) or taken, as it is or inverted, from a coincident wire
    (`copy_neighbours`) whose specification is realised in the same sense.  Gradings never travel between different
    geometric edges. -/
theorem T_C04_wire_provenance (inp : Inp) (st : St) (h : run inp = .ok st) (w : Nat) :
    Realised inp w (specOf st w) := run_prov inp st h w

/-- hence every section any wire carries is some chop evaluated on a wire of the same geometric edge (joined to it by a
    chain of coincidences), read from the other end some number of times: count and length ratio are that chop's, the
    expansion is exactly the one the oracle / calculator yields on that edge, or (odd number of reversals) its reciprocal -/
theorem T_C04_wire_sections (inp : Inp) (st : St) (h : run inp = .ok st) (w : Nat) :
    ∀ d ∈ specOf st w, ∃ (c : Chop) (w0 : Nat) (k : Nat), SameEdge inp w w0 ∧ d = flipN k (secOn inp w0 c) :=
  realised_sections (run_prov inp st h w)

/-- the expansion a chop yields does not depend on the wire (what `T_C04_c2c_same_on_all_wires` shows for chops that
    preserve the cell-to-cell ratio) -/
def Uniform (inp : Inp) : Prop := ∀ id inv w w', inp.ev id inv w = inp.ev id inv w'

/-- Exact (tolerance-free) statement for the exactly computed kinds, partial.
    Full statement wanted: on an edge shared by several blocks the first / last cell sizes, oriented, are *equal* in all
    of them.  Proved part: when expansions do not depend on the wire, every section of every wire — own or copied
    through any chain of coincident wires — is exactly what some chop yields on this very wire, read from one end or
    the other; no rounding, no `Grading.__eq__` tolerance enters by copying.  Missing: (i) that the chop is one the
    *other* block of the shared edge holds (the provenance predicate does not record which manager's list was evaluated;
    two user-chopped blocks on one edge evaluate their own chops and are compared by `check_consistency` to its tolerance
    only — there exact equality is false in general), (ii) `Uniform` for the composed model needs every evaluation to
    succeed (positive lengths), which is not proved. -/
theorem T_C04_shared_exact_partial (inp : Inp) (hu : Uniform inp) (st : St) (h : run inp = .ok st) (w : Nat) :
    ∀ d ∈ specOf st w, ∃ (c : Chop) (k : Nat), d = flipN k (secOn inp w c) := by
  intro d hd
  obtain ⟨c, w0, k, _, rfl⟩ := T_C04_wire_sections inp st h w d hd
  refine ⟨c, k, ?_⟩
  unfold secOn
  rw [hu c.id c.inv w0 w]

/-! ### round 6e: the count-based kinds discharge the wire-independence hypothesis on the composed model -/

/-- when every user chop is given by its count and a positive cell-to-cell ratio (`count`, `count + c2c_expansion`,
    default `preserve`) and every wire has positive length, every evaluation of the calculator succeeds
    (`Lemmas/C04Total.lean`: no guard rejects, nothing divides by zero, no solver is asked) and the expansion M-PROP
    receives does not depend on the wire -/
theorem T_C04_uniform_count_kinds (g : Geo) (hk : countKindsB g = true) (hl : ∀ w, 0 < g.len w) : Uniform (toInp g) := by
  intro id inv w w'
  rw [toInp_ev]
  cases hu : g.uchops[id]? with
  | none => unfold evG wireVals; rw [hu]
  | some u =>
    obtain ⟨hp, h0, h1, n, r, hn, hr, hv⟩ := countKinds_of hk hu
    obtain ⟨res, hres, hc, hcc⟩ := resolved_count_kind hl hu h0 h1 hn hr hv
    obtain ⟨v, hv1⟩ := wireVals_count_kind hl hu hp h0 h1 hn hr hv inv w
    obtain ⟨v', hv2⟩ := wireVals_count_kind hl hu hp h0 h1 hn hr hv inv w'
    exact T_C04_c2c_same_on_all_wires g id u res n r hu hp hres hc hn hcc (ne_of_gt hr) inv w w' v v' hv1 hv2

/-- `T_C04_shared_exact_partial` without its hypothesis for the count-based kinds: on the composed model, after a
    successful `Mesh.grade`, every section of every wire — own, or copied through any chain of coincident wires of any
    blocks — is exactly (no tolerance) what some chop yields on this very wire, read from one end or the other.
    (Still open, as stated at `T_C04_shared_exact_partial`: that the chop is one the other block of the edge holds.) -/
theorem T_C04_shared_exact_count_kinds (g : Geo) (hk : countKindsB g = true) (hl : ∀ w, 0 < g.len w) (st : St)
    (h : run (toInp g) = .ok st) (w : Nat) :
    ∀ d ∈ specOf st w, ∃ (c : Chop) (k : Nat), d = flipN k (secOn (toInp g) w c) :=
  T_C04_shared_exact_partial (toInp g) (T_C04_uniform_count_kinds g hk hl) st h w

/-- every user chop keeps the cell-to-cell ratio when copied, has a valid length ratio, and its axis-level calculation
    has returned a count and a positive ratio (any kind: `count + total_expansion` with its validated root,
    `start_size + c2c_expansion` with the searched count, …) -/
def C2cResolved (g : Geo) : Prop :=
  ∀ id u, g.uchops[id]? = some u → u.preserve = .c2c ∧ 0 < u.ratio ∧ u.ratio ≤ 1 ∧
    ∃ res n c, resolved g id = .ok res ∧ res.count = some n ∧ 1 ≤ n ∧ res.c2c = some c ∧ 0 < c

/-- the general form: for *every* chop kind whose copies preserve the cell-to-cell ratio, once the axis-level
    calculations have returned, all wire evaluations on positive lengths succeed and the expansion does not depend on
    the wire -/
theorem T_C04_uniform_c2c_preserving (g : Geo) (hk : C2cResolved g) (hl : ∀ w, 0 < g.len w) : Uniform (toInp g) := by
  intro id inv w w'
  rw [toInp_ev]
  cases hu : g.uchops[id]? with
  | none => unfold evG wireVals; rw [hu]
  | some u =>
    obtain ⟨hp, h0, h1, res, n, c, hres, hc, hn, hcc, hc0⟩ := hk id u hu
    obtain ⟨v, hv1⟩ := wireVals_c2c_total hl hu hp h0 h1 hres hc hn hcc hc0 inv w
    obtain ⟨v', hv2⟩ := wireVals_c2c_total hl hu hp h0 h1 hres hc hn hcc hc0 inv w'
    exact T_C04_c2c_same_on_all_wires g id u res n c hu hp hres hc hn hcc (ne_of_gt hc0) inv w w' v v' hv1 hv2

/-- and the exact sections statement for them -/
theorem T_C04_shared_exact_c2c_preserving (g : Geo) (hk : C2cResolved g) (hl : ∀ w, 0 < g.len w) (st : St)
    (h : run (toInp g) = .ok st) (w : Nat) :
    ∀ d ∈ specOf st w, ∃ (c : Chop) (k : Nat), d = flipN k (secOn (toInp g) w c) :=
  T_C04_shared_exact_partial (toInp g) (T_C04_uniform_c2c_preserving g hk hl) st h w

/-- the count-based kinds are an instance, with nothing to assume about the calculation -/
theorem T_C04_count_kinds_resolved (g : Geo) (hk : countKindsB g = true) (hl : ∀ w, 0 < g.len w) : C2cResolved g := by
  intro id u hu
  obtain ⟨hp, h0, h1, n, r, hn, hr, hv⟩ := countKinds_of hk hu
  obtain ⟨res, hres, hc, hcc⟩ := resolved_count_kind hl hu h0 h1 hn hr hv
  exact ⟨hp, h0, h1, res, n, r, hres, hc, hn, hcc, hr⟩

/-! ### round 6f: provenance that records the manager (`Lemmas/C04ProvM.lean`) -/

/-- after a successful `Mesh.grade`, for every input, schedule and oracle: every section of every wire `w` is a chop *held
    by the manager of the direction of some wire `w0`* joined to `w` by a chain of coincidences (the same geometric edge),
    evaluated on `w0` and read from the other end some number of times -/
theorem T_C04_wire_provenance_manager (inp : Inp) (st : St) (h : run inp = .ok st) (w : Nat) :
    ∀ d ∈ specOf st w, ∃ (c : Chop) (w0 : Nat) (k : Nat),
      SameEdge inp w w0 ∧ c ∈ chopsOf st (w0 / 4) ∧ d = flipN k (secOn inp w0 c) :=
  realisedIn_sections (run_provM inp st h w)

/-- counts and gradings are copied, never invented: every section of every wire — in particular of every wire of a block
    the user did not chop in that direction — has the count and the length ratio of a chop `c0` the user placed on some
    (user-chopped) direction `y`, and its expansion is what that chop yields, with some inversion parity, on a wire of the
    same geometric edge, or the reciprocal of it -/
theorem T_C04_never_invented (inp : Inp) (st : St) (h : run inp = .ok st) (w : Nat) :
    ∀ d ∈ specOf st w, ∃ y, userChopped inp y = true ∧ ∃ c0 ∈ inp.chops y,
      d.count = c0.count ∧ d.ratio = c0.ratio ∧
      ∃ (w0 : Nat) (inv : Bool) (k : Nat), SameEdge inp w w0 ∧
        d = flipN k (⟨c0.ratio, c0.count, inp.ev c0.id inv w0⟩ : Sec) := by
  intro d hd
  obtain ⟨c, w0, k, he, hc, rfl⟩ := T_C04_wire_provenance_manager inp st h w d hd
  obtain ⟨y, c0, hc0, hid, hr, hn⟩ := T_C04_descends inp st h (w0 / 4) c hc
  have hs : secOn inp w0 c = (⟨c0.ratio, c0.count, inp.ev c0.id c.inv w0⟩ : Sec) := by
    unfold secOn; rw [hid, hr, hn]
  have hu : userChopped inp y = true := by
    unfold userChopped
    cases hl : inp.chops y with
    | nil => rw [hl] at hc0; cases hc0
    | cons a l => rfl
  refine ⟨y, hu, c0, hc0, ?_, ?_, w0, c.inv, k, he, by rw [hs]⟩
  · rw [(flipN_count k _).1]; exact hn
  · rw [(flipN_count k _).2]; exact hr

/-! ### round 6g: the inversion parity of a copied grading, for coherently orientable inputs -/

/-- `T_C04_never_invented` with the parity fixed by `T_C04_parity`: when the block directions are oriented coherently
    (`o`) and the ids of the user's chops name the chopped direction (`src`), every section of every wire is a user chop `c0`
    of a user-chopped direction `y`, evaluated on a wire `w0` of the same geometric edge with the inversion parity
    `o (w0 / 4) != o y` — inverted exactly when the direction that evaluated it is oriented against the direction the user
    chopped — and then read from the other end `k` times on its way to `w` -/
theorem T_C04_never_invented_oriented (inp : Inp) (st : St) (h : run inp = .ok st) (o : Nat → Bool) (src : Nat → Nat)
    (hc : WireCoh inp o) (hs : Src inp src) (w : Nat) :
    ∀ d ∈ specOf st w, ∃ y, userChopped inp y = true ∧ ∃ c0 ∈ inp.chops y,
      d.count = c0.count ∧ d.ratio = c0.ratio ∧
      ∃ (w0 : Nat) (inv : Bool) (k : Nat), SameEdge inp w w0 ∧
        d = flipN k (⟨c0.ratio, c0.count, inp.ev c0.id inv w0⟩ : Sec) ∧
        (w0 / 4 < 3 * inp.nBlocks → inv = (o (w0 / 4) != o y)) := by
  intro d hd
  obtain ⟨c, w0, k, he, hcm, rfl⟩ := T_C04_wire_provenance_manager inp st h w d hd
  obtain ⟨y, c0, hc0, hid, hr, hn⟩ := T_C04_descends inp st h (w0 / 4) c hcm
  have hsec : secOn inp w0 c = (⟨c0.ratio, c0.count, inp.ev c0.id c.inv w0⟩ : Sec) := by
    unfold secOn; rw [hid, hr, hn]
  have hu : userChopped inp y = true := by
    unfold userChopped
    cases hl : inp.chops y with
    | nil => rw [hl] at hc0; cases hc0
    | cons a l => rfl
  refine ⟨y, hu, c0, hc0, ?_, ?_, w0, c.inv, k, he, by rw [hsec], ?_⟩
  · rw [(flipN_count k _).1]; exact hn
  · rw [(flipN_count k _).2]; exact hr
  · intro hb
    have hp := T_C04_parity inp st h o src hc hs (w0 / 4) hb c hcm
    rw [hp, hid, (hs y c0 hc0).2]

/-- gradings are copied only along the family: every section of every wire `w` is a user chop `c0` of a direction `y` from
    which the direction of a wire `w0` *on the same geometric edge as `w`* (`SameEdge`) is reached by hops between directions
    that share an edge (`AxLink`: each hop is one `Axis.copy_grading` from a neighbour) — parallel, edge-connected
    directions only.  (`SameEdge` and `AxLink` are the generating steps `shared` / `axis` of the family relation `Fam` of
    C01; the conversion into `Fam` itself needs the wires of the chains to be in range, which the provenance predicates do
    not record — left open.) -/
theorem T_C04_never_invented_family (inp : Inp) (st : St) (h : run inp = .ok st) (w : Nat) :
    ∀ d ∈ specOf st w, ∃ y, userChopped inp y = true ∧ ∃ c0 ∈ inp.chops y,
      d.count = c0.count ∧ d.ratio = c0.ratio ∧
      ∃ (w0 : Nat), SameEdge inp w w0 ∧ AxLink inp y (w0 / 4) := by
  intro d hd
  obtain ⟨c, w0, k, he, hcm, rfl⟩ := T_C04_wire_provenance_manager inp st h w d hd
  obtain ⟨y, c0, hc0, _, hr, hn, hl⟩ := run_descF inp st h (w0 / 4) c hcm
  have hu : userChopped inp y = true := by
    unfold userChopped
    cases hl' : inp.chops y with
    | nil => rw [hl'] at hc0; cases hc0
    | cons a l => rfl
  refine ⟨y, hu, c0, hc0, ?_, ?_, w0, he, hl⟩
  · rw [(flipN_count k _).1]; exact hn
  · rw [(flipN_count k _).2]; exact hr

end CBV.Prop

namespace CBV.Prop.Examples
open CBV.Prop

/-- non-vacuity of `T_C04_shared`: the two-box input runs, and its wires 5 / 16 are a shared edge -/
example : samePair (twoBoxes 5 0) 5 16 = true ∧ (5 : Nat) / 12 ≠ 16 / 12 := by
  constructor
  · decide +kernel
  · decide

/-- non-vacuity of `T_C04_parity`: the two boxes are orientable (all shared edges are traversed the same way) … -/
example : WireCoh (twoBoxes 5 0) (fun _ => false) :=
  wireCoh_of_check _ _ (by decide +kernel)

/-- … and the ids of their user chops name the chopped direction -/
example : Src (twoBoxes 5 0) (fun id => id) := by
  intro y c hc
  by_cases hy : y < 5
  · have : y = 0 ∨ y = 1 ∨ y = 2 ∨ y = 3 ∨ y = 4 := by omega
    rcases this with e | e | e | e | e <;> subst e <;> simp [twoBoxes] at hc <;> subst hc <;> exact ⟨rfl, rfl⟩
  · exfalso
    have h0 : y ≠ 0 := by omega
    have h1 : y ≠ 1 := by omega
    have h2 : y ≠ 2 := by omega
    have h3 : y ≠ 3 := by omega
    simp [twoBoxes, h0, h1, h2, h3] at hc

/-! round 6: the composed model -/

/-- two boxes side by side in x (as `twoBoxes`), block 0 chopped in all directions, block 1 in x only; the y chop of
    block 0 is `count = 4, c2c_expansion = 2, preserve = "start_size"`; edge lengths 1, except the two y edges of
    block 1 that are not shared (wires 17, 18): 8/3.  The only solver answers needed are the roots of
    `s (1 + c + c² + c³) = L` for `s = 1/15`: `c = 2` on length 1, `c = 3` on length 8/3. -/
def twoBoxesG : Geo where
  nBlocks := 2
  verts := [[0, 1, 2, 3, 4, 5, 6, 7], [1, 8, 9, 2, 5, 10, 11, 6]]
  len := fun w => if w = 17 ∨ w = 18 then 8 / 3 else 1
  uchops := [⟨0, 1, { count := some 4, c2c := some 1 }, .c2c⟩, ⟨1, 1, { count := some 4, c2c := some 2 }, .start⟩,
             ⟨2, 1, { count := some 3, c2c := some 1 }, .c2c⟩, ⟨3, 1, { count := some 2, c2c := some 1 }, .c2c⟩]
  tol := {}
  oa := fun _ => {}
  ow := fun id _ w => if id = 1 then (if w = 17 ∨ w = 18 then { c2c := some 3 } else { c2c := some 2 }) else {}

/-- the composed model runs on it: block 1 receives its y and z counts, … -/
example : (match runG twoBoxesG with
    | .ok st => (List.range 6).map (writtenCount (toInp twoBoxesG) st)
    | .error _ => []) = [4, 4, 3, 2, 4, 3] := by decide +kernel

/-- … the y direction of block 1 (axis 4) holds the user's chop 1, un-inverted; the calculator resolved it to 4 cells with
    first cell 1/15; on the long edge 17 the preserved first cell 1/15 is kept and the expansion is 27 instead of 8:
    the hypotheses of `T_C04_start_wire` / `T_C04_preserved_start_family` hold here (with `o = fun _ => false`) -/
example : (match run (toInp twoBoxesG) with
    | .ok st => (chopsOf st 4).map (fun c => (c.id, c.inv))
    | .error _ => []) = [(1, false)] ∧
    (resolved twoBoxesG 1).toOption.map (fun r => (r.count, r.start)) = some (some 4, some (1 / 15)) ∧
    (wireVals twoBoxesG 1 false 17).toOption.map (fun v => (v.start, v.total)) = some (some (1 / 15), some 27) ∧
    (wireVals twoBoxesG 1 false 16).toOption.map (fun v => (v.start, v.total)) = some (some (1 / 15), some 8) := by
  decide +kernel

example : WireCoh (toInp twoBoxesG) (fun _ => false) :=
  wireCoh_of_check _ _ (by decide +kernel)

/-- non-vacuity of `T_C04_c2c_wire`: chop 2 (`count = 3`, the default `preserve`) resolves with ratio 1 -/
example : (resolved twoBoxesG 2).toOption.map (fun r => (r.count, r.c2c)) = some (some 3, some 1) ∧
    (wireVals twoBoxesG 2 false 20).toOption.map (fun v => v.total) = some (some 1) := by decide +kernel

/-- `T_C04_own_computed`: axis 1 is user-chopped in the composed input -/
example : userChopped (toInp twoBoxesG) 1 = true := by decide +kernel

/-! round 6c: a session with vertex moves -/

/-- the two boxes with a size-based x chop on block 0 (`start_size = 1/4, c2c_expansion = 1`), all edges of length 1 -/
def twoBoxesS : Geo where
  nBlocks := 2
  verts := [[0, 1, 2, 3, 4, 5, 6, 7], [1, 8, 9, 2, 5, 10, 11, 6]]
  len := fun _ => 1
  uchops := [⟨0, 1, { start := some (1 / 4), c2c := some 1 }, .c2c⟩, ⟨1, 1, { count := some 4, c2c := some 1 }, .c2c⟩,
             ⟨2, 1, { count := some 3, c2c := some 1 }, .c2c⟩, ⟨3, 1, { count := some 2, c2c := some 1 }, .c2c⟩]
  tol := {}
  oa := fun _ => {}
  ow := fun _ _ _ => {}

/-- a session with vertex moves: written, every edge stretched to length 2, written again (the size-based chop now
    gives 9 cells instead of 5), a conflicting chop placed on block 1's y direction, written again (refused) -/
example : (gsession twoBoxesS (freshMem (toInp twoBoxesS))
      [.write (fun _ => {}) (fun _ _ _ => {}), .move (fun _ => 2), .write (fun _ => {}) (fun _ _ _ => {}),
       .chop ⟨4, 1, { count := some 7, c2c := some 1 }, .c2c⟩, .write (fun _ => {}) (fun _ _ _ => {})]).map Except.toOption
    = [some [5, 4, 3, 2, 4, 3], some [9, 4, 3, 2, 4, 3], none] := by
  rw [T_C04_session_geometry_free]
  decide +kernel
/-! round 6d -/

/-- non-vacuity of `T_C04_shared_exact_partial`: the two boxes (run succeeds, see above) have a wire-independent expansion … -/
example : Uniform (twoBoxes 5 0) := fun _ _ _ _ => rfl

/-- … and `T_C04_wire_provenance` on them: wire 16 of block 1 (shared with wire 5 of block 0) holds what block 0's y chop
    yields, one section of 5 cells -/
example : (match run (twoBoxes 5 0) with | .ok st => (specOf st 16).map (·.count) | .error _ => []) = [5] := by
  decide +kernel

/-! round 6e -/

/-- the two boxes with count-based chops only (block 0: 4 cells, 5 cells with ratio 6/5, 3 cells; block 1: 2 cells along x),
    edges of length 1 and, on block 1's unshared y edges, 8/3 -/
def twoBoxesC : Geo where
  nBlocks := 2
  verts := [[0, 1, 2, 3, 4, 5, 6, 7], [1, 8, 9, 2, 5, 10, 11, 6]]
  len := fun w => if w = 17 ∨ w = 18 then 8 / 3 else 1
  uchops := [⟨0, 1, { count := some 4, c2c := some 1 }, .c2c⟩, ⟨1, 1, { count := some 5, c2c := some (6 / 5) }, .c2c⟩,
             ⟨2, 1, { count := some 3, c2c := some 1 }, .c2c⟩, ⟨3, 1, { count := some 2, c2c := some 1 }, .c2c⟩]
  tol := {}
  oa := fun _ => {}
  ow := fun _ _ _ => {}

/-- non-vacuity of `T_C04_uniform_count_kinds` / `T_C04_shared_exact_count_kinds`: the kinds check holds, the lengths are
    positive, the run succeeds, and the long edge 17 carries the same expansion (6/5)^4 as the short shared edge 16 -/
example : countKindsB twoBoxesC = true := by decide +kernel
example : ∀ w, 0 < twoBoxesC.len w := by
  intro w; unfold twoBoxesC; simp only; split <;> norm_num
example : (match run (toInp twoBoxesC) with
    | .ok st => (specOf st 17).map (·.exp) ++ (specOf st 16).map (·.exp)
    | .error _ => []) = [1296 / 625, 1296 / 625] := by decide +kernel

/-- non-vacuity of `T_C04_uniform_c2c_preserving`: `twoBoxesC` satisfies `C2cResolved` -/
example : C2cResolved twoBoxesC :=
  T_C04_count_kinds_resolved twoBoxesC (by decide +kernel)
    (by intro w; unfold twoBoxesC; simp only; split <;> norm_num)

/-! round 6f -/

/-- `T_C04_never_invented` on the two boxes: direction 4 (block 1, y) is not chopped by the user, its wire 16 holds one
    section, with the 5 cells of the chop the user placed on direction 1 (block 0, y) -/
example : userChopped (twoBoxes 5 0) 4 = false ∧ userChopped (twoBoxes 5 0) 1 = true ∧
    ((twoBoxes 5 0).chops 1).map (·.count) = [5] := by decide +kernel

/-! round 6g: the hypotheses of `T_C04_never_invented_oriented` are those of `T_C04_parity`, shown above to hold on the two
boxes (`WireCoh (twoBoxes 5 0) (fun _ => false)`, `Src (twoBoxes 5 0) (fun id => id)`); wire 16 is in range: -/
example : (16 : Nat) / 4 < 3 * (twoBoxes 5 0).nBlocks := by decide

/-- `T_C04_never_invented_family` on the two boxes: direction 4 (block 1, y) is reached from the user-chopped direction 1
    (block 0, y) by one hop (they share wire pair 5 / 16) -/
example : AxLink (twoBoxes 5 0) 1 4 := .hop (.refl 1) (by decide +kernel)

end CBV.Prop.Examples
