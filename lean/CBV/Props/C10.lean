/-
C10 — property theorems.  Face re-indexing keeps points and edge connectivity; re-orienting puts
the closest point first; inverting flips the normal; side / edge / corner addressing hits the
blockMesh hexahedron convention (tables regenerated from the source on every run).
-/
import CBV.Model.C10
import CBV.Lemmas.C10List
import CBV.Lemmas.C10Geo
import Mathlib.Tactic.Ring
import Mathlib.Tactic.Linarith
import Mathlib.Tactic.FieldSimp
import Mathlib.Tactic.LinearCombination
import Mathlib.Algebra.Order.Field.Rat
import CBV.Gen.TC10

namespace CBV.C10

variable {α β : Type} [Inhabited α] [Inhabited β]

/-! ### invert / shift / reorient on an arbitrary face `[a,b,c,d]`, `[e0,e1,e2,e3]` -/

/-- `invert` reverses the points; every edge datum stays between the same two points (reversed). -/
theorem T_C10_invert (a b c d : α) (e0 e1 e2 e3 : β) :
    (Face.invert ⟨[a, b, c, d], [e0, e1, e2, e3]⟩ : Face α β) = ⟨[d, c, b, a], [e2, e1, e0, e3]⟩ ∧
    (Face.invert ⟨[a, b, c, d], [e0, e1, e2, e3]⟩ : Face α β).conn
      = [(e2, d, c), (e1, c, b), (e0, b, a), (e3, a, d)] ∧
    (⟨[a, b, c, d], [e0, e1, e2, e3]⟩ : Face α β).conn
      = [(e0, a, b), (e1, b, c), (e2, c, d), (e3, d, a)] := by
  refine ⟨rfl, rfl, rfl⟩

/-- every datum of the inverted face connects the same two points as before, in reverse order -/
theorem T_C10_invert_conn (a b c d : α) (e0 e1 e2 e3 : β) :
    ∀ x ∈ (Face.invert ⟨[a, b, c, d], [e0, e1, e2, e3]⟩ : Face α β).conn,
      (x.1, x.2.2, x.2.1) ∈ (⟨[a, b, c, d], [e0, e1, e2, e3]⟩ : Face α β).conn := by
  intro x hx
  rw [(T_C10_invert a b c d e0 e1 e2 e3).2.1] at hx
  rw [(T_C10_invert a b c d e0 e1 e2 e3).2.2]
  simp only [List.mem_cons, List.not_mem_nil, or_false] at hx ⊢
  rcases hx with h | h | h | h <;> subst h <;> simp

theorem T_C10_invert_involutive (a b c d : α) (e0 e1 e2 e3 : β) :
    (Face.invert (Face.invert ⟨[a, b, c, d], [e0, e1, e2, e3]⟩) : Face α β)
      = ⟨[a, b, c, d], [e0, e1, e2, e3]⟩ := rfl

theorem shiftIdx_cases (k : Int) :
    shiftIdx k = [0, 1, 2, 3] ∨ shiftIdx k = [3, 0, 1, 2] ∨ shiftIdx k = [2, 3, 0, 1] ∨
      shiftIdx k = [1, 2, 3, 0] := by
  unfold shiftIdx
  simp only [List.map]
  have h : k % 4 = 0 ∨ k % 4 = 1 ∨ k % 4 = 2 ∨ k % 4 = 3 := by omega
  rcases h with h | h | h | h
  · left; congr 1 <;> [omega; (congr 1 <;> [omega; (congr 1 <;> [omega; (congr 1; omega)])])]
  · right; left; congr 1 <;> [omega; (congr 1 <;> [omega; (congr 1 <;> [omega; (congr 1; omega)])])]
  · right; right; left; congr 1 <;> [omega; (congr 1 <;> [omega; (congr 1 <;> [omega; (congr 1; omega)])])]
  · right; right; right; congr 1 <;> [omega; (congr 1 <;> [omega; (congr 1 <;> [omega; (congr 1; omega)])])]

/-- `shift` by any integer is one of the four cyclic rotations of points *and* edges together -/
theorem T_C10_shift (a b c d : α) (e0 e1 e2 e3 : β) (k : Int) :
    let f : Face α β := ⟨[a, b, c, d], [e0, e1, e2, e3]⟩
    f.shift k = f ∨ f.shift k = ⟨[d, a, b, c], [e3, e0, e1, e2]⟩ ∨
      f.shift k = ⟨[c, d, a, b], [e2, e3, e0, e1]⟩ ∨ f.shift k = ⟨[b, c, d, a], [e1, e2, e3, e0]⟩ := by
  intro f
  rcases shiftIdx_cases k with h | h | h | h
  · left; simp [f, Face.shift, h, pick]
  · right; left; simp [f, Face.shift, h, pick]
  · right; right; left; simp [f, Face.shift, h, pick]
  · right; right; right; simp [f, Face.shift, h, pick]

/-- hence every edge datum of the shifted face connects the same two points in the same direction -/
theorem T_C10_shift_conn (a b c d : α) (e0 e1 e2 e3 : β) (k : Int) :
    ∀ x ∈ ((⟨[a, b, c, d], [e0, e1, e2, e3]⟩ : Face α β).shift k).conn,
      x ∈ (⟨[a, b, c, d], [e0, e1, e2, e3]⟩ : Face α β).conn := by
  intro x hx
  have hc : (⟨[a, b, c, d], [e0, e1, e2, e3]⟩ : Face α β).conn
      = [(e0, a, b), (e1, b, c), (e2, c, d), (e3, d, a)] := rfl
  rw [hc]
  rcases T_C10_shift a b c d e0 e1 e2 e3 k with h | h | h | h <;> rw [h] at hx
  · rw [hc] at hx; exact hx
  · have : (⟨[d, a, b, c], [e3, e0, e1, e2]⟩ : Face α β).conn
        = [(e3, d, a), (e0, a, b), (e1, b, c), (e2, c, d)] := rfl
    rw [this] at hx; simp only [List.mem_cons, List.not_mem_nil, or_false] at hx ⊢; tauto
  · have : (⟨[c, d, a, b], [e2, e3, e0, e1]⟩ : Face α β).conn
        = [(e2, c, d), (e3, d, a), (e0, a, b), (e1, b, c)] := rfl
    rw [this] at hx; simp only [List.mem_cons, List.not_mem_nil, or_false] at hx ⊢; tauto
  · have : (⟨[b, c, d, a], [e1, e2, e3, e0]⟩ : Face α β).conn
        = [(e1, b, c), (e2, c, d), (e3, d, a), (e0, a, b)] := rfl
    rw [this] at hx; simp only [List.mem_cons, List.not_mem_nil, or_false] at hx ⊢; tauto

/-- re-orienting is a shift (so points, connectivity and normal are those of a shift) … -/
theorem T_C10_reorient_is_shift (f : Face α β) (dist : α → Rat) :
    ∃ k : Int, f.reorient dist = f.shift k := ⟨_, rfl⟩

/-- … and its first point is at least as close as every point of the face. -/
theorem T_C10_reorient_first (a b c d : α) (e0 e1 e2 e3 : β) (dist : α → Rat) :
    ∃ p rest, ((⟨[a, b, c, d], [e0, e1, e2, e3]⟩ : Face α β).reorient dist).pts = p :: rest ∧
      dist p ≤ dist a ∧ dist p ≤ dist b ∧ dist p ≤ dist c ∧ dist p ≤ dist d := by
  simp only [Face.reorient, argmin, argminAux, List.map]
  split_ifs <;>
    first
      | (refine ⟨a, [b, c, d], by simp [Face.shift, shiftIdx, pick], ?_, ?_, ?_, ?_⟩ <;> linarith)
      | (refine ⟨b, [c, d, a], by simp [Face.shift, shiftIdx, pick], ?_, ?_, ?_, ?_⟩ <;> linarith)
      | (refine ⟨c, [d, a, b], by simp [Face.shift, shiftIdx, pick], ?_, ?_, ?_, ?_⟩ <;> linarith)
      | (refine ⟨d, [a, b, c], by simp [Face.shift, shiftIdx, pick], ?_, ?_, ?_, ?_⟩ <;> linarith)

/-- non-vacuity / sanity: the closest of four concrete points comes first -/
example : ((⟨["p0", "p1", "p2", "p3"], [0, 1, 2, 3]⟩ : Face String Nat).reorient
    (fun s => if s = "p3" then 1 else 5)).pts = ["p3", "p0", "p1", "p2"] := by decide

/-! ### the normal -/

theorem T_C10_normal_invert (p0 p1 p2 p3 : V3) :
    normalRaw p3 p2 p1 p0 = -(normalRaw p0 p1 p2 p3) := by
  apply V3.ext' <;> simp [normalRaw] <;> ring

theorem T_C10_normal_shift (p0 p1 p2 p3 : V3) :
    normalRaw p1 p2 p3 p0 = normalRaw p0 p1 p2 p3 := by
  apply V3.ext' <;> simp [normalRaw] <;> ring

/-! ### addressing against the blockMesh hexahedron convention -/

/-- every entry of the generated `FACE_MAP` lists exactly the 4 corners of that side of the hexahedron -/
theorem T_C10_facemap :
    CBV.Gen.faceMap.map (·.1) = ["bottom", "top", "left", "right", "front", "back"] ∧
    ∀ e ∈ CBV.Gen.faceMap, e.2.length = 4 ∧ e.2.Nodup ∧
      ∀ c ∈ List.range 8, (c ∈ e.2) = (onSide e.1 c = true) := by decide

/-- side index `i` of `SIDES_MAP` is the side that contains bottom edge `i → i+1` and the side edges `i`, `i+1` -/
theorem T_C10_side_index :
    ∀ i ∈ List.range 4, ∀ c ∈ List.range 8,
      (c ∈ ((sideCorners (CBV.Gen.sidesMap.getD i "?")).getD [])) =
        (c = i ∨ c = (i + 1) % 4 ∨ c = i + 4 ∨ c = (i + 1) % 4 + 4) := by decide

/-- the sides `get_patches_at_corner` consults for corner `c` are exactly the three sides that contain `c` -/
theorem T_C10_sides_at_corner :
    ∀ c ∈ List.range 8, (sidesAtCorner c).Nodup ∧
      ∀ e ∈ CBV.Gen.faceMap, (e.1 ∈ sidesAtCorner c) = (c ∈ e.2) := by decide

/-- hence a patch assigned to one side is reported at exactly the four corners of that side -/
theorem T_C10_patch_at_corners (name : String) :
    ∀ e ∈ CBV.Gen.faceMap, ∀ c ∈ List.range 8,
      ((Op.setPatch {} e.1 name).map (fun o => o.patchesAtCorner c)) = some (if c ∈ e.2 then [name] else []) := by
  intro e he
  simp only [CBV.Gen.faceMap, List.mem_cons, List.not_mem_nil, or_false] at he
  rcases he with h | h | h | h | h | h <;> subst h <;> intro c hc <;>
    simp only [List.mem_range] at hc <;>
    (have : c = 0 ∨ c = 1 ∨ c = 2 ∨ c = 3 ∨ c = 4 ∨ c = 5 ∨ c = 6 ∨ c = 7 := by omega) <;>
    rcases this with h | h | h | h | h | h | h | h <;> subst h <;> rfl

/-- `project_edge c1 c2` stores its datum in a slot that `Operation.edges` reads back as the edge
    {c1, c2}; pairs that are not edges of the hexahedron are rejected -/
def edgeSlotOk (c1 c2 : Nat) : Bool :=
  match slotOfEdge c1 c2 with
  | some s => isEdge c1 c2 && (s.corners == (c1, c2) || s.corners == (c2, c1))
  | none => !isEdge c1 c2

theorem T_C10_edge_slot :
    ∀ c1 ∈ List.range 8, ∀ c2 ∈ List.range 8, edgeSlotOk c1 c2 = true := by decide

/-- the 12 storage slots address 12 different edges (no two slots collide) -/
theorem T_C10_slots_injective :
    (([0, 1, 2, 3].map Slot.bottom ++ [0, 1, 2, 3].map Slot.top ++ [0, 1, 2, 3].map Slot.side).map
      (fun s => (min s.corners.1 s.corners.2, max s.corners.1 s.corners.2))).Nodup := by decide

/-- `set_patch side name` shows `name` on exactly the quad of that side, whatever the name -/
theorem T_C10_set_patch (name : String) :
    ∀ e ∈ CBV.Gen.faceMap, ((Op.setPatch {} e.1 name).map (fun o => o.view.patches)) = some [(name, e.2)] := by
  intro e he
  simp only [CBV.Gen.faceMap, List.mem_cons, List.not_mem_nil, or_false] at he
  rcases he with h | h | h | h | h | h <;> subst h <;> rfl

/-- `project_side side label` (no edges, no points) projects exactly the quad of that side -/
theorem T_C10_project_side (label : String) :
    ∀ e ∈ CBV.Gen.faceMap,
      ((Op.projectSide {} e.1 label false false).map (fun o => o.view)) =
        some { patches := [], faces := [(label, e.2)], edges := [], corners := [] } := by
  intro e he
  simp only [CBV.Gen.faceMap, List.mem_cons, List.not_mem_nil, or_false] at he
  rcases he with h | h | h | h | h | h <;> subst h <;> rfl

/-- `project_side … edges=True, points=True` projects exactly the four edges and four corners of that side -/
def projectSideFullOk (e : String × List Nat) : Bool :=
  match (Op.projectSide {} e.1 "g" true true).map (fun o => o.view) with
  | some v => v.faces == [("g", e.2)] && v.edges.length == 4 && v.corners.length == 4 &&
      v.edges.all (fun x => e.2.contains x.1 && e.2.contains x.2.1 && isEdge x.1 x.2.1 && x.2.2 == ["g"]) &&
      v.corners.all (fun x => e.2.contains x.1 && x.2 == ["g"])
  | none => false

theorem T_C10_project_side_full : ∀ e ∈ CBV.Gen.faceMap, projectSideFullOk e = true := by decide

/-- `project_corner c` touches corner `c` only -/
theorem T_C10_project_corner (label : String) :
    ∀ c ∈ List.range 8, ((Op.projectCorner {} c label).view) =
      { patches := [], faces := [], edges := [], corners := [(c, [label])] } := by
  intro c hc
  simp only [List.mem_range] at hc
  have : c = 0 ∨ c = 1 ∨ c = 2 ∨ c = 3 ∨ c = 4 ∨ c = 5 ∨ c = 6 ∨ c = 7 := by omega
  rcases this with h | h | h | h | h | h | h | h <;> subst h <;> rfl

/-- frame: assigning a patch changes nothing but that side's patch (sequences compose) -/
theorem T_C10_set_patch_frame (o o' : Op) (side name : String) (h : o.setPatch side name = some o') :
    o'.view.faces = o.view.faces ∧ o'.view.edges = o.view.edges ∧ o'.view.corners = o.view.corners := by
  unfold Op.setPatch at h
  split at h
  · cases h; exact ⟨rfl, rfl, rfl⟩
  · split at h
    · cases h; exact ⟨rfl, rfl, rfl⟩
    · cases hi : indexFromSide side <;> simp [hi] at h
      subst h; exact ⟨rfl, rfl, rfl⟩

/-- frame: projecting a corner changes nothing but the corner list -/
theorem T_C10_project_corner_frame (o : Op) (c : Nat) (l : String) :
    (o.projectCorner c l).view.patches = o.view.patches ∧ (o.projectCorner c l).view.faces = o.view.faces ∧
      (o.projectCorner c l).view.edges = o.view.edges := ⟨rfl, rfl, rfl⟩

/-! ### list form of `set_patch`, `remove_edges`, one datum on two edges -/

/-- the list form of `set_patch`: whatever the order of the names (and wherever "top" or "bottom" stand in the
    list), exactly the listed sides get the name and every other side keeps what it had -/
theorem T_C10_set_patch_list (sides : List String) (name : String) :
    ∀ (o : Op), o.sidePatches.length = 4 → (∀ s ∈ sides, s ∈ sixSides) →
      ∃ o', o.setPatchList sides name = some o' ∧ o'.sidePatches.length = 4 ∧
        ∀ s' ∈ sixSides, o'.patchOf s' = if s' ∈ sides then some name else o.patchOf s' := by
  induction sides with
  | nil => intro o hl _; exact ⟨o, rfl, hl, by simp⟩
  | cons s rest ih =>
    intro o hl hv
    obtain ⟨o1, h1⟩ := setPatch_valid o s name (hv s (by simp))
    obtain ⟨hl1, hp1⟩ := setPatch_patchOf o o1 s name hl h1
    obtain ⟨o2, h2, hl2, hp2⟩ := ih o1 hl1 (fun x hx => hv x (by simp [hx]))
    refine ⟨o2, ?_, hl2, ?_⟩
    · simp [Op.setPatchList, List.foldlM, h1] at h2 ⊢; exact h2
    · intro s' hs'
      rw [hp2 s' hs', hp1 s' hs']
      by_cases hr : s' ∈ rest <;> by_cases he : s' = s <;> simp [hr, he]

example : (Op.setPatchList {} ["top", "left"] "walls").map (fun o => (o.patchOf "top", o.patchOf "left", o.patchOf "bottom"))
    = some (some "walls", some "walls", none) := by decide

/-- `remove_edges(corners)` clears exactly the listed slots of that face: an empty list changes nothing, and the
    other face, the side edges and everything else are never touched -/
theorem T_C10_remove_edges (cs : List Nat) :
    ∀ (o : Op), (∀ i, (o.removeEdges true cs).bottomEdges.getD i [] = if i ∈ cs then [] else o.bottomEdges.getD i []) ∧
      (o.removeEdges true cs).topEdges = o.topEdges ∧ (o.removeEdges true cs).sideEdges = o.sideEdges ∧
      (∀ i, (o.removeEdges false cs).topEdges.getD i [] = if i ∈ cs then [] else o.topEdges.getD i []) ∧
      (o.removeEdges false cs).bottomEdges = o.bottomEdges ∧ (o.removeEdges false cs).sideEdges = o.sideEdges := by
  induction cs with
  | nil => intro o; simp [Op.removeEdges]
  | cons c rest ih =>
    intro o
    have hb := ih (o.setEdgeSlot (.bottom c) [])
    have ht := ih (o.setEdgeSlot (.top c) [])
    simp only [Op.removeEdges, List.foldl_cons, if_true, Bool.false_eq_true, if_false] at hb ht ⊢
    refine ⟨?_, hb.2.1, hb.2.2.1, ?_, ht.2.2.2.2.1, ht.2.2.2.2.2⟩
    · intro i
      rw [hb.1 i]
      by_cases hr : i ∈ rest
      · simp [hr]
      · by_cases he : i = c
        · subst he; simp [hr, Op.setEdgeSlot, List.getD_eq_getElem?_getD, List.getElem?_set]
          split <;> simp
        · simp [hr, he, Op.setEdgeSlot, List.getD_eq_getElem?_getD, Ne.symm he]
    · intro i
      rw [ht.2.2.2.1 i]
      by_cases hr : i ∈ rest
      · simp [hr]
      · by_cases he : i = c
        · subst he; simp [hr, Op.setEdgeSlot, List.getD_eq_getElem?_getD, List.getElem?_set]
          split <;> simp
        · simp [hr, he, Op.setEdgeSlot, List.getD_eq_getElem?_getD, Ne.symm he]

theorem T_C10_remove_edges_empty (o : Op) (b : Bool) : o.removeEdges b [] = o := rfl

/-- one datum put on two slots shows on exactly those two block edges -/
example : (((({} : Op).setEdgeSlot (.bottom 0) ["g"]).setEdgeSlot (.side 2) ["g"]).view.edges)
    = [(0, 1, ["g"]), (2, 6, ["g"])] := by decide

/-! ### Round 6: the code of the addressing path against what the source says literally (tables regenerated with
    `ast` from the current source, `cbv/tables/c10.py`) -/

/-- the loop that fills `tools.edge_map`: same insertions, same order, same `EdgeLocation` arguments -/
theorem T_C10_tie_edge_map : edgeMapInserts = CBV.Gen.c10EdgeMapInserts := by decide

/-- `EdgeLocation.start_corner` on all 64 corner pairs (value or `CornerPairError`) -/
theorem T_C10_tie_start_corner :
    CBV.Gen.c10StartCorner.length = 64 ∧
    ∀ e ∈ CBV.Gen.c10StartCorner, startCorner e.1 e.2.1 = (if e.2.2 < 0 then none else some e.2.2.toNat) := by decide

/-- the modelled `edge_map[c1][c2]` (construction loop + symmetric storage + `start_corner`) answers as the imported
    `tools.edge_map` does, for all 64 ordered pairs, including which pairs have no entry -/
theorem T_C10_edge_loc_model :
    ∀ c1 ∈ List.range 8, ∀ c2 ∈ List.range 8, edgeLoc c1 c2 = edgeLocTable c1 c2 := by decide

/-- `Frame.valid_pairs` are the sets of `constants.EDGE_PAIRS` -/
theorem T_C10_tie_valid_pairs :
    CBV.Gen.c10FrameValidPairs = CBV.Gen.edgePairs.map (fun p => [min p.1 p.2, max p.1 p.2]) := by decide

/-- `Operation.edges`: the index expressions of its three `add_beam` loops are `Slot.corners` -/
theorem T_C10_tie_op_edges :
    CBV.Gen.c10OpEdges =
      [("bottom_face.edges", (List.range 4).map (fun i => (Slot.bottom i).corners)),
       ("top_face.edges", (List.range 4).map (fun i => (Slot.top i).corners)),
       ("side_edges", (List.range 4).map (fun i => (Slot.side i).corners))] := by decide

def guardRange : List Int := [-2, -1, 0, 1, 2, 3, 4, 5, 6, 7, 8, 9, 10]
def edgeGuardRange : List Int := [-1, 0, 1, 2, 3, 4, 5, 6, 7, 8, 9]

/-- the refusing guards of `add_side_edge`, `Face.add_edge`, `Face.project_edge`, `project_corner`, `project_edge`
    evaluated from the source on -2..10 are the model's guards -/
theorem T_C10_tie_guards :
    CBV.Gen.c10Guards =
      [("Operation.add_side_edge", guardRange.map (fun c => (c, guardCorner4 c))),
       ("Face.add_edge", guardRange.map (fun c => (c, guardCorner4 c))),
       ("Face.project_edge", guardRange.map (fun c => (c, guardCorner4 c))),
       ("Operation.project_corner", guardRange.map (fun c => (c, guardCorner8 c)))] ∧
    CBV.Gen.c10ProjectEdgeGuard =
      edgeGuardRange.flatMap (fun a => edgeGuardRange.map (fun b => (a, b, guardEdge a b))) := by decide

/-- `project_corner`: which face's point list and which index, for every corner -/
theorem T_C10_tie_project_corner :
    CBV.Gen.c10ProjectCorner = (List.range 8).map (fun c =>
      (c, if (cornerTarget c).1 then "top_face.points" else "bottom_face.points", (cornerTarget c).2)) := by decide

/-- `get_patches_at_corner`: which face's patch and which two entries of `side_patches`, for every corner -/
theorem T_C10_tie_patches_at_corner :
    CBV.Gen.c10PatchesAtCorner = (List.range 8).map (fun c =>
      (c, if (cornerSources c).1 then "bottom_face.patch_name" else "top_face.patch_name",
        [(cornerSources c).2.1, (cornerSources c).2.2])) := by decide

/-- `project_side` / `Face.project`: the statements of the `if edges:` and `if points:` bodies, in order, with their
    index expressions evaluated for every `index_1`, are the steps the model executes -/
theorem T_C10_tie_project_side :
    CBV.Gen.c10ProjectSideEdges = (List.range 4).map (fun i => (sideStepsE i).map Step.descr) ∧
    CBV.Gen.c10ProjectSidePoints = (List.range 4).map (fun i => (sideStepsP i).map Step.descr) ∧
    CBV.Gen.c10ProjectSideFace = (List.range 4).map (fun i => ("side_projects", i)) ∧
    CBV.Gen.c10FaceProject =
      [("edges", "project_edge", (faceStepsE true).map (fun s => (s.descr.2).getD 0 9)),
       ("points", "points", (faceStepsP true).map (fun s => (s.descr.2).getD 0 9))] := by decide

/-- `Face.invert` / `shift` / `reorient`: the literal index tuple, the order of the in-place reversals, the effect of
    `deque(range(4)).rotate(count)` for count = -9..9, the lists that are re-indexed, the argument handed to `shift` -/
theorem T_C10_tie_face_literals :
    (Face.invert ⟨[0, 1, 2, 3], [10, 11, 12, 13]⟩ : Face Nat Nat).edges = pick [13, 12, 11, 10] CBV.Gen.c10InvertIdx ∧
    CBV.Gen.c10InvertStmts = ["points.reverse", "edges.reverse"] ∧
    (∀ e ∈ CBV.Gen.c10ShiftIdx, shiftIdx e.1 = e.2) ∧
    CBV.Gen.c10ShiftLists = ["points", "edges"] ∧
    CBV.Gen.c10ReorientShift = (List.range 4).map (fun (j : Nat) => -(j : Int)) := by decide

/-- `shiftIdx` has period 4, so the 19 counts read from the source cover every residue: the model's `shift` agrees
    with `deque.rotate` for every count, provided `deque.rotate` itself has period 4 (python semantics, validated) -/
theorem T_C10_shift_period (k : Int) : shiftIdx (k + 4) = shiftIdx k := by
  unfold shiftIdx
  apply List.map_congr_left
  intro i _
  congr 1
  omega

/-- the sides inverted by `get_normal_face` and by `Connector` (both operations) are the model's `invertedSides`;
    `get_normal_face` takes the first maximum, `get_closest_side` the first minimum; `get_face` and `Side` read
    `FACE_MAP`; `get_all_faces` goes through the sides in the order of `OrientType` -/
theorem T_C10_tie_sides_inverted :
    invertedSides = CBV.Gen.c10NormalFaceInverted ∧ (∀ l ∈ CBV.Gen.c10ConnectorInverted, l = invertedSides) ∧
    CBV.Gen.c10ConnectorInverted.length = 2 ∧
    CBV.Gen.c10NormalFacePick = "argmax" ∧ CBV.Gen.c10ClosestSidePick = "argmin" ∧
    (∀ e ∈ CBV.Gen.c10FaceTableUse, e.2 = "FACE_MAP") ∧ CBV.Gen.c10FaceTableUse.length = 2 ∧
    CBV.Gen.c10OrientOrder.Nodup ∧ (∀ s, s ∈ CBV.Gen.c10OrientOrder ↔ s ∈ sixSides) := by
  refine ⟨by decide, by decide, by decide, by decide, by decide, by decide, by decide, by decide, ?_⟩
  intro s
  simp only [CBV.Gen.c10OrientOrder, sixSides, List.mem_cons, List.not_mem_nil, or_false]
  tauto

/-- `Revolve` puts its `Angle` on side edges 0..3; `Wedge` names top and bottom and its inner / outer patch methods
    address "front" / "back" -/
theorem T_C10_tie_revolve_wedge :
    revolveSideEdges = CBV.Gen.c10RevolveSideEdges ∧ wedgePatches = CBV.Gen.c10WedgePatches ∧
    ∀ e ∈ CBV.Gen.c10WedgeNamed, wedgeNamed e.1 = some e.2 := by decide

/-! ### the tables of `util/constants.py` against each other -/

/-- coordinate `a` (0 = x, 1 = y, 2 = z) of a corner -/
def coordN (c a : Nat) : Bool := if a = 0 then (coord c).1 else if a = 1 then (coord c).2.1 else (coord c).2.2

/-- `EDGE_PAIRS` is the concatenation of `AXIS_PAIRS`; what `Frame.add_beam` accepts is exactly the set of the 12
    edges of the hexahedron (all 64 ordered pairs) -/
theorem T_C10_edge_pairs :
    CBV.Gen.edgePairs = CBV.Gen.axisPairs.flatten ∧ CBV.Gen.edgePairs.length = 12 ∧
    ∀ c1 ∈ List.range 8, ∀ c2 ∈ List.range 8, validPair c1 c2 = isEdge c1 c2 := by decide

/-- `AXIS_PAIRS[a]` are the four edges along axis `a`, each written from the corner with coordinate 0 to the corner
    with coordinate 1 (so `Frame.get_axis_beams` and the wires of an axis all run in the positive direction) -/
theorem T_C10_axis_pairs :
    CBV.Gen.axisPairs.length = 3 ∧
    ∀ a ∈ List.range 3, ((CBV.Gen.axisPairs.getD a []).length = 4 ∧ (CBV.Gen.axisPairs.getD a []).Nodup ∧
      ∀ p ∈ CBV.Gen.axisPairs.getD a [], coordN p.1 a = false ∧ coordN p.2 a = true ∧
        ∀ b ∈ List.range 3, b ≠ a → coordN p.1 b = coordN p.2 b) := by decide

/-- corners `a`, `b` are neighbours in the cyclic order of a quad -/
def cyclicAdj (q : List Nat) (a b : Nat) : Bool :=
  (List.range 4).any (fun i => (q.getD i 9 == a && q.getD ((i + 1) % 4) 9 == b) || (q.getD i 9 == b && q.getD ((i + 1) % 4) 9 == a))

/-- every edge pair is an edge (two consecutive corners) of exactly two sides of `FACE_MAP`, every side has exactly
    four of the edge pairs, and the four consecutive corner pairs of every side are edges of the hexahedron (a side
    quad never runs along a diagonal) -/
theorem T_C10_edge_two_sides :
    (∀ p ∈ CBV.Gen.edgePairs, (CBV.Gen.faceMap.filter (fun e => cyclicAdj e.2 p.1 p.2)).length = 2) ∧
    (∀ e ∈ CBV.Gen.faceMap, (CBV.Gen.edgePairs.filter (fun p => cyclicAdj e.2 p.1 p.2)).length = 4 ∧
      ∀ i ∈ List.range 4, isEdge (e.2.getD i 9) (e.2.getD ((i + 1) % 4) 9) = true) := by decide

/-- the side edges of `SIDES_MAP[i]`: `edge_map` stores the vertical edge `i → i+4` under the name of the side whose
    quad contains it and the next vertical edge -/
theorem T_C10_side_names_of_vertical_edges :
    ∀ i ∈ List.range 4, (edgeLoc i (i + 4)).map (·.1) = some (CBV.Gen.sidesMap.getD i "?") ∧
      cyclicAdj ((sideCorners (CBV.Gen.sidesMap.getD i "?")).getD []) i (i + 4) = true ∧
      cyclicAdj ((sideCorners (CBV.Gen.sidesMap.getD i "?")).getD []) ((i + 1) % 4) ((i + 1) % 4 + 4) = true := by decide

/-! ### faces by side name on the points of an operation -/

/-- `get_face(side)`: point `i` of the returned face is the operation's point number `FACE_MAP[side][i]`, for every
    operation (any eight points) and each of the six names; any other name is refused -/
theorem T_C10_get_face (o : GOp) :
    (∀ e ∈ CBV.Gen.faceMap, o.getFace e.1 = some (e.2.map (fun i => o.pts.getD i V3.zero))) ∧
    ∀ s, s ∉ sixSides → o.getFace s = none := by
  constructor
  · intro e he
    simp only [CBV.Gen.faceMap, List.mem_cons, List.not_mem_nil, or_false] at he
    rcases he with h | h | h | h | h | h <;> subst h <;> rfl
  · intro s hs
    simp only [sixSides, List.mem_cons, List.not_mem_nil, or_false, not_or] at hs
    obtain ⟨h1, h2, h3, h4, h5, h6⟩ := hs
    simp [GOp.getFace, CBV.Gen.faceMap, List.lookup, beq_false_of_ne h1, beq_false_of_ne h2, beq_false_of_ne h3,
      beq_false_of_ne h4, beq_false_of_ne h5, beq_false_of_ne h6]

/-- `get_closest_side`: the side it names is one of the faces of `get_all_faces`, and the centre of that face is at
    least as close to the point as the centre of every face (first minimum: strictly closer than every earlier one) -/
theorem T_C10_closest_side (o : GOp) (p : V3) (hne : o.allFaces ≠ []) :
    ∃ f, (o.closestSide p, f) ∈ o.allFaces ∧
      ∀ g ∈ o.allFaces, V3.norm2 (p - avg f) ≤ V3.norm2 (p - avg g.2) := by
  obtain ⟨v, hv, hall, _⟩ := argmin_spec (o.allFaces.map (fun f => V3.norm2 (p - avg f.2))) (by simpa using hne)
  rw [List.getElem?_map] at hv
  cases hf : o.allFaces[argmin (o.allFaces.map (fun f => V3.norm2 (p - avg f.2)))]? with
  | none => rw [hf] at hv; simp at hv
  | some sf =>
    rw [hf] at hv
    simp only [Option.map_some, Option.some.injEq] at hv
    refine ⟨sf.2, ?_, ?_⟩
    · have : o.closestSide p = sf.1 := by
        simp only [GOp.closestSide, List.getD_eq_getElem?_getD, hf, Option.getD_some]
      rw [this]
      exact List.mem_of_getElem? hf
    · intro g hg
      rw [hv]
      exact hall _ (List.mem_map.mpr ⟨g, hg, rfl⟩)

/-- non-vacuity: the unit cube, a point above it -/
example : (Aff.hex ⟨⟨1, 0, 0⟩, ⟨0, 1, 0⟩, ⟨0, 0, 1⟩, ⟨0, 0, 0⟩⟩).closestSide ⟨1/2, 1/3, 2⟩ = "top" := by decide +kernel

/-- `get_normal_face`: the face it returns is one of the six candidates (sides of `invertedSides` inverted) and no
    candidate has a larger cosine between its normal and the direction to the viewer -/
theorem T_C10_normal_face (o : GOp) (p : V3) (hne : o.allFaces ≠ []) :
    o.normalFace p ∈ o.normalCandidates ∧
      ∀ c ∈ o.normalCandidates,
        cosSq (p - avg c.2) (normalOf c.2) ≤ cosSq (p - avg (o.normalFace p).2) (normalOf (o.normalFace p).2) := by
  have hne' : o.normalCandidates ≠ [] := by simpa [GOp.normalCandidates] using hne
  obtain ⟨v, hv, hall, _⟩ :=
    argmax_spec (o.normalCandidates.map (fun c => cosSq (p - avg c.2) (normalOf c.2))) (by simpa using hne')
  rw [List.getElem?_map] at hv
  cases hf : o.normalCandidates[argmax (o.normalCandidates.map (fun c => cosSq (p - avg c.2) (normalOf c.2)))]? with
  | none => rw [hf] at hv; simp at hv
  | some sf =>
    rw [hf] at hv
    simp only [Option.map_some, Option.some.injEq] at hv
    have : o.normalFace p = sf := by
      simp only [GOp.normalFace, List.getD_eq_getElem?_getD, hf, Option.getD_some]
    rw [this]
    refine ⟨List.mem_of_getElem? hf, ?_⟩
    intro c hc
    rw [hv]
    exact hall _ (List.mem_map.mpr ⟨c, hc, rfl⟩)

/-- `cosSq` orders like the cosine: for vectors of lengths `s₁, s₂ > 0` (`sᵢ² = denᵢ`) the quotients `dᵢ / sᵢ` compare
    as their signed squares `sgn(dᵢ)·dᵢ² / denᵢ` do — the model's rational comparison decides what the code's
    comparison of `dot(unit_vector(·), normal)` decides in exact arithmetic -/
theorem T_C10_cos_order (d1 d2 s1 s2 : Rat) (h1 : 0 < s1) (h2 : 0 < s2) :
    (d1 / s1 ≤ d2 / s2) ↔
      ((if 0 ≤ d1 then d1 * d1 else -(d1 * d1)) / (s1 * s1) ≤ (if 0 ≤ d2 then d2 * d2 else -(d2 * d2)) / (s2 * s2)) := by
  have key : ∀ x : Rat, ∀ s : Rat, 0 < s →
      (if 0 ≤ x then x * x else -(x * x)) / (s * s) = (if 0 ≤ x / s then (x / s) * (x / s) else -((x / s) * (x / s))) := by
    intro x s hs
    have hiff : 0 ≤ x / s ↔ 0 ≤ x := by
      constructor
      · intro h; have := mul_nonneg h (le_of_lt hs); rwa [div_mul_cancel₀ _ (ne_of_gt hs)] at this
      · intro h; exact div_nonneg h (le_of_lt hs)
    by_cases hx : 0 ≤ x
    · rw [if_pos hx, if_pos (hiff.mpr hx)]; field_simp
    · rw [if_neg hx, if_neg (fun h => hx (hiff.mp h))]; field_simp
  rw [key d1 s1 h1, key d2 s2 h2]
  generalize d1 / s1 = a
  generalize d2 / s2 = b
  by_cases ha : 0 ≤ a <;> by_cases hb : 0 ≤ b <;> simp only [ha, hb, if_true, if_false]
  · constructor
    · intro h; nlinarith
    · intro h; by_contra hc; replace hc := not_le.mp hc; nlinarith
  · replace hb := not_le.mp hb
    constructor
    · intro h; linarith
    · intro h; nlinarith [mul_self_nonneg a, mul_pos_of_neg_of_neg hb hb]
  · replace ha := not_le.mp ha
    constructor
    · intro _; nlinarith [mul_self_nonneg b, mul_pos_of_neg_of_neg ha ha]
    · intro _; linarith
  · replace ha := not_le.mp ha; replace hb := not_le.mp hb
    constructor
    · intro h; nlinarith
    · intro h; by_contra hc; replace hc := not_le.mp hc; nlinarith

example : (2 : Rat) / 3 ≤ 4 / 5 ↔
    ((if (0 : Rat) ≤ 2 then (2 : Rat) * 2 else -(2 * 2)) / (3 * 3) ≤ (if (0 : Rat) ≤ 4 then (4 : Rat) * 4 else -(4 * 4)) / (5 * 5)) :=
  T_C10_cos_order 2 4 3 5 (by norm_num) (by norm_num)

/-! ### the corner order of `FACE_MAP` and the direction of the normals -/

/-- for **every affine image of the unit cube** (columns `u v w`, any origin): the face obtained by side name has its
    raw normal (the vector `Face.normal` normalises) pointing out of the block exactly when the side is not one of
    `invertedSides`, with the same magnitude for all six: `n · 8(c_face − c_block) = ±128 · det` -/
theorem T_C10_outward_affine (A : Aff) :
    ∀ e ∈ CBV.Gen.faceMap, ∃ f, A.hex.getFace e.1 = some f ∧
      outwardRaw A.hex f = (if e.1 ∈ invertedSides then -128 else 128) * A.det := by
  intro e he
  simp only [CBV.Gen.faceMap, List.mem_cons, List.not_mem_nil, or_false] at he
  rcases he with h | h | h | h | h | h <;> subst h <;>
    refine ⟨_, (T_C10_get_face A.hex).1 _ (by decide), ?_⟩ <;>
    simp [hex_pts, outwardRaw, normalOf, normalRaw, vsum, Aff.app, Aff.det, V3.dot, V3.zero, invertedSides] <;>
    ring

/-- hence on every right-handed block (`det > 0`) **all six candidates of `get_normal_face` / `Connector` have outward
    normals** — the three sides the code inverts are exactly the three whose `FACE_MAP` order is clockwise seen from
    outside; on an inside-out block (`det < 0`) all six point inwards -/
theorem T_C10_candidates_outward (A : Aff) (hdet : 0 < A.det) :
    A.hex.normalCandidates.length = 6 ∧ ∀ c ∈ A.hex.normalCandidates, 0 < outwardRaw A.hex c.2 := by
  have hall : A.hex.allFaces = CBV.Gen.c10OrientOrder.map (fun s =>
      (s, ((CBV.Gen.faceMap.lookup s).getD []).map (fun i => A.hex.pts.getD i V3.zero))) := by
    simp [GOp.allFaces, GOp.getFace, CBV.Gen.c10OrientOrder, CBV.Gen.faceMap, List.lookup]
  constructor
  · simp [GOp.normalCandidates, hall, CBV.Gen.c10OrientOrder]
  · intro c hc
    simp only [GOp.normalCandidates, hall, CBV.Gen.c10OrientOrder, List.map_cons, List.map_nil, List.mem_cons,
      List.not_mem_nil, or_false] at hc
    have hd : 0 < V3.dot (V3.cross A.u A.v) A.w := hdet
    rcases hc with h | h | h | h | h | h <;> subst h <;>
      simp [hex_pts, outwardRaw, normalOf, normalRaw, vsum, Aff.app, V3.dot, V3.zero, invertedSides, CBV.Gen.faceMap,
        List.lookup] <;>
      simp only [V3.dot, V3.cross] at hd <;>
      nlinarith [hd]

/-- non-vacuity and the combinatorial statement on the unit cube itself (`det = 1`) -/
example : 0 < (Aff.det ⟨⟨1, 0, 0⟩, ⟨0, 1, 0⟩, ⟨0, 0, 1⟩, ⟨0, 0, 0⟩⟩) := by decide +kernel
example : 0 < (Aff.det ⟨⟨2, 1/2, 0⟩, ⟨-1/3, 1, 1/5⟩, ⟨0, 1/7, 3⟩, ⟨5, -1, 2⟩⟩) := by decide +kernel

/-- `Box(p, q)`: whatever the order of the two given corners, the eight points are the affine image of the unit cube
    with the *positive* edge vectors along x, y, z from the minimum corner: corner numbering follows the blockMesh
    sketch and the block is right-handed as soon as the two corners differ in every coordinate -/
theorem T_C10_box (p q : V3) :
    let A : Aff := ⟨⟨max p.x q.x - min p.x q.x, 0, 0⟩, ⟨0, max p.y q.y - min p.y q.y, 0⟩, ⟨0, 0, max p.z q.z - min p.z q.z⟩,
      ⟨min p.x q.x, min p.y q.y, min p.z q.z⟩⟩
    boxPoints p q = A.hex.pts ∧ (p.x ≠ q.x → p.y ≠ q.y → p.z ≠ q.z → 0 < A.det) := by
  intro A
  constructor
  · rw [hex_pts]
    simp only [boxPoints, List.map_cons, List.map_nil, List.cons_append, List.nil_append, A, Aff.app]
    refine List.cons_eq_cons.mpr ⟨?_, List.cons_eq_cons.mpr ⟨?_, List.cons_eq_cons.mpr ⟨?_, List.cons_eq_cons.mpr ⟨?_,
      List.cons_eq_cons.mpr ⟨?_, List.cons_eq_cons.mpr ⟨?_, List.cons_eq_cons.mpr ⟨?_, List.cons_eq_cons.mpr ⟨?_, rfl⟩⟩⟩⟩⟩⟩⟩⟩ <;>
      apply V3.ext' <;> simp <;> ring
  · intro hx hy hz
    have h1 : 0 < max p.x q.x - min p.x q.x := by
      rcases lt_or_gt_of_ne hx with h | h
      · rw [max_eq_right (le_of_lt h), min_eq_left (le_of_lt h)]; linarith
      · rw [max_eq_left (le_of_lt h), min_eq_right (le_of_lt h)]; linarith
    have h2 : 0 < max p.y q.y - min p.y q.y := by
      rcases lt_or_gt_of_ne hy with h | h
      · rw [max_eq_right (le_of_lt h), min_eq_left (le_of_lt h)]; linarith
      · rw [max_eq_left (le_of_lt h), min_eq_right (le_of_lt h)]; linarith
    have h3 : 0 < max p.z q.z - min p.z q.z := by
      rcases lt_or_gt_of_ne hz with h | h
      · rw [max_eq_right (le_of_lt h), min_eq_left (le_of_lt h)]; linarith
      · rw [max_eq_left (le_of_lt h), min_eq_right (le_of_lt h)]; linarith
    simp only [Aff.det, A, V3.dot, V3.cross]
    have := mul_pos (mul_pos h1 h2) h3
    nlinarith [this]

example : boxPoints ⟨1, 0, 2⟩ ⟨0, 3, 0⟩ =
    [⟨0, 0, 0⟩, ⟨1, 0, 0⟩, ⟨1, 3, 0⟩, ⟨0, 3, 0⟩, ⟨0, 0, 2⟩, ⟨1, 0, 2⟩, ⟨1, 3, 2⟩, ⟨0, 3, 2⟩] := by decide +kernel

/-- `Extrude(base, vector)`: corner `i + 4` is corner `i` displaced by the vector, for every base face -/
theorem T_C10_extrude (a b c d v : V3) :
    extrudePoints [a, b, c, d] v = [a, b, c, d, a + v, b + v, c + v, d + v] := rfl

/-- `project_corner`: refused exactly outside 0..7; otherwise it touches the operation's point `corner` only
    (`bottom_face.points + top_face.points` numbering) -/
theorem T_C10_project_corner_guarded (o : Op) (c : Int) (l : String) :
    o.projectCorner? c l = if 0 ≤ c ∧ c ≤ 7 then some (o.projectCorner c.toNat l) else none := by
  unfold Op.projectCorner? guardCorner8 cornerTarget Op.projectPoint
  by_cases h : 0 ≤ c ∧ c ≤ 7
  · obtain ⟨h0, h7⟩ := h
    have hg : (decide (c < 0) || decide (c > 7)) = false := by simp; omega
    simp only [hg, Bool.false_eq_true, if_false, h0, h7, and_self, if_true]
    by_cases h3 : c.toNat > 3
    · simp only [h3, if_true]; congr 2; omega
    · simp only [h3, if_false, Bool.false_eq_true]
  · have hg : (decide (c < 0) || decide (c > 7)) = true := by simp; omega
    simp [hg, h]

/-- a `Revolve` has its data on the four vertical edges `i → i+4`; projecting one of those edges replaces the datum -/
example : ((({} : Op).revolveInit).view.others) = [(0, 4, "edges.Angle"), (1, 5, "edges.Angle"), (2, 6, "edges.Angle"), (3, 7, "edges.Angle")] := by decide
example : (((({} : Op).revolveInit).projectEdge 6 2 "g").map (fun o => (o.view.others, o.view.edges))) =
    some ([(0, 4, "edges.Angle"), (1, 5, "edges.Angle"), (3, 7, "edges.Angle")], [(2, 6, ["g"])]) := by decide

/-- a `Wedge`: its two named patches sit on the top and the bottom quad; inner / outer are front / back -/
theorem T_C10_wedge (name : String) :
    (({} : Op).wedgeInit.map (fun o => o.view.patches)) = some [("wedge_back", [0, 1, 2, 3]), ("wedge_front", [4, 5, 6, 7])] ∧
    (do let s ← wedgeNamed "set_inner_patch"; let o ← ({} : Op).setPatch s name; some o.view.patches) = some [(name, [4, 5, 1, 0])] ∧
    (do let s ← wedgeNamed "set_outer_patch"; let o ← ({} : Op).setPatch s name; some o.view.patches) = some [(name, [7, 6, 2, 3])] := by
  refine ⟨by decide, rfl, rfl⟩

/-! ### Round 6c: `Face.shift` for every count; `Revolve` / `Wedge` / scalar `Extrude` geometry -/

/-- what the *source* does for a count, read off the regenerated table at the count's residue: the entry of
    `deque(range(4)).rotate(r)` for `r = count mod 4 ∈ {0,1,2,3}` -/
def shiftIdxSource (count : Int) : List Nat :=
  ((CBV.Gen.c10ShiftIdx.find? (fun e => e.1 == count % 4)).map (·.2)).getD []

/-- **every count**: the model's `shiftIdx` is the function computed from the regenerated table, for all integers
    (interpreted tie); and the table — the source's own two statements executed for −9..9 and for counts of magnitude
    10³…10¹² of every residue — agrees with the model entry by entry, so `deque.rotate` was observed to depend on
    `count mod 4` only on all 35 of them (that it does so for the counts not executed is python's semantics) -/
theorem T_C10_shift_every_count :
    (∀ k : Int, shiftIdx k = shiftIdxSource k) ∧ (∀ e ∈ CBV.Gen.c10ShiftIdx, shiftIdx e.1 = e.2 ∧ shiftIdxSource e.1 = e.2) ∧
      CBV.Gen.c10ShiftIdx.length = 35 := by
  refine ⟨?_, by decide, by decide⟩
  intro k
  have hmod : shiftIdx k = shiftIdx (k % 4) := by
    unfold shiftIdx
    apply List.map_congr_left
    intro i _
    congr 1
    omega
  have hs : shiftIdxSource k = shiftIdxSource (k % 4) := by
    unfold shiftIdxSource
    rw [Int.emod_emod_of_dvd k (dvd_refl 4)]
  rw [hmod, hs]
  have h : k % 4 = 0 ∨ k % 4 = 1 ∨ k % 4 = 2 ∨ k % 4 = 3 := by omega
  rcases h with h | h | h | h <;> rw [h] <;> decide

/-- **`Revolve`**: the top face is the base face turned about the axis — for every base, every angle given by a point
    `(c, s)` of the unit circle, every axis with length witness `len` and every origin: the eight corners are the base
    followed by its image; the chord from each base corner to its image (the side edge the `Angle(angle, axis)` datum is put
    on) is perpendicular to the axis, both ends are at the same distance from the axis (so an arc about that axis joins
    them), and the turned face is congruent to the base (all six distances between its corners are kept) -/
theorem T_C10_revolve (a b c' d : V3) (c s : Rat) (axis : V3) (len : Rat) (o : V3)
    (h0 : len ≠ 0) (hl : len * len = V3.norm2 axis) (hcs : c * c + s * s = 1) :
    revolvePoints [a, b, c', d] c s axis len o =
      [a, b, c', d, rotateP c s axis len o a, rotateP c s axis len o b, rotateP c s axis len o c', rotateP c s axis len o d] ∧
    (∀ p : V3, V3.dot (rotateP c s axis len o p - p) axis = 0 ∧
      (let u := V3.smul (1 / len) axis
       let centre := o + V3.smul (V3.dot u (p - o)) u
       V3.norm2 (rotateP c s axis len o p - centre) = V3.norm2 (p - centre))) ∧
    (∀ p q : V3, V3.norm2 (rotateP c s axis len o p - rotateP c s axis len o q) = V3.norm2 (p - q)) := by
  have hu := unit_axis axis len h0 hl
  refine ⟨rfl, ?_, ?_⟩
  · intro p
    constructor
    · have h := rotU_chord_perp c s (V3.smul (1 / len) axis) o p hu
      rw [← rotateP_eq] at h
      simp only [V3.dot, V3.smul_x, V3.smul_y, V3.smul_z] at h ⊢
      have : (rotateP c s axis len o p - p).x * axis.x + (rotateP c s axis len o p - p).y * axis.y +
          (rotateP c s axis len o p - p).z * axis.z =
          len * ((rotateP c s axis len o p - p).x * (1 / len * axis.x) + (rotateP c s axis len o p - p).y * (1 / len * axis.y) +
            (rotateP c s axis len o p - p).z * (1 / len * axis.z)) := by
        field_simp
      rw [this, h, mul_zero]
    · exact rotU_equidistant c s (V3.smul (1 / len) axis) o p hu hcs
  · intro p q
    exact rotU_isometry c s (V3.smul (1 / len) axis) o p q hu hcs

/-- non-vacuity: a quarter turn about the axis (0, 0, 2) through (1, 0, 0) -/
example : revolvePoints [⟨2, 0, 0⟩] 0 1 ⟨0, 0, 2⟩ 2 ⟨1, 0, 0⟩ = [⟨2, 0, 0⟩, ⟨1, 1, 0⟩] ∧ (2 : Rat) * 2 = V3.norm2 ⟨0, 0, 2⟩ := by
  decide +kernel

/-- **`Wedge`**: turning the given face back by half the angle and revolving the result by the whole angle puts the bottom
    face at `−angle/2` and the top face at `+angle/2` of the given face — the wedge is symmetric about the plane of the face
    the user gave (for every face and every half angle `(c2, s2)` on the unit circle) -/
theorem T_C10_wedge_geometry (a b c' d : V3) (c2 s2 : Rat) (h : c2 * c2 + s2 * s2 = 1) :
    wedgePoints [a, b, c', d] c2 s2 =
      [a, b, c', d].map (rotateP c2 (-s2) ⟨1, 0, 0⟩ 1 V3.zero) ++ [a, b, c', d].map (rotateP c2 s2 ⟨1, 0, 0⟩ 1 V3.zero) := by
  have key : ∀ p : V3, rotateP (c2 * c2 - s2 * s2) (2 * s2 * c2) ⟨1, 0, 0⟩ 1 V3.zero (rotateP c2 (-s2) ⟨1, 0, 0⟩ 1 V3.zero p) =
      rotateP c2 s2 ⟨1, 0, 0⟩ 1 V3.zero p := by
    intro p
    apply V3.ext' <;>
      simp only [rotateP, V3.zero, V3.dot, V3.add_x, V3.add_y, V3.add_z, V3.sub_x, V3.sub_y, V3.sub_z, V3.smul_x, V3.smul_y,
        V3.smul_z, V3.cross_x, V3.cross_y, V3.cross_z]
    · ring
    · linear_combination (c2 * p.y - s2 * p.z) * h
    · linear_combination (c2 * p.z + s2 * p.y) * h
  simp only [wedgePoints, revolvePoints, List.map_cons, List.map_nil, key]

example : wedgePoints [⟨0, 1, 0⟩] (4/5) (3/5) = [⟨0, 4/5, -3/5⟩, ⟨0, 4/5, 3/5⟩] := by decide +kernel

/-- **`Extrude` by a scalar amount**: with `len` the length of the raw normal of the base, every top corner is the base
    corner displaced by a vector of length `|amount|` along the normal (same sense as `Face.normal` for a positive amount) -/
theorem T_C10_extrude_scalar (a b c' d : V3) (amount len : Rat) (h0 : 0 < len)
    (hl : len * len = V3.norm2 (normalOf [a, b, c', d])) :
    let v := V3.smul (amount / len) (normalOf [a, b, c', d])
    extrudeScalar [a, b, c', d] amount len = [a, b, c', d, a + v, b + v, c' + v, d + v] ∧
      V3.norm2 v = amount * amount ∧ V3.dot v (normalOf [a, b, c', d]) = amount * len := by
  intro v
  refine ⟨rfl, ?_, ?_⟩
  · simp only [v, V3.norm2, V3.dot, V3.smul_x, V3.smul_y, V3.smul_z] at hl ⊢
    have hne : len ≠ 0 := ne_of_gt h0
    field_simp
    linear_combination (-(amount * amount)) * hl
  · simp only [v, V3.norm2, V3.dot, V3.smul_x, V3.smul_y, V3.smul_z] at hl ⊢
    have hne : len ≠ 0 := ne_of_gt h0
    field_simp
    linear_combination (-amount) * hl

example : extrudeScalar [⟨0, 0, 0⟩, ⟨1, 0, 0⟩, ⟨1, 1, 0⟩, ⟨0, 1, 0⟩] (1/2) 32 =
    [⟨0, 0, 0⟩, ⟨1, 0, 0⟩, ⟨1, 1, 0⟩, ⟨0, 1, 0⟩, ⟨0, 0, 1/2⟩, ⟨1, 0, 1/2⟩, ⟨1, 1, 1/2⟩, ⟨0, 1, 1/2⟩] ∧
    (32 : Rat) * 32 = V3.norm2 (normalOf [⟨0, 0, 0⟩, ⟨1, 0, 0⟩, ⟨1, 1, 0⟩, ⟨0, 1, 0⟩]) := by decide +kernel

/-! ### a third surface on a projected edge -/

/-- **`Project.add_label` / `check_length`**: an edge slot that already holds two surfaces refuses every further surface
    that is not one of the two (`EdgeCreationError`: blockMesh projects an edge to one surface or to the intersection of two),
    and a slot holding at most one surface accepts any label — for every operation state, slot and label; so
    `project_edge` / `project_side(edges=True)` either leave at most two labels on every edge or are refused -/
theorem T_C10_third_label (o : Op) (s : Slot) (l : String) :
    ((o.slotLabels s).length = 2 → l ∉ o.slotLabels s → o.projEdgeSlot? s l = none) ∧
    ((o.slotLabels s).length ≤ 1 → o.projEdgeSlot? s l = some (o.projEdgeSlot s l)) := by
  constructor
  · intro h2 hn
    have := length_insertSorted_not_mem l (o.slotLabels s) hn
    simp [Op.projEdgeSlot?, labelsOk, addLabel, this, h2]
  · intro h1
    have := length_insertSorted_bounds l (o.slotLabels s)
    have hok : labelsOk (addLabel (o.slotLabels s) l) = true := by
      obtain ⟨hlo, hhi⟩ := this
      unfold labelsOk addLabel
      rw [Bool.and_eq_true]
      exact ⟨decide_eq_true (by omega), decide_eq_true (by omega)⟩
    simp [Op.projEdgeSlot?, hok]

/-- non-vacuity: two surfaces on edge 0-1, a third one is refused, a repeated one is accepted -/
example :
    let o2 := (({} : Op).projectEdge 0 1 "g1").bind (fun o => o.projectEdge 1 0 "g2")
    (o2.map (fun o => o.slotLabels (.bottom 0))) = some ["g1", "g2"] ∧ (o2.bind (fun o => o.projectEdge 0 1 "g3")) = none ∧
      ((o2.bind (fun o => o.projectEdge 0 1 "g2")).map (fun o => o.slotLabels (.bottom 0))) = some ["g1", "g2"] := by decide

/-! ### Round 6d: a revolved block is right-handed -/

/-- the unit cube has Jacobian 1 at all eight corners (the neighbour table is in right-handed order) -/
example : cornerNbrs.map (cornerJac (Aff.hex ⟨⟨1, 0, 0⟩, ⟨0, 1, 0⟩, ⟨0, 0, 1⟩, ⟨0, 0, 0⟩⟩).pts) = [1, 1, 1, 1, 1, 1, 1, 1] := by
  decide +kernel

/-- **`Revolve` about the x-axis of a face in the half-plane z = 0, y > 0** (the axisymmetric set-up of `Wedge` and of every
    revolved shape): for every sweep angle in (0, π) — any `c`, any `s > 0` — and every base quad whose corners are at positive
    distance from the axis and which is convex and counter-clockwise seen from the side the sweep goes to (planar cross product
    `A i > 0` at each corner), the Jacobian at corner `i` of the base and at corner `i + 4` of the turned face both equal
    `A i · y i · s`, hence all eight corner Jacobians are positive: the block is right-handed at every corner.
    (A base lying in any other half-plane through any other axis is the image of this one under an isometry; that transport
    is not proved.) -/
theorem T_C10_revolve_right_handed (x0 y0 x1 y1 x2 y2 x3 y3 c s : Rat)
    (hy0 : 0 < y0) (hy1 : 0 < y1) (hy2 : 0 < y2) (hy3 : 0 < y3) (hs : 0 < s)
    (hA0 : 0 < (x1 - x0) * (y3 - y0) - (y1 - y0) * (x3 - x0)) (hA1 : 0 < (x2 - x1) * (y0 - y1) - (y2 - y1) * (x0 - x1))
    (hA2 : 0 < (x3 - x2) * (y1 - y2) - (y3 - y2) * (x1 - x2)) (hA3 : 0 < (x0 - x3) * (y2 - y3) - (y0 - y3) * (x2 - x3)) :
    let pts := revolvePoints [⟨x0, y0, 0⟩, ⟨x1, y1, 0⟩, ⟨x2, y2, 0⟩, ⟨x3, y3, 0⟩] c s ⟨1, 0, 0⟩ 1 V3.zero
    cornerNbrs.map (cornerJac pts) =
      [((x1 - x0) * (y3 - y0) - (y1 - y0) * (x3 - x0)) * y0 * s, ((x2 - x1) * (y0 - y1) - (y2 - y1) * (x0 - x1)) * y1 * s,
       ((x3 - x2) * (y1 - y2) - (y3 - y2) * (x1 - x2)) * y2 * s, ((x0 - x3) * (y2 - y3) - (y0 - y3) * (x2 - x3)) * y3 * s,
       ((x1 - x0) * (y3 - y0) - (y1 - y0) * (x3 - x0)) * y0 * s, ((x2 - x1) * (y0 - y1) - (y2 - y1) * (x0 - x1)) * y1 * s,
       ((x3 - x2) * (y1 - y2) - (y3 - y2) * (x1 - x2)) * y2 * s, ((x0 - x3) * (y2 - y3) - (y0 - y3) * (x2 - x3)) * y3 * s] ∧
    ∀ j ∈ cornerNbrs.map (cornerJac pts), 0 < j := by
  intro pts
  have hJ : cornerNbrs.map (cornerJac pts) =
      [((x1 - x0) * (y3 - y0) - (y1 - y0) * (x3 - x0)) * y0 * s, ((x2 - x1) * (y0 - y1) - (y2 - y1) * (x0 - x1)) * y1 * s,
       ((x3 - x2) * (y1 - y2) - (y3 - y2) * (x1 - x2)) * y2 * s, ((x0 - x3) * (y2 - y3) - (y0 - y3) * (x2 - x3)) * y3 * s,
       ((x1 - x0) * (y3 - y0) - (y1 - y0) * (x3 - x0)) * y0 * s, ((x2 - x1) * (y0 - y1) - (y2 - y1) * (x0 - x1)) * y1 * s,
       ((x3 - x2) * (y1 - y2) - (y3 - y2) * (x1 - x2)) * y2 * s, ((x0 - x3) * (y2 - y3) - (y0 - y3) * (x2 - x3)) * y3 * s] := by
    simp only [pts, cornerNbrs, List.map_cons, List.map_nil, cornerJac, revolvePoints, List.cons_append, List.nil_append,
      List.getD_cons_zero, List.getD_cons_succ, triple, rotateP, V3.zero, V3.dot, V3.add_x, V3.add_y, V3.add_z, V3.sub_x,
      V3.sub_y, V3.sub_z, V3.smul_x, V3.smul_y, V3.smul_z, V3.cross_x, V3.cross_y, V3.cross_z]
    refine List.cons_eq_cons.mpr ⟨by ring, List.cons_eq_cons.mpr ⟨by ring, List.cons_eq_cons.mpr ⟨by ring, List.cons_eq_cons.mpr ⟨by ring,
      List.cons_eq_cons.mpr ⟨by ring, List.cons_eq_cons.mpr ⟨by ring, List.cons_eq_cons.mpr ⟨by ring, List.cons_eq_cons.mpr ⟨by ring, rfl⟩⟩⟩⟩⟩⟩⟩⟩
  refine ⟨hJ, ?_⟩
  rw [hJ]
  intro j hj
  simp only [List.mem_cons, List.not_mem_nil, or_false] at hj
  rcases hj with h | h | h | h | h | h | h | h <;> subst h <;>
    first
      | exact mul_pos (mul_pos hA0 hy0) hs
      | exact mul_pos (mul_pos hA1 hy1) hs
      | exact mul_pos (mul_pos hA2 hy2) hs
      | exact mul_pos (mul_pos hA3 hy3) hs

/-- non-vacuity: the unit square one unit away from the axis, a quarter turn -/
example : (0 : Rat) < (1 - 0) * (2 - 1) - (1 - 1) * (0 - 0) ∧
    cornerNbrs.map (cornerJac (revolvePoints [⟨0, 1, 0⟩, ⟨1, 1, 0⟩, ⟨1, 2, 0⟩, ⟨0, 2, 0⟩] 0 1 ⟨1, 0, 0⟩ 1 V3.zero)) =
      [1, 1, 2, 2, 1, 1, 2, 2] := by decide +kernel

/-! ### Round 6d: `Connector` — what the alignment measure prefers -/

/-- `FacePair.alignment` for unit normals `n1`, `n2` and the vector `v` between the two face centres, with `w = |v|` as a witness:
    `dot(v/|v|, n1)³ + dot(−v/|v|, n2)³` -/
def alignment (v n1 n2 : V3) (w : Rat) : Rat := (V3.dot v n1 / w) ^ 3 + (-(V3.dot v n2) / w) ^ 3

/-- **what `Connector` looks for**: among the candidate pairs it keeps, it takes one of maximal alignment; the alignment of any
    pair of faces is at most 2, and it is 2 exactly when both faces look squarely at each other along the line of their centres
    (`v · n1 = |v|`, `v · n2 = −|v|`: the outward normal of the first face points at the second face's centre and vice versa).
    So whenever such a pair is among the candidates — two axis-aligned boxes displaced along an axis with their facing sides'
    centres on a line parallel to that axis — only such a pair can be chosen.  (That the facing pair is among the nine closest
    pairs, and the choice when the centres are offset sideways, stay oracle-checked.) -/
theorem T_C10_alignment_max (v n1 n2 : V3) (w : Rat) (hw : 0 < w) (hww : w * w = V3.norm2 v)
    (h1 : V3.norm2 n1 = 1) (h2 : V3.norm2 n2 = 1) :
    alignment v n1 n2 w ≤ 2 ∧ (alignment v n1 n2 w = 2 ↔ V3.dot v n1 = w ∧ V3.dot v n2 = -w) := by
  have cs : ∀ n : V3, V3.norm2 n = 1 → (V3.dot v n / w) * (V3.dot v n / w) ≤ 1 := by
    intro n hn
    have hl : V3.norm2 v * V3.norm2 n - V3.dot v n * V3.dot v n = V3.norm2 (V3.cross v n) := by
      simp only [V3.norm2, V3.dot, V3.cross_x, V3.cross_y, V3.cross_z]; ring
    have hp : 0 ≤ V3.norm2 (V3.cross v n) := by
      simp only [V3.norm2, V3.dot]
      nlinarith [mul_self_nonneg (V3.cross v n).x, mul_self_nonneg (V3.cross v n).y, mul_self_nonneg (V3.cross v n).z]
    have hd : V3.dot v n * V3.dot v n ≤ w * w := by rw [hn, mul_one, ← hww] at hl; linarith
    have : V3.dot v n / w * (V3.dot v n / w) = (V3.dot v n * V3.dot v n) / (w * w) := by field_simp
    rw [this]
    have hpos : 0 < w * w := mul_pos hw hw
    have hq : V3.dot v n * V3.dot v n / (w * w) * (w * w) = V3.dot v n * V3.dot v n := div_mul_cancel₀ _ (ne_of_gt hpos)
    by_contra hc
    have hc : 1 < V3.dot v n * V3.dot v n / (w * w) := not_le.mp hc
    nlinarith
  have c1 := cube_le_one (V3.dot v n1 / w) (cs n1 h1)
  have c2 := cube_le_one (-(V3.dot v n2) / w) (by have := cs n2 h2; rw [neg_div]; nlinarith)
  refine ⟨by unfold alignment; linarith [c1.1, c2.1], ?_⟩
  constructor
  · intro h
    unfold alignment at h
    have e1 : (V3.dot v n1 / w) ^ 3 = 1 := by linarith [c1.1, c2.1]
    have e2 : (-(V3.dot v n2) / w) ^ 3 = 1 := by linarith [c1.1, c2.1]
    have x1 := c1.2 e1
    have x2 := c2.2 e2
    have hne : w ≠ 0 := ne_of_gt hw
    constructor
    · field_simp at x1; linarith
    · field_simp at x2; linarith
  · rintro ⟨ha, hb⟩
    have hne : w ≠ 0 := ne_of_gt hw
    unfold alignment
    rw [ha, hb, neg_neg, div_self hne]
    norm_num

/-- non-vacuity: two unit boxes two units apart along x: right side of the first, left side of the second -/
example : alignment ⟨2, 0, 0⟩ ⟨1, 0, 0⟩ ⟨-1, 0, 0⟩ 2 = 2 ∧ alignment ⟨2, 0, 0⟩ ⟨0, 1, 0⟩ ⟨-1, 0, 0⟩ 2 = 1 := by decide +kernel

/-! ### Round 6e: Jacobians under isometries; a revolved block in any frame -/

/-- **the corner Jacobians of a hexahedron are invariant under every rotation followed by a translation** (rotation about any unit
    axis `u` through any point `o` by any angle `(c, s)` on the unit circle, any displacement `t`): orientation-preserving
    isometries keep right-handedness, corner by corner -/
theorem T_C10_jacobian_isometry (p0 p1 p2 p3 p4 p5 p6 p7 : V3) (c s : Rat) (u o t : V3)
    (hu : V3.norm2 u = 1) (hcs : c * c + s * s = 1) :
    cornerNbrs.map (cornerJac ([p0, p1, p2, p3, p4, p5, p6, p7].map (fun p => rotU c s u o p + t))) =
      cornerNbrs.map (cornerJac [p0, p1, p2, p3, p4, p5, p6, p7]) := by
  have iso_sub : ∀ p q : V3, (rotU c s u o p + t) - (rotU c s u o q + t) = rotLin c s u (p - q) := by
    intro p q
    rw [← rotU_sub c s u o p q]
    apply V3.ext' <;> simp only [V3.add_x, V3.add_y, V3.add_z, V3.sub_x, V3.sub_y, V3.sub_z] <;> ring
  simp only [cornerNbrs, List.map_cons, List.map_nil, cornerJac, List.getD_cons_zero, List.getD_cons_succ, iso_sub,
    triple_rotLin c s u _ _ _ hu hcs]

/-- non-vacuity: the unit cube turned by the angle with (cos, sin) = (3/5, 4/5) about the axis (2/3, 1/3, 2/3) through (1, 2, 3) and
    displaced still has Jacobian 1 at every corner -/
example : V3.norm2 ⟨2/3, 1/3, 2/3⟩ = 1 ∧ ((3 : Rat) / 5 * (3 / 5) + 4 / 5 * (4 / 5) = 1) ∧
    cornerNbrs.map (cornerJac ((Aff.hex ⟨⟨1, 0, 0⟩, ⟨0, 1, 0⟩, ⟨0, 0, 1⟩, ⟨0, 0, 0⟩⟩).pts.map
      (fun p => rotU (3/5) (4/5) ⟨2/3, 1/3, 2/3⟩ ⟨1, 2, 3⟩ p + ⟨5, -1, 1/2⟩))) = [1, 1, 1, 1, 1, 1, 1, 1] := by decide +kernel

/-- **a revolved block is right-handed in every frame**: any origin `o`, any unit axis `u`, any unit radial direction `e ⟂ u`
    (the half-plane through the axis that contains the base), base corners at heights `h i` along the axis and distances
    `ρ i > 0` from it, convex and counter-clockwise in the `(h, ρ)` plane seen from the side `u × e` the sweep goes to
    (`A i > 0`), sweep angle in (0, π) (`s > 0`, any `c`): the Jacobian at corner `i` of the base and at corner `i + 4` of the
    turned face is `A i · ρ i · s`, so all eight are positive.  (`T_C10_revolve_right_handed` is the frame `u = x`, `e = y`.) -/
theorem T_C10_revolve_right_handed_frame (o u e : V3) (h0 r0 h1 r1 h2 r2 h3 r3 c s : Rat)
    (hu : V3.norm2 u = 1) (he : V3.norm2 e = 1) (hue : V3.dot u e = 0)
    (hr0 : 0 < r0) (hr1 : 0 < r1) (hr2 : 0 < r2) (hr3 : 0 < r3) (hs : 0 < s)
    (hA0 : 0 < (h1 - h0) * (r3 - r0) - (r1 - r0) * (h3 - h0)) (hA1 : 0 < (h2 - h1) * (r0 - r1) - (r2 - r1) * (h0 - h1))
    (hA2 : 0 < (h3 - h2) * (r1 - r2) - (r3 - r2) * (h1 - h2)) (hA3 : 0 < (h0 - h3) * (r2 - r3) - (r0 - r3) * (h2 - h3)) :
    let pts := revolvePoints [halfPlanePt o u e h0 r0, halfPlanePt o u e h1 r1, halfPlanePt o u e h2 r2, halfPlanePt o u e h3 r3]
      c s u 1 o
    cornerNbrs.map (cornerJac pts) =
      [((h1 - h0) * (r3 - r0) - (r1 - r0) * (h3 - h0)) * r0 * s, ((h2 - h1) * (r0 - r1) - (r2 - r1) * (h0 - h1)) * r1 * s,
       ((h3 - h2) * (r1 - r2) - (r3 - r2) * (h1 - h2)) * r2 * s, ((h0 - h3) * (r2 - r3) - (r0 - r3) * (h2 - h3)) * r3 * s,
       ((h1 - h0) * (r3 - r0) - (r1 - r0) * (h3 - h0)) * r0 * s, ((h2 - h1) * (r0 - r1) - (r2 - r1) * (h0 - h1)) * r1 * s,
       ((h3 - h2) * (r1 - r2) - (r3 - r2) * (h1 - h2)) * r2 * s, ((h0 - h3) * (r2 - r3) - (r0 - r3) * (h2 - h3)) * r3 * s] ∧
    ∀ j ∈ cornerNbrs.map (cornerJac pts), 0 < j := by
  intro pts
  have hpts : pts = [halfPlanePt o u e h0 r0, halfPlanePt o u e h1 r1, halfPlanePt o u e h2 r2, halfPlanePt o u e h3 r3,
      turnedPt o u e c s h0 r0, turnedPt o u e c s h1 r1, turnedPt o u e c s h2 r2, turnedPt o u e c s h3 r3] := by
    simp only [pts, revolvePoints, List.map_cons, List.map_nil, List.cons_append, List.nil_append,
      rotateP_halfPlanePt o u e c s _ _ hu hue]
  have hu' := hu
  have he' := he
  have hue' := hue
  simp only [V3.norm2, V3.dot] at hu' he' hue'
  have hJ : cornerNbrs.map (cornerJac pts) =
      [((h1 - h0) * (r3 - r0) - (r1 - r0) * (h3 - h0)) * r0 * s, ((h2 - h1) * (r0 - r1) - (r2 - r1) * (h0 - h1)) * r1 * s,
       ((h3 - h2) * (r1 - r2) - (r3 - r2) * (h1 - h2)) * r2 * s, ((h0 - h3) * (r2 - r3) - (r0 - r3) * (h2 - h3)) * r3 * s,
       ((h1 - h0) * (r3 - r0) - (r1 - r0) * (h3 - h0)) * r0 * s, ((h2 - h1) * (r0 - r1) - (r2 - r1) * (h0 - h1)) * r1 * s,
       ((h3 - h2) * (r1 - r2) - (r3 - r2) * (h1 - h2)) * r2 * s, ((h0 - h3) * (r2 - r3) - (r0 - r3) * (h2 - h3)) * r3 * s] := by
    rw [hpts]
    simp only [cornerNbrs, List.map_cons, List.map_nil, cornerJac, List.getD_cons_zero, List.getD_cons_succ, triple,
      halfPlanePt, turnedPt, V3.dot, V3.add_x, V3.add_y, V3.add_z, V3.sub_x, V3.sub_y, V3.sub_z, V3.smul_x, V3.smul_y,
      V3.smul_z, V3.cross_x, V3.cross_y, V3.cross_z]
    refine List.cons_eq_cons.mpr ⟨?_, List.cons_eq_cons.mpr ⟨?_, List.cons_eq_cons.mpr ⟨?_, List.cons_eq_cons.mpr ⟨?_,
      List.cons_eq_cons.mpr ⟨?_, List.cons_eq_cons.mpr ⟨?_, List.cons_eq_cons.mpr ⟨?_, List.cons_eq_cons.mpr ⟨?_, rfl⟩⟩⟩⟩⟩⟩⟩⟩
    · linear_combination ((((h1 - h0) * (r3 - r0) - (r1 - r0) * (h3 - h0)) * r0 * s) * (e.x * e.x + e.y * e.y + e.z * e.z)) * hu' + (((h1 - h0) * (r3 - r0) - (r1 - r0) * (h3 - h0)) * r0 * s) * he' - ((((h1 - h0) * (r3 - r0) - (r1 - r0) * (h3 - h0)) * r0 * s) * (u.x * e.x + u.y * e.y + u.z * e.z)) * hue'
    · linear_combination ((((h2 - h1) * (r0 - r1) - (r2 - r1) * (h0 - h1)) * r1 * s) * (e.x * e.x + e.y * e.y + e.z * e.z)) * hu' + (((h2 - h1) * (r0 - r1) - (r2 - r1) * (h0 - h1)) * r1 * s) * he' - ((((h2 - h1) * (r0 - r1) - (r2 - r1) * (h0 - h1)) * r1 * s) * (u.x * e.x + u.y * e.y + u.z * e.z)) * hue'
    · linear_combination ((((h3 - h2) * (r1 - r2) - (r3 - r2) * (h1 - h2)) * r2 * s) * (e.x * e.x + e.y * e.y + e.z * e.z)) * hu' + (((h3 - h2) * (r1 - r2) - (r3 - r2) * (h1 - h2)) * r2 * s) * he' - ((((h3 - h2) * (r1 - r2) - (r3 - r2) * (h1 - h2)) * r2 * s) * (u.x * e.x + u.y * e.y + u.z * e.z)) * hue'
    · linear_combination ((((h0 - h3) * (r2 - r3) - (r0 - r3) * (h2 - h3)) * r3 * s) * (e.x * e.x + e.y * e.y + e.z * e.z)) * hu' + (((h0 - h3) * (r2 - r3) - (r0 - r3) * (h2 - h3)) * r3 * s) * he' - ((((h0 - h3) * (r2 - r3) - (r0 - r3) * (h2 - h3)) * r3 * s) * (u.x * e.x + u.y * e.y + u.z * e.z)) * hue'
    · linear_combination ((((h1 - h0) * (r3 - r0) - (r1 - r0) * (h3 - h0)) * r0 * s) * (e.x * e.x + e.y * e.y + e.z * e.z)) * hu' + (((h1 - h0) * (r3 - r0) - (r1 - r0) * (h3 - h0)) * r0 * s) * he' - ((((h1 - h0) * (r3 - r0) - (r1 - r0) * (h3 - h0)) * r0 * s) * (u.x * e.x + u.y * e.y + u.z * e.z)) * hue'
    · linear_combination ((((h2 - h1) * (r0 - r1) - (r2 - r1) * (h0 - h1)) * r1 * s) * (e.x * e.x + e.y * e.y + e.z * e.z)) * hu' + (((h2 - h1) * (r0 - r1) - (r2 - r1) * (h0 - h1)) * r1 * s) * he' - ((((h2 - h1) * (r0 - r1) - (r2 - r1) * (h0 - h1)) * r1 * s) * (u.x * e.x + u.y * e.y + u.z * e.z)) * hue'
    · linear_combination ((((h3 - h2) * (r1 - r2) - (r3 - r2) * (h1 - h2)) * r2 * s) * (e.x * e.x + e.y * e.y + e.z * e.z)) * hu' + (((h3 - h2) * (r1 - r2) - (r3 - r2) * (h1 - h2)) * r2 * s) * he' - ((((h3 - h2) * (r1 - r2) - (r3 - r2) * (h1 - h2)) * r2 * s) * (u.x * e.x + u.y * e.y + u.z * e.z)) * hue'
    · linear_combination ((((h0 - h3) * (r2 - r3) - (r0 - r3) * (h2 - h3)) * r3 * s) * (e.x * e.x + e.y * e.y + e.z * e.z)) * hu' + (((h0 - h3) * (r2 - r3) - (r0 - r3) * (h2 - h3)) * r3 * s) * he' - ((((h0 - h3) * (r2 - r3) - (r0 - r3) * (h2 - h3)) * r3 * s) * (u.x * e.x + u.y * e.y + u.z * e.z)) * hue'
  refine ⟨hJ, ?_⟩
  rw [hJ]
  intro j hj
  simp only [List.mem_cons, List.not_mem_nil, or_false] at hj
  rcases hj with h | h | h | h | h | h | h | h <;> subst h <;>
    first
      | exact mul_pos (mul_pos hA0 hr0) hs
      | exact mul_pos (mul_pos hA1 hr1) hs
      | exact mul_pos (mul_pos hA2 hr2) hs
      | exact mul_pos (mul_pos hA3 hr3) hs

/-- non-vacuity: axis (3/5, 4/5, 0) through (1, 1, 1), radial direction (−4/5, 3/5, 0), a unit square one unit away, a quarter turn -/
example : V3.norm2 ⟨3/5, 4/5, 0⟩ = 1 ∧ V3.norm2 ⟨-4/5, 3/5, 0⟩ = 1 ∧ V3.dot ⟨3/5, 4/5, 0⟩ ⟨-4/5, 3/5, 0⟩ = 0 ∧
    cornerNbrs.map (cornerJac (revolvePoints [halfPlanePt ⟨1, 1, 1⟩ ⟨3/5, 4/5, 0⟩ ⟨-4/5, 3/5, 0⟩ 0 1,
      halfPlanePt ⟨1, 1, 1⟩ ⟨3/5, 4/5, 0⟩ ⟨-4/5, 3/5, 0⟩ 1 1, halfPlanePt ⟨1, 1, 1⟩ ⟨3/5, 4/5, 0⟩ ⟨-4/5, 3/5, 0⟩ 1 2,
      halfPlanePt ⟨1, 1, 1⟩ ⟨3/5, 4/5, 0⟩ ⟨-4/5, 3/5, 0⟩ 0 2] 0 1 ⟨3/5, 4/5, 0⟩ 1 ⟨1, 1, 1⟩)) = [1, 1, 2, 2, 1, 1, 2, 2] := by
  decide +kernel

/-! ### Round 6g: `Connector` between axis-aligned boxes displaced along a coordinate direction -/

/-- the outward unit normals of the six sides of an axis-aligned box -/
def axisNormals : List V3 := [⟨1, 0, 0⟩, ⟨-1, 0, 0⟩, ⟨0, 1, 0⟩, ⟨0, -1, 0⟩, ⟨0, 0, 1⟩, ⟨0, 0, -1⟩]

theorem axis_normal_towards (n v : V3) (w : Rat) (hn : n ∈ axisNormals) (hx : 0 < v.x) (hw : 0 < w) (hww : w * w = V3.norm2 v)
    (h : V3.dot v n = w) : n = ⟨1, 0, 0⟩ ∧ v.y = 0 ∧ v.z = 0 := by
  simp only [V3.norm2, V3.dot] at hww
  simp only [axisNormals, List.mem_cons, List.not_mem_nil, or_false] at hn
  rcases hn with rfl | rfl | rfl | rfl | rfl | rfl <;> simp only [V3.dot] at h
  · have hy : v.y * v.y = 0 := by nlinarith [mul_self_nonneg v.y, mul_self_nonneg v.z]
    have hz : v.z * v.z = 0 := by nlinarith [mul_self_nonneg v.y, mul_self_nonneg v.z]
    exact ⟨rfl, mul_self_eq_zero.mp hy, mul_self_eq_zero.mp hz⟩
  · exfalso; nlinarith
  · exfalso; nlinarith [mul_self_nonneg v.z, mul_pos hx hx]
  · exfalso; nlinarith [mul_self_nonneg v.z, mul_pos hx hx]
  · exfalso; nlinarith [mul_self_nonneg v.y, mul_pos hx hx]
  · exfalso; nlinarith [mul_self_nonneg v.y, mul_pos hx hx]

theorem axis_normal_back (n v : V3) (w : Rat) (hn : n ∈ axisNormals) (hx : 0 < v.x) (hw : 0 < w) (hww : w * w = V3.norm2 v)
    (h : V3.dot v n = -w) : n = ⟨-1, 0, 0⟩ := by
  simp only [V3.norm2, V3.dot] at hww
  simp only [axisNormals, List.mem_cons, List.not_mem_nil, or_false] at hn
  rcases hn with rfl | rfl | rfl | rfl | rfl | rfl <;> simp only [V3.dot] at h
  · exfalso; nlinarith
  · rfl
  · exfalso; nlinarith [mul_self_nonneg v.z, mul_pos hx hx]
  · exfalso; nlinarith [mul_self_nonneg v.z, mul_pos hx hx]
  · exfalso; nlinarith [mul_self_nonneg v.y, mul_pos hx hx]
  · exfalso; nlinarith [mul_self_nonneg v.y, mul_pos hx hx]

/-- **`Connector` between two axis-aligned boxes, the second one further along +x**: for *every* pair of sides (outward unit
    normals `n1`, `n2` among the six axis directions) whose centres are joined by a vector `v` with `v.x > 0` — all 36 pairs, when
    the second box lies beyond the first along x — the alignment measure reaches its maximum 2 **exactly** for the facing pair:
    `n1 = +x` (the side of box 1 towards box 2), `n2 = −x` (the side of box 2 towards box 1), with the two centres on a line
    parallel to x; every other pair of sides, and the facing pair when the centres are offset sideways, is strictly below 2. -/
theorem T_C10_connector_facing (n1 n2 v : V3) (w : Rat) (h1 : n1 ∈ axisNormals) (h2 : n2 ∈ axisNormals)
    (hx : 0 < v.x) (hw : 0 < w) (hww : w * w = V3.norm2 v) :
    (alignment v n1 n2 w = 2 ↔ n1 = ⟨1, 0, 0⟩ ∧ n2 = ⟨-1, 0, 0⟩ ∧ v.y = 0 ∧ v.z = 0) ∧
    (¬(n1 = ⟨1, 0, 0⟩ ∧ n2 = ⟨-1, 0, 0⟩ ∧ v.y = 0 ∧ v.z = 0) → alignment v n1 n2 w < 2) := by
  have hu : ∀ n ∈ axisNormals, V3.norm2 n = 1 := by
    intro n hn
    simp only [axisNormals, List.mem_cons, List.not_mem_nil, or_false] at hn
    rcases hn with rfl | rfl | rfl | rfl | rfl | rfl <;> simp [V3.norm2, V3.dot]
  have hmax := T_C10_alignment_max v n1 n2 w hw hww (hu n1 h1) (hu n2 h2)
  have hiff : alignment v n1 n2 w = 2 ↔ n1 = ⟨1, 0, 0⟩ ∧ n2 = ⟨-1, 0, 0⟩ ∧ v.y = 0 ∧ v.z = 0 := by
    rw [hmax.2]
    constructor
    · rintro ⟨ha, hb⟩
      obtain ⟨e1, hy, hz⟩ := axis_normal_towards n1 v w h1 hx hw hww ha
      exact ⟨e1, axis_normal_back n2 v w h2 hx hw hww hb, hy, hz⟩
    · rintro ⟨rfl, rfl, hy, hz⟩
      simp only [V3.norm2, V3.dot] at hww
      have hwx : w = v.x := by
        have : (w - v.x) * (w + v.x) = 0 := by rw [hy, hz] at hww; nlinarith
        rcases mul_eq_zero.mp this with h | h
        · linarith
        · exfalso; linarith
      simp only [V3.dot]
      constructor <;> linarith
  refine ⟨hiff, ?_⟩
  intro hne
  rcases lt_or_eq_of_le hmax.1 with h | h
  · exact h
  · exact absurd (hiff.mp h) hne

/-- the hypothesis `v.x > 0` of `T_C10_connector_facing` holds for **all 36 pairs of sides** of two boxes of the model
    (`boxPoints`, faces by side name through `FACE_MAP`) as soon as the second box lies beyond the first along x: the centre of
    every side of box 2 is further along +x than the centre of every side of box 1 -/
theorem T_C10_boxes_displaced (p q p' q' : V3) (hsep : max p.x q.x < min p'.x q'.x) :
    ∀ e1 ∈ CBV.Gen.faceMap, ∀ e2 ∈ CBV.Gen.faceMap, ∃ f1 f2,
      (GOp.mk (boxPoints p q)).getFace e1.1 = some f1 ∧ (GOp.mk (boxPoints p' q')).getFace e2.1 = some f2 ∧
        0 < (avg f2).x - (avg f1).x := by
  have m1 : min p.x q.x ≤ max p.x q.x := min_le_max
  have m2 : min p'.x q'.x ≤ max p'.x q'.x := min_le_max
  intro e1 he1 e2 he2
  simp only [CBV.Gen.faceMap, List.mem_cons, List.not_mem_nil, or_false] at he1 he2
  rcases he1 with rfl | rfl | rfl | rfl | rfl | rfl <;> rcases he2 with rfl | rfl | rfl | rfl | rfl | rfl <;>
    refine ⟨_, _, rfl, rfl, ?_⟩ <;>
    simp only [boxPoints, List.map_cons, List.map_nil, List.cons_append, List.nil_append, List.getD_cons_zero, List.getD_cons_succ,
      avg, vsum, List.foldr_cons, List.foldr_nil, List.length_cons, List.length_nil, V3.zero, V3.add_x, V3.smul_x] <;>
    norm_num <;>
    linarith [le_max_left p.x q.x, le_max_right p.x q.x, min_le_left p.x q.x, min_le_right p.x q.x,
      le_max_left p'.x q'.x, le_max_right p'.x q'.x, min_le_left p'.x q'.x, min_le_right p'.x q'.x]

example : max (⟨0, 0, 0⟩ : V3).x (⟨1, 1, 1⟩ : V3).x < min (⟨4, 0, 0⟩ : V3).x (⟨3, 1, 1⟩ : V3).x := by decide +kernel

/-- non-vacuity: unit boxes three units apart along x — the facing pair has alignment 2, right side against right side 0,
    and the facing normals with the centres offset sideways (v = (3, 4, 0), |v| = 5) only 2·(3/5)³ -/
example : alignment ⟨3, 0, 0⟩ ⟨1, 0, 0⟩ ⟨-1, 0, 0⟩ 3 = 2 ∧ alignment ⟨3, 0, 0⟩ ⟨1, 0, 0⟩ ⟨1, 0, 0⟩ 3 = 0 ∧
    alignment ⟨3, 4, 0⟩ ⟨1, 0, 0⟩ ⟨-1, 0, 0⟩ 5 = 54 / 125 ∧ (5 : Rat) * 5 = V3.norm2 ⟨3, 4, 0⟩ := by decide +kernel

end CBV.C10
