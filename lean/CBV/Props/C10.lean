/-
C10 — property theorems.  Face re-indexing keeps points and edge connectivity; re-orienting puts
the closest point first; inverting flips the normal; side / edge / corner addressing hits the
blockMesh hexahedron convention (tables regenerated from the source on every run).
-/
import CBV.Model.C10
import CBV.Lemmas.C10List
import Mathlib.Tactic.Ring
import Mathlib.Tactic.Linarith
import Mathlib.Algebra.Order.Field.Rat

namespace CBV.C10

variable {α β : Type} [Inhabited α] [Inhabited β]

/-! ### invert / shift / reorient on an arbitrary face `[a,b,c,d]`, `[e0,e1,e2,e3]` -/

/-- `invert` reverses the points; every edge datum stays between the same two points (reversed). -/
theorem T_C10_invert (a b c d : α) (e0 e1 e2 e3 : β) :
    (Face.invert ⟨[a, b, c, d], [e0, e1, e2, e3]⟩ : Face α β) = ⟨[d, c, b, a], [e2, e1, e0, e3]⟩ ∧
    (Face.invert ⟨[a, b, c, d], [e0, e1, e2, e3]⟩ : Face α β).conn
      = [(e2, d, c), (e1, c, b), (e0, b, a), (e3, a, d)] ∧
    (⟨[a, b, c, d], [e0, e1, e2, e3]⟩ : Face α β).conn
      = [(e0, a, b), (e1, b, c), (e2, c, d), (e3, d, a)] := by
  refine ⟨rfl, rfl, rfl⟩

/-- every datum of the inverted face connects the same two points as before, in reverse order -/
theorem T_C10_invert_conn (a b c d : α) (e0 e1 e2 e3 : β) :
    ∀ x ∈ (Face.invert ⟨[a, b, c, d], [e0, e1, e2, e3]⟩ : Face α β).conn,
      (x.1, x.2.2, x.2.1) ∈ (⟨[a, b, c, d], [e0, e1, e2, e3]⟩ : Face α β).conn := by
  intro x hx
  rw [(T_C10_invert a b c d e0 e1 e2 e3).2.1] at hx
  rw [(T_C10_invert a b c d e0 e1 e2 e3).2.2]
  simp only [List.mem_cons, List.not_mem_nil, or_false] at hx ⊢
  rcases hx with h | h | h | h <;> subst h <;> simp

theorem T_C10_invert_involutive (a b c d : α) (e0 e1 e2 e3 : β) :
    (Face.invert (Face.invert ⟨[a, b, c, d], [e0, e1, e2, e3]⟩) : Face α β)
      = ⟨[a, b, c, d], [e0, e1, e2, e3]⟩ := rfl

theorem shiftIdx_cases (k : Int) :
    shiftIdx k = [0, 1, 2, 3] ∨ shiftIdx k = [3, 0, 1, 2] ∨ shiftIdx k = [2, 3, 0, 1] ∨
      shiftIdx k = [1, 2, 3, 0] := by
  unfold shiftIdx
  simp only [List.map]
  have h : k % 4 = 0 ∨ k % 4 = 1 ∨ k % 4 = 2 ∨ k % 4 = 3 := by omega
  rcases h with h | h | h | h
  · left; congr 1 <;> [omega; (congr 1 <;> [omega; (congr 1 <;> [omega; (congr 1; omega)])])]
  · right; left; congr 1 <;> [omega; (congr 1 <;> [omega; (congr 1 <;> [omega; (congr 1; omega)])])]
  · right; right; left; congr 1 <;> [omega; (congr 1 <;> [omega; (congr 1 <;> [omega; (congr 1; omega)])])]
  · right; right; right; congr 1 <;> [omega; (congr 1 <;> [omega; (congr 1 <;> [omega; (congr 1; omega)])])]

/-- `shift` by any integer is one of the four cyclic rotations of points *and* edges together -/
theorem T_C10_shift (a b c d : α) (e0 e1 e2 e3 : β) (k : Int) :
    let f : Face α β := ⟨[a, b, c, d], [e0, e1, e2, e3]⟩
    f.shift k = f ∨ f.shift k = ⟨[d, a, b, c], [e3, e0, e1, e2]⟩ ∨
      f.shift k = ⟨[c, d, a, b], [e2, e3, e0, e1]⟩ ∨ f.shift k = ⟨[b, c, d, a], [e1, e2, e3, e0]⟩ := by
  intro f
  rcases shiftIdx_cases k with h | h | h | h
  · left; simp [f, Face.shift, h, pick]
  · right; left; simp [f, Face.shift, h, pick]
  · right; right; left; simp [f, Face.shift, h, pick]
  · right; right; right; simp [f, Face.shift, h, pick]

/-- hence every edge datum of the shifted face connects the same two points in the same direction -/
theorem T_C10_shift_conn (a b c d : α) (e0 e1 e2 e3 : β) (k : Int) :
    ∀ x ∈ ((⟨[a, b, c, d], [e0, e1, e2, e3]⟩ : Face α β).shift k).conn,
      x ∈ (⟨[a, b, c, d], [e0, e1, e2, e3]⟩ : Face α β).conn := by
  intro x hx
  have hc : (⟨[a, b, c, d], [e0, e1, e2, e3]⟩ : Face α β).conn
      = [(e0, a, b), (e1, b, c), (e2, c, d), (e3, d, a)] := rfl
  rw [hc]
  rcases T_C10_shift a b c d e0 e1 e2 e3 k with h | h | h | h <;> rw [h] at hx
  · rw [hc] at hx; exact hx
  · have : (⟨[d, a, b, c], [e3, e0, e1, e2]⟩ : Face α β).conn
        = [(e3, d, a), (e0, a, b), (e1, b, c), (e2, c, d)] := rfl
    rw [this] at hx; simp only [List.mem_cons, List.not_mem_nil, or_false] at hx ⊢; tauto
  · have : (⟨[c, d, a, b], [e2, e3, e0, e1]⟩ : Face α β).conn
        = [(e2, c, d), (e3, d, a), (e0, a, b), (e1, b, c)] := rfl
    rw [this] at hx; simp only [List.mem_cons, List.not_mem_nil, or_false] at hx ⊢; tauto
  · have : (⟨[b, c, d, a], [e1, e2, e3, e0]⟩ : Face α β).conn
        = [(e1, b, c), (e2, c, d), (e3, d, a), (e0, a, b)] := rfl
    rw [this] at hx; simp only [List.mem_cons, List.not_mem_nil, or_false] at hx ⊢; tauto

/-- re-orienting is a shift (so points, connectivity and normal are those of a shift) … -/
theorem T_C10_reorient_is_shift (f : Face α β) (dist : α → Rat) :
    ∃ k : Int, f.reorient dist = f.shift k := ⟨_, rfl⟩

/-- … and its first point is at least as close as every point of the face. -/
theorem T_C10_reorient_first (a b c d : α) (e0 e1 e2 e3 : β) (dist : α → Rat) :
    ∃ p rest, ((⟨[a, b, c, d], [e0, e1, e2, e3]⟩ : Face α β).reorient dist).pts = p :: rest ∧
      dist p ≤ dist a ∧ dist p ≤ dist b ∧ dist p ≤ dist c ∧ dist p ≤ dist d := by
  simp only [Face.reorient, argmin, argminAux, List.map]
  split_ifs <;>
    first
      | (refine ⟨a, [b, c, d], by simp [Face.shift, shiftIdx, pick], ?_, ?_, ?_, ?_⟩ <;> linarith)
      | (refine ⟨b, [c, d, a], by simp [Face.shift, shiftIdx, pick], ?_, ?_, ?_, ?_⟩ <;> linarith)
      | (refine ⟨c, [d, a, b], by simp [Face.shift, shiftIdx, pick], ?_, ?_, ?_, ?_⟩ <;> linarith)
      | (refine ⟨d, [a, b, c], by simp [Face.shift, shiftIdx, pick], ?_, ?_, ?_, ?_⟩ <;> linarith)

/-- non-vacuity / sanity: the closest of four concrete points comes first -/
example : ((⟨["p0", "p1", "p2", "p3"], [0, 1, 2, 3]⟩ : Face String Nat).reorient
    (fun s => if s = "p3" then 1 else 5)).pts = ["p3", "p0", "p1", "p2"] := by decide

/-! ### the normal -/

theorem T_C10_normal_invert (p0 p1 p2 p3 : V3) :
    normalRaw p3 p2 p1 p0 = -(normalRaw p0 p1 p2 p3) := by
  apply V3.ext' <;> simp [normalRaw] <;> ring

theorem T_C10_normal_shift (p0 p1 p2 p3 : V3) :
    normalRaw p1 p2 p3 p0 = normalRaw p0 p1 p2 p3 := by
  apply V3.ext' <;> simp [normalRaw] <;> ring

/-! ### addressing against the blockMesh hexahedron convention -/

/-- blockMesh corner numbering: corner `c` has local coordinates (x, y, z) ∈ {0,1}³ -/
def coord (c : Nat) : Bool × Bool × Bool :=
  (c % 4 == 1 || c % 4 == 2, c % 4 == 2 || c % 4 == 3, c ≥ 4)

/-- the defining coordinate of each named side -/
def onSide (side : String) (c : Nat) : Bool :=
  match side with
  | "bottom" => !(coord c).2.2
  | "top" => (coord c).2.2
  | "left" => !(coord c).1
  | "right" => (coord c).1
  | "front" => !(coord c).2.1
  | "back" => (coord c).2.1
  | _ => false

/-- every entry of the generated `FACE_MAP` lists exactly the 4 corners of that side of the hexahedron -/
theorem T_C10_facemap :
    CBV.Gen.faceMap.map (·.1) = ["bottom", "top", "left", "right", "front", "back"] ∧
    ∀ e ∈ CBV.Gen.faceMap, e.2.length = 4 ∧ e.2.Nodup ∧
      ∀ c ∈ List.range 8, (c ∈ e.2) = (onSide e.1 c = true) := by decide

/-- side index `i` of `SIDES_MAP` is the side that contains bottom edge `i → i+1` and the side edges `i`, `i+1` -/
theorem T_C10_side_index :
    ∀ i ∈ List.range 4, ∀ c ∈ List.range 8,
      (c ∈ ((sideCorners (CBV.Gen.sidesMap.getD i "?")).getD [])) =
        (c = i ∨ c = (i + 1) % 4 ∨ c = i + 4 ∨ c = (i + 1) % 4 + 4) := by decide

/-- the sides `get_patches_at_corner` consults for corner `c` are exactly the three sides that contain `c` -/
theorem T_C10_sides_at_corner :
    ∀ c ∈ List.range 8, (sidesAtCorner c).Nodup ∧
      ∀ e ∈ CBV.Gen.faceMap, (e.1 ∈ sidesAtCorner c) = (c ∈ e.2) := by decide

/-- hence a patch assigned to one side is reported at exactly the four corners of that side -/
theorem T_C10_patch_at_corners (name : String) :
    ∀ e ∈ CBV.Gen.faceMap, ∀ c ∈ List.range 8,
      ((Op.setPatch {} e.1 name).map (fun o => o.patchesAtCorner c)) = some (if c ∈ e.2 then [name] else []) := by
  intro e he
  simp only [CBV.Gen.faceMap, List.mem_cons, List.not_mem_nil, or_false] at he
  rcases he with h | h | h | h | h | h <;> subst h <;> intro c hc <;>
    simp only [List.mem_range] at hc <;>
    (have : c = 0 ∨ c = 1 ∨ c = 2 ∨ c = 3 ∨ c = 4 ∨ c = 5 ∨ c = 6 ∨ c = 7 := by omega) <;>
    rcases this with h | h | h | h | h | h | h | h <;> subst h <;> rfl

/-- two corners are joined by an edge of the hexahedron iff they differ in exactly one coordinate -/
def isEdge (c1 c2 : Nat) : Bool :=
  let a := coord c1; let b := coord c2
  ((if a.1 != b.1 then 1 else 0) + (if a.2.1 != b.2.1 then 1 else 0) + (if a.2.2 != b.2.2 then 1 else 0)) == 1

/-- `project_edge c1 c2` stores its datum in a slot that `Operation.edges` reads back as the edge
    {c1, c2}; pairs that are not edges of the hexahedron are rejected -/
def edgeSlotOk (c1 c2 : Nat) : Bool :=
  match slotOfEdge c1 c2 with
  | some s => isEdge c1 c2 && (s.corners == (c1, c2) || s.corners == (c2, c1))
  | none => !isEdge c1 c2

theorem T_C10_edge_slot :
    ∀ c1 ∈ List.range 8, ∀ c2 ∈ List.range 8, edgeSlotOk c1 c2 = true := by decide

/-- the 12 storage slots address 12 different edges (no two slots collide) -/
theorem T_C10_slots_injective :
    (([0, 1, 2, 3].map Slot.bottom ++ [0, 1, 2, 3].map Slot.top ++ [0, 1, 2, 3].map Slot.side).map
      (fun s => (min s.corners.1 s.corners.2, max s.corners.1 s.corners.2))).Nodup := by decide

/-- `set_patch side name` shows `name` on exactly the quad of that side, whatever the name -/
theorem T_C10_set_patch (name : String) :
    ∀ e ∈ CBV.Gen.faceMap, ((Op.setPatch {} e.1 name).map (fun o => o.view.patches)) = some [(name, e.2)] := by
  intro e he
  simp only [CBV.Gen.faceMap, List.mem_cons, List.not_mem_nil, or_false] at he
  rcases he with h | h | h | h | h | h <;> subst h <;> rfl

/-- `project_side side label` (no edges, no points) projects exactly the quad of that side -/
theorem T_C10_project_side (label : String) :
    ∀ e ∈ CBV.Gen.faceMap,
      ((Op.projectSide {} e.1 label false false).map (fun o => o.view)) =
        some { patches := [], faces := [(label, e.2)], edges := [], corners := [] } := by
  intro e he
  simp only [CBV.Gen.faceMap, List.mem_cons, List.not_mem_nil, or_false] at he
  rcases he with h | h | h | h | h | h <;> subst h <;> rfl

/-- `project_side … edges=True, points=True` projects exactly the four edges and four corners of that side -/
def projectSideFullOk (e : String × List Nat) : Bool :=
  match (Op.projectSide {} e.1 "g" true true).map (fun o => o.view) with
  | some v => v.faces == [("g", e.2)] && v.edges.length == 4 && v.corners.length == 4 &&
      v.edges.all (fun x => e.2.contains x.1 && e.2.contains x.2.1 && isEdge x.1 x.2.1 && x.2.2 == ["g"]) &&
      v.corners.all (fun x => e.2.contains x.1 && x.2 == ["g"])
  | none => false

theorem T_C10_project_side_full : ∀ e ∈ CBV.Gen.faceMap, projectSideFullOk e = true := by decide

/-- `project_corner c` touches corner `c` only -/
theorem T_C10_project_corner (label : String) :
    ∀ c ∈ List.range 8, ((Op.projectCorner {} c label).view) =
      { patches := [], faces := [], edges := [], corners := [(c, [label])] } := by
  intro c hc
  simp only [List.mem_range] at hc
  have : c = 0 ∨ c = 1 ∨ c = 2 ∨ c = 3 ∨ c = 4 ∨ c = 5 ∨ c = 6 ∨ c = 7 := by omega
  rcases this with h | h | h | h | h | h | h | h <;> subst h <;> rfl

/-- frame: assigning a patch changes nothing but that side's patch (sequences compose) -/
theorem T_C10_set_patch_frame (o o' : Op) (side name : String) (h : o.setPatch side name = some o') :
    o'.view.faces = o.view.faces ∧ o'.view.edges = o.view.edges ∧ o'.view.corners = o.view.corners := by
  unfold Op.setPatch at h
  split at h
  · cases h; exact ⟨rfl, rfl, rfl⟩
  · split at h
    · cases h; exact ⟨rfl, rfl, rfl⟩
    · cases hi : indexFromSide side <;> simp [hi] at h
      subst h; exact ⟨rfl, rfl, rfl⟩

/-- frame: projecting a corner changes nothing but the corner list -/
theorem T_C10_project_corner_frame (o : Op) (c : Nat) (l : String) :
    (o.projectCorner c l).view.patches = o.view.patches ∧ (o.projectCorner c l).view.faces = o.view.faces ∧
      (o.projectCorner c l).view.edges = o.view.edges := ⟨rfl, rfl, rfl⟩

/-! ### list form of `set_patch`, `remove_edges`, one datum on two edges -/

/-- the list form of `set_patch`: whatever the order of the names (and wherever "top" or "bottom" stand in the
    list), exactly the listed sides get the name and every other side keeps what it had -/
theorem T_C10_set_patch_list (sides : List String) (name : String) :
    ∀ (o : Op), o.sidePatches.length = 4 → (∀ s ∈ sides, s ∈ sixSides) →
      ∃ o', o.setPatchList sides name = some o' ∧ o'.sidePatches.length = 4 ∧
        ∀ s' ∈ sixSides, o'.patchOf s' = if s' ∈ sides then some name else o.patchOf s' := by
  induction sides with
  | nil => intro o hl _; exact ⟨o, rfl, hl, by simp⟩
  | cons s rest ih =>
    intro o hl hv
    obtain ⟨o1, h1⟩ := setPatch_valid o s name (hv s (by simp))
    obtain ⟨hl1, hp1⟩ := setPatch_patchOf o o1 s name hl h1
    obtain ⟨o2, h2, hl2, hp2⟩ := ih o1 hl1 (fun x hx => hv x (by simp [hx]))
    refine ⟨o2, ?_, hl2, ?_⟩
    · simp [Op.setPatchList, List.foldlM, h1] at h2 ⊢; exact h2
    · intro s' hs'
      rw [hp2 s' hs', hp1 s' hs']
      by_cases hr : s' ∈ rest <;> by_cases he : s' = s <;> simp [hr, he]

example : (Op.setPatchList {} ["top", "left"] "walls").map (fun o => (o.patchOf "top", o.patchOf "left", o.patchOf "bottom"))
    = some (some "walls", some "walls", none) := by decide

/-- `remove_edges(corners)` clears exactly the listed slots of that face: an empty list changes nothing, and the
    other face, the side edges and everything else are never touched -/
theorem T_C10_remove_edges (cs : List Nat) :
    ∀ (o : Op), (∀ i, (o.removeEdges true cs).bottomEdges.getD i [] = if i ∈ cs then [] else o.bottomEdges.getD i []) ∧
      (o.removeEdges true cs).topEdges = o.topEdges ∧ (o.removeEdges true cs).sideEdges = o.sideEdges ∧
      (∀ i, (o.removeEdges false cs).topEdges.getD i [] = if i ∈ cs then [] else o.topEdges.getD i []) ∧
      (o.removeEdges false cs).bottomEdges = o.bottomEdges ∧ (o.removeEdges false cs).sideEdges = o.sideEdges := by
  induction cs with
  | nil => intro o; simp [Op.removeEdges]
  | cons c rest ih =>
    intro o
    have hb := ih (o.setEdgeSlot (.bottom c) [])
    have ht := ih (o.setEdgeSlot (.top c) [])
    simp only [Op.removeEdges, List.foldl_cons, if_true, Bool.false_eq_true, if_false] at hb ht ⊢
    refine ⟨?_, hb.2.1, hb.2.2.1, ?_, ht.2.2.2.2.1, ht.2.2.2.2.2⟩
    · intro i
      rw [hb.1 i]
      by_cases hr : i ∈ rest
      · simp [hr]
      · by_cases he : i = c
        · subst he; simp [hr, Op.setEdgeSlot, List.getD_eq_getElem?_getD, List.getElem?_set]
          split <;> simp
        · simp [hr, he, Op.setEdgeSlot, List.getD_eq_getElem?_getD, Ne.symm he]
    · intro i
      rw [ht.2.2.2.1 i]
      by_cases hr : i ∈ rest
      · simp [hr]
      · by_cases he : i = c
        · subst he; simp [hr, Op.setEdgeSlot, List.getD_eq_getElem?_getD, List.getElem?_set]
          split <;> simp
        · simp [hr, he, Op.setEdgeSlot, List.getD_eq_getElem?_getD, Ne.symm he]

theorem T_C10_remove_edges_empty (o : Op) (b : Bool) : o.removeEdges b [] = o := rfl

/-- one datum put on two slots shows on exactly those two block edges -/
example : (((({} : Op).setEdgeSlot (.bottom 0) ["g"]).setEdgeSlot (.side 2) ["g"]).view.edges)
    = [(0, 1, ["g"]), (2, 6, ["g"])] := by decide


end CBV.C10
