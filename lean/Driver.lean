/-
Line-protocol interpreter: one request per line on stdin, one answer per line on stdout.
Run with `lake env lean --run Driver.lean`.  Unknown or ill-formed requests answer `bad-op`.
-/
import CBV.Model.All

open CBV

def answer (line : String) : String :=
  let toks := (line.trimAscii.toString.splitOn " ").filter (· ≠ "")
  match toks with
  | [] => "bad-op"
  | op :: args => (CBV.dispatch op args).getD "bad-op"

partial def loop (h : IO.FS.Stream) (out : IO.FS.Stream) : IO Unit := do
  let line ← h.getLine
  if line.isEmpty then return ()
  out.putStrLn (answer line)
  loop h out

def main : IO Unit := do
  let out ← IO.getStdout
  loop (← IO.getStdin) out
