"""Sketch / shape tables for the translator (quad maps, partitions, chop lists)."""


def emit_all(emit) -> None:
    pass
