"""Shared harness of C01 / C02 / C04: assemblies of hexahedra on a jittered lattice with random corner
numberings and chops; drives the real Mesh, reads the schedule, builds the request for the Lean model M-PROP,
and states the properties directly on the written file."""

from __future__ import annotations

import math
import os
import warnings
import random
import re
import shutil
import signal
import tempfile
from fractions import Fraction
from typing import Any, Dict, List, Optional, Tuple

from . import core

# blockMesh convention, stated independently of the repository's tables
AXIS_PAIRS = (
    ((0, 1), (3, 2), (7, 6), (4, 5)),
    ((0, 3), (1, 2), (5, 6), (4, 7)),
    ((0, 4), (1, 5), (2, 6), (3, 7)),
)
CORNER_IJK = [(0, 0, 0), (1, 0, 0), (1, 1, 0), (0, 1, 0), (0, 0, 1), (1, 0, 1), (1, 1, 1), (0, 1, 1)]


def rotations() -> List[Tuple[int, ...]]:
    """The 24 orientation-preserving renumberings: new_points[i] = old_points[p[i]]."""
    rot_z = (1, 2, 3, 0, 5, 6, 7, 4)
    rot_x = (3, 2, 6, 7, 0, 1, 5, 4)
    seen = {tuple(range(8))}
    frontier = [tuple(range(8))]
    while frontier:
        g = frontier.pop()
        for gen in (rot_z, rot_x):
            h = tuple(g[i] for i in gen)
            if h not in seen:
                seen.add(h)
                frontier.append(h)
    return sorted(seen)


ROTS = rotations()
assert len(ROTS) == 24


class Hang(Exception):
    pass


def _alarm(signum, frame):
    raise Hang()


# ----------------------------------------------------------------------------------------- generation
def gen_assembly(rng: random.Random, max_blocks: int, jitter: bool = True) -> dict:
    """Random set of lattice cells (connected growth + optional detached / diagonal cells)."""
    nx, ny, nz = rng.choice([(3, 2, 1), (2, 2, 2), (3, 2, 2), (4, 1, 1), (2, 2, 1), (3, 3, 1)])
    n = rng.randint(1, max_blocks)
    all_cells = [(i, j, k) for i in range(nx) for j in range(ny) for k in range(nz)]
    cells = [rng.choice(all_cells)]
    while len(cells) < min(n, len(all_cells)):
        if rng.random() < 0.8:
            # grow: a cell sharing a face, an edge or a vertex with an existing one
            c = rng.choice(cells)
            d = [rng.choice([-1, 0, 1]) for _ in range(3)]
            if rng.random() < 0.7:
                z = [0, 0, 0]
                a = rng.randrange(3)
                z[a] = rng.choice([-1, 1])
                d = z
            cand = (c[0] + d[0], c[1] + d[1], c[2] + d[2])
        else:
            cand = rng.choice(all_cells)
        if cand in all_cells and cand not in cells:
            cells.append(cand)
        elif rng.random() < 0.05:
            break
    rng.shuffle(cells)
    jit = {}
    # jitter modes: every lattice vertex / only a few vertices (so that single edges of a block differ) / none
    jmode = rng.choice(["all", "all", "few", "few", "none"]) if jitter else "none"
    verts = [(i, j, k) for i in range(nx + 1) for j in range(ny + 1) for k in range(nz + 1)]
    moved = set(verts) if jmode == "all" else set(rng.sample(verts, rng.randint(1, 2))) if jmode == "few" else set()
    for v in verts:
        if v in moved:
            jit[v] = [rng.randint(-12, 12) / 64 for _ in range(3)]
        else:
            jit[v] = [0.0, 0.0, 0.0]
    scale = [rng.choice([0.5, 1.0, 2.0, 3.0]) for _ in range(3)]
    shear = []
    if rng.random() < 0.15:
        # strongly sheared cells (a swept / skewed channel): long in one direction, that direction displaced along a
        # second (sometimes also the third) one by most of a cell length per cell height — interior angles down to ~15
        # degrees, one body diagonal of every cell much shorter than its edges in the long direction
        dl = rng.randrange(3)
        others = [d for d in range(3) if d != dl]
        rng.shuffle(others)
        scale = [rng.choice([0.5, 1.0]) for _ in range(3)]
        scale[dl] = rng.choice([3.0, 4.0, 5.0])
        for ds in others[: rng.choice([1, 1, 2])]:
            shear.append([dl, ds, rng.choice([-1, 1]) * rng.choice([0.6, 0.75, 0.9]) * scale[dl] / scale[ds]])
        for v in jit:
            jit[v] = [x / 4 for x in jit[v]]
    blocks = []
    for c in cells:
        blocks.append({"cell": list(c), "rot": rng.randrange(24)})
    asm = {
        "blocks": blocks,
        "jitter": {f"{i},{j},{k}": v for (i, j, k), v in jit.items()},
        "scale": scale,
    }
    if shear:
        asm["shear"] = shear
        # the numbering decides which body diagonal joins corners 0 and 6: often the shortest one
        for blk in blocks:
            if rng.random() < 0.7:
                def diag(r, blk=blk):
                    cs = block_corners(asm, dict(blk, rot=r))
                    return math.dist(lattice_point(asm, cs[0]), lattice_point(asm, cs[6]))
                best = min(diag(r) for r in range(24))
                blk["rot"] = rng.choice([r for r in range(24) if diag(r) < best * 1.0001])
    add_arcs(rng, asm)
    return asm


def add_arcs(rng: random.Random, asm: dict, prob: float = 0.35) -> None:
    """Curves a few block edges: an Arc whose third point is the edge's mid point pushed sideways."""
    arcs = []
    if rng.random() < prob:
        edges = set()
        for blk in asm["blocks"]:
            cs = block_corners(asm, blk)
            for a in range(3):
                for p in AXIS_PAIRS[a]:
                    edges.add(tuple(sorted((cs[p[0]], cs[p[1]]))))
        edges = sorted(edges)
        owners = lambda e: sum(1 for blk in asm["blocks"] if set(e) <= set(block_corners(asm, blk)))
        shared = [e for e in edges if owners(e) >= 2]
        if shared and rng.random() < 0.7:
            edges = shared
        for e in rng.sample(edges, min(len(edges), rng.randint(1, 3))):
            # bulge relative to the chord, small enough for an arc well below a half circle (beyond that the
            # length of a three-point arc is direction dependent: C08's known finding, not this property's subject)
            arcs.append({"edge": [list(e[0]), list(e[1])], "bulge": [rng.choice([-0.18, -0.1, 0.1, 0.18]) for _ in range(3)],
                         "owner": rng.randrange(4)})  # which of the blocks that own the edge defines the arc (modulo their number)
    asm["arcs"] = arcs


def lattice_point(asm: dict, ijk: Tuple[int, int, int]) -> List[float]:
    j = asm["jitter"][f"{ijk[0]},{ijk[1]},{ijk[2]}"]
    p = [(ijk[d] + j[d]) * asm["scale"][d] for d in range(3)]
    # an affine shear of the whole lattice (parallelogram / parallelepiped cells): p[dt] += k * p[ds]
    for dt, ds, k in asm.get("shear", []):
        p[dt] += k * p[ds]
    return p


def block_corners(asm: dict, blk: dict) -> List[Tuple[int, int, int]]:
    """Lattice coordinates of the block's corners 0..7 in the block's own numbering."""
    c = blk["cell"]
    base = [(c[0] + d[0], c[1] + d[1], c[2] + d[2]) for d in CORNER_IJK]
    p = ROTS[blk["rot"]]
    return [base[p[i]] for i in range(8)]


BM_SIDE_CORNERS = {"bottom": (0, 1, 2, 3), "top": (4, 5, 6, 7), "left": (0, 3, 4, 7), "right": (1, 2, 5, 6), "front": (0, 1, 4, 5), "back": (2, 3, 6, 7)}


def cut_sides(asm: dict, cut: dict, rots: Optional[List[int]] = None):
    """A face between two face-adjacent blocks that the user declares as a merged patch pair (master on block `a`, slave on
    block `b`): side name on a, side name on b, the four lattice points of the face."""
    blk = lambda b: asm["blocks"][b] if rots is None else dict(asm["blocks"][b], rot=rots[b])
    ca, cb = block_corners(asm, blk(cut["a"])), block_corners(asm, blk(cut["b"]))
    shared = set(ca) & set(cb)
    side = lambda cs: next(n for n, idx in BM_SIDE_CORNERS.items() if {cs[i] for i in idx} == shared)
    return side(ca), side(cb), shared


def vertex_keys(asm: dict, b: int) -> List[Any]:
    """What identifies the mesh vertex of each corner of block b: its lattice point and, for corners on a slave patch of a
    merged pair, the names of those slave patches (such corners get vertices of their own: Mesh._add_vertices)."""
    cs = block_corners(asm, asm["blocks"][b])
    cuts = [(k, cut_sides(asm, cut)[2]) for k, cut in enumerate(asm.get("cuts", [])) if cut.get("b") == b]
    # whole lattice planes declared as merged interfaces: master patch on the faces of the blocks below, one slave patch
    # (one name for all of them) on the faces of the blocks above
    for k, cut in enumerate(asm.get("cuts", [])):
        if "plane" in cut:
            d, pos = cut["plane"]
            if asm["blocks"][b]["cell"][d] == pos:
                cuts.append((k, {c for c in cs if c[d] == pos}))
    if not cuts:
        return list(cs)
    keys = []
    for c in cs:
        slaves = tuple(sorted(f"s{k}" for k, pts in cuts if c in pts))
        keys.append((c, slaves) if slaves else c)
    return keys


def families(asm: dict) -> Tuple[Dict[Tuple[int, int], int], Dict[int, List[Tuple[int, int]]]]:
    """Union-find over (block, axis): same family when two of their wires share a lattice vertex pair."""
    nb = len(asm["blocks"])
    parent = list(range(3 * nb))

    def find(x):
        while parent[x] != x:
            parent[x] = parent[parent[x]]
            x = parent[x]
        return x

    owner: Dict[frozenset, int] = {}
    dead = set(asm.get("deleted", []))  # operations excluded with mesh.delete(): no block, no shared edges
    for b, blk in enumerate(asm["blocks"]):
        if b in dead:
            continue
        cs = vertex_keys(asm, b)
        for a in range(3):
            for p in AXIS_PAIRS[a]:
                key = frozenset((cs[p[0]], cs[p[1]]))
                if key in owner:
                    ra, rb = find(owner[key]), find(3 * b + a)
                    parent[ra] = rb
                else:
                    owner[key] = 3 * b + a
    fam_of = {}
    members: Dict[int, List[Tuple[int, int]]] = {}
    for x in range(3 * nb):
        if x // 3 in dead:
            continue
        r = find(x)
        fam_of[(x // 3, x % 3)] = r
        members.setdefault(r, []).append((x // 3, x % 3))
    return fam_of, members


CHOP_KINDS = ["count", "count_c2c", "count_total", "start_c2c", "end_c2c", "count_start", "count_end", "multi", "multi_equal", "multi_size"]


def gen_chop(rng: random.Random, kinds=CHOP_KINDS, count: Optional[int] = None) -> List[dict]:
    """One user chop call list for an axis (one entry, or two for multi-grading)."""
    kind = rng.choice(kinds)
    n = count if count is not None else rng.randint(2, 9)
    pres = rng.choice(["c2c_expansion", "start_size", "end_size"]) if rng.random() < 0.5 else "c2c_expansion"
    if kind == "count":
        if count is None and rng.random() < 0.1:
            n = 1  # a single layer of cells (2D cases)
        return [{"count": n}]
    if kind == "count_c2c":
        return [{"count": n, "c2c_expansion": rng.choice([0.8, 0.9, 1.1, 1.25]), "preserve": pres}]
    if kind == "count_total":
        return [{"count": n, "total_expansion": rng.choice([0.25, 0.5, 2.0, 4.0]), "preserve": pres}]
    if kind == "start_c2c":
        return [{"start_size": rng.choice([0.05, 0.08, 0.11]), "c2c_expansion": rng.choice([1.0, 1.1, 1.2]), "preserve": pres}]
    if kind == "end_c2c":
        # (shrinking or equal cells towards the end: always reachable)
        return [{"end_size": rng.choice([0.05, 0.08, 0.11]), "c2c_expansion": rng.choice([0.85, 0.9, 1.0]), "preserve": pres}]
    if kind == "multi_size":
        # a size-based first section: its count is resolved on (average length) x (length ratio)
        r = rng.choice([0.3, 0.4, 0.5])
        return [
            {"length_ratio": r, "start_size": rng.choice([0.04, 0.06]), "c2c_expansion": rng.choice([1.0, 1.1, 1.2]), "preserve": pres},
            {"length_ratio": 1 - r, "count": max(2, n // 2), "total_expansion": rng.choice([0.5, 1.0])},
        ]
    if kind == "count_start":
        return [{"count": n, "start_size": rng.choice([0.03, 0.05, 0.07]), "preserve": pres}]
    if kind == "count_end":
        return [{"count": n, "end_size": rng.choice([0.03, 0.05, 0.07]), "preserve": pres}]
    if kind == "multi_equal":
        # two or three identical divisions (equal as dataclasses, different objects)
        k = rng.choice([2, 3]) if n >= 6 else 2
        one = {"length_ratio": 1 / k, "count": max(2, n // k)}
        if rng.random() < 0.5:
            one["total_expansion"] = rng.choice([1.0, 2.0])
        return [dict(one) for _ in range(k)]
    r = rng.choice([0.3, 0.4, 0.5])
    n1 = max(2, n // 2)
    return [
        {"length_ratio": r, "count": n1, "total_expansion": rng.choice([2.0, 3.0]), "preserve": pres},
        {"length_ratio": 1 - r, "count": max(2, n - n1), "total_expansion": rng.choice([0.5, 1.0])},
    ]


def gen_sandwich(rng: random.Random) -> dict:
    """Three cells in a row, the outer two chopped across with the same chop, the middle one un-chopped in that
    direction, and a fourth cell attached to the middle one: the middle axis can be completed by wire copying
    alone.  Random orientation of the row, numbering and insertion order."""
    perm = rng.sample(range(3), 3)  # row direction, chopped direction, stacking direction

    def cell(r, c, s):
        v = [0, 0, 0]
        v[perm[0]], v[perm[1]], v[perm[2]] = r, c, s
        return v

    cells = [cell(0, 0, 0), cell(1, 0, 0), cell(2, 0, 0), cell(1, 0, 1) if rng.random() < 0.7 else cell(1, 1, 0)]
    extra = rng.random() < 0.3
    if extra:
        cells.append(cell(0, 0, 1))
    lo = [min(c[d] for c in cells) for d in range(3)]
    cells = [[c[d] - lo[d] for d in range(3)] for c in cells]
    dims = [max(c[d] for c in cells) + 1 for d in range(3)]
    order = list(range(len(cells)))
    rng.shuffle(order)
    blocks = [{"cell": cells[i], "rot": rng.randrange(24)} for i in order]
    jit = {}
    for i in range(dims[0] + 1):
        for j in range(dims[1] + 1):
            for k in range(dims[2] + 1):
                jit[f"{i},{j},{k}"] = [rng.randint(-8, 8) / 64 for _ in range(3)]
    asm = {"blocks": blocks, "jitter": jit, "scale": [rng.choice([1.0, 2.0]) for _ in range(3)]}
    add_arcs(rng, asm)
    fam_of, members = families(asm)
    pos = {tuple(b["cell"]): i for i, b in enumerate(blocks)}
    outer = [pos[tuple(cells[0])], pos[tuple(cells[2])]]
    chops = []
    done = set()
    calls = gen_chop(rng, ["count", "count_c2c", "count_total"])
    conflict = rng.random() < 0.3
    if conflict and rng.random() < 0.5:
        calls = [{"count": 1}]
    for bi, b in enumerate(outer):
        a = next(a for a in range(3) if axis_direction(blocks[b]["rot"], a)[0] == perm[1])
        s = axis_direction(blocks[b]["rot"], a)[1]
        mine = calls if s == 1 else [invert_call(c) for c in reversed(calls)]
        if conflict and bi == 1:
            # the far outer block demands another count: the un-chopped middle block lies between two conflicting ones
            mine = [{"count": sum(c["count"] for c in calls) + rng.choice([1, 2, 6])}]
        chops.append({"block": b, "axis": a, "calls": mine})
        done.add(fam_of[(b, a)])
    for f, mem in members.items():
        if f not in done:
            b, a = rng.choice(mem)
            chops.append({"block": b, "axis": a, "calls": gen_chop(rng, ["count", "count_c2c"])})
    return {"kind": "sandwich", "asm": asm, "chops": chops}


def gen_row(rng: random.Random, n: Optional[int] = None) -> dict:
    """A row of 5..7 cells; every cell has its own chop along the row (those edges are shared with nobody), the two
    families across the row have one chop each, on cells far apart (usually the two ends), so that the inner cells
    receive one direction from the left and the other from the right: a sweep over the undefined blocks may copy axes
    without completing any block.  Random orientation, numbering and insertion order (inner cells often first)."""
    perm = rng.sample(range(3), 3)
    n = n or rng.choice([5, 5, 6, 7])
    cells = []
    for i in range(n):
        v = [0, 0, 0]
        v[perm[0]] = i
        cells.append(v)
    order = list(range(n))
    rng.shuffle(order)
    if rng.random() < 0.4:
        order.sort(key=lambda i: abs(i - (n - 1) / 2) + rng.random())  # from the middle outwards
    blocks = [{"cell": cells[i], "rot": rng.randrange(24)} for i in order]
    dims = [n if d == perm[0] else 1 for d in range(3)]
    jit = {}
    for i in range(dims[0] + 1):
        for j in range(dims[1] + 1):
            for k in range(dims[2] + 1):
                jit[f"{i},{j},{k}"] = [rng.randint(-8, 8) / 64 for _ in range(3)]
    asm = {"blocks": blocks, "jitter": jit, "scale": [rng.choice([1.0, 2.0]) for _ in range(3)], "arcs": []}
    fam_of, members = families(asm)
    far = rng.random() < 0.8
    ends = {perm[1]: 0, perm[2]: n - 1} if rng.random() < 0.5 else {perm[1]: n - 1, perm[2]: 0}
    chops = []
    for f, mem in members.items():
        if len(mem) == 1:
            b, a = mem[0]
            calls = gen_chop(rng, ["count", "count_c2c", "count_total"])
        else:
            d = axis_direction(blocks[mem[0][0]]["rot"], mem[0][1])[0]
            want = ends.get(d, 0) if far else rng.randrange(n)
            b, a = next((b, a) for b, a in mem if blocks[b]["cell"][perm[0]] == want)
            calls = gen_chop(rng, ["count", "count_c2c", "count_total", "start_c2c"])
        chops.append({"block": b, "axis": a, "calls": calls})
    return {"kind": "row", "asm": asm, "chops": chops}


def gen_full(rng: random.Random, max_blocks: int) -> dict:
    """Every block chops every axis itself (nothing is left to propagation): per family one chop, applied to each
    member in the same geometric direction; with some probability one member deviates in its count."""
    asm = gen_assembly(rng, min(max_blocks, 6))
    fam_of, members = families(asm)
    chops = []
    conflict_fam = rng.choice(list(members)) if rng.random() < 0.5 else None
    for f, mem in members.items():
        calls = gen_chop(rng, ["count", "count_c2c", "count_total"])
        odd = rng.choice(mem) if f == conflict_fam and len(mem) > 1 else None
        for b, a in mem:
            _, sgn = axis_direction(asm["blocks"][b]["rot"], a)
            c = calls if sgn == 1 else [invert_call(k) for k in reversed(calls)]
            if (b, a) == odd:
                if rng.random() < 0.5:
                    c = [dict(k, count=k["count"] + 3) for k in c]
                else:  # same proportions and expansions, twice the cells
                    c = [dict(k, count=k["count"] * 2) for k in c]
            chops.append({"block": b, "axis": a, "calls": [dict(k) for k in c]})
    return {"kind": "full", "asm": asm, "chops": chops}


def gen_edge_conflict(rng: random.Random) -> dict:
    """A chopped block A, an un-chopped face neighbour B, and a chopped block C that touches B along ONE edge only
    (and does not touch A), demanding another count on that edge; inserted A, B, C or shuffled."""
    perm = rng.sample(range(3), 3)  # direction A-B, direction of the diagonal offset, direction of the shared edge

    def cell(u, v, w):
        x = [0, 0, 0]
        x[perm[0]], x[perm[1]], x[perm[2]] = u, v, w
        return x

    cells = [cell(0, 0, 0), cell(1, 0, 0), cell(2, 1, 0)]  # A, B, C: C shares with B the edge u=2, v=1
    order = [0, 1, 2]
    if rng.random() < 0.4:
        rng.shuffle(order)
    blocks = [{"cell": cells[i], "rot": rng.randrange(24)} for i in order]
    dims = [max(c[d] for c in cells) + 1 for d in range(3)]
    jit = {f"{i},{j},{k}": [rng.randint(-6, 6) / 64 for _ in range(3)] for i in range(dims[0] + 1) for j in range(dims[1] + 1) for k in range(dims[2] + 1)}
    asm = {"blocks": blocks, "jitter": jit, "scale": [1.0, 1.0, 1.0], "arcs": []}
    pos = {tuple(b["cell"]): i for i, b in enumerate(blocks)}
    fam_of, members = families(asm)
    ia, ic = pos[tuple(cells[0])], pos[tuple(cells[2])]
    chops = []
    done = set()
    n = rng.randint(3, 8)
    for blk, count in ((ia, n), (ic, n + rng.choice([0, 0, 2, 10]))):
        a = next(a for a in range(3) if axis_direction(blocks[blk]["rot"], a)[0] == perm[2])
        chops.append({"block": blk, "axis": a, "calls": [{"count": count}]})
        done.add(fam_of[(blk, a)])
    for f, mem in members.items():
        if f not in done:
            b, a = rng.choice(mem)
            chops.append({"block": b, "axis": a, "calls": [{"count": rng.randint(2, 6)}]})
    return {"kind": "edge_conflict", "asm": asm, "chops": chops}


def gen_pair_conflict(rng: random.Random) -> dict:
    """Two face-adjacent blocks A, B chopped across their common face with different counts (or equal counts and
    different gradings), each with one or two un-chopped neighbours attached on other sides; random numberings and
    insertion order.  Whatever is visited first, the conflict on the common face has to be reported."""
    perm = rng.sample(range(3), 3)  # row direction, chopped direction, third direction

    def cell(r, c, s):
        v = [0, 0, 0]
        v[perm[0]], v[perm[1]], v[perm[2]] = r, c, s
        return v

    cells = [cell(1, 0, 1), cell(2, 0, 1)]  # A, B
    buddy = {}
    # neighbours that share edges of the chopped direction with A resp. B (row ends, or beside in the third direction)
    for which, (base, away) in enumerate(((1, 0), (2, 3))):
        cand = [cell(away, 0, 1), cell(base, 0, 0), cell(base, 0, 2)]
        if rng.random() < 0.5:
            rng.shuffle(cand)
        for c in cand[: rng.choice([1, 1, 2])]:
            buddy[len(cells)] = which
            cells.append(c)
    lo = [min(c[d] for c in cells) for d in range(3)]
    cells = [[c[d] - lo[d] for d in range(3)] for c in cells]
    dims = [max(c[d] for c in cells) + 1 for d in range(3)]
    order = list(range(len(cells)))
    rng.shuffle(order)
    rot = [rng.randrange(24) for _ in cells]
    # often: corner 0 of A and of B on the side away from their common face (their first wire is then one they share
    # with an un-chopped neighbour, not with each other)
    for which, side in ((0, 0), (1, 1)):
        if rng.random() < 0.7:
            for _ in range(50):
                c0 = block_corners({"blocks": []}, {"cell": cells[which], "rot": rot[which]})[0]
                if c0[perm[0]] == cells[which][perm[0]] + side:
                    break
                rot[which] = rng.randrange(24)
    for i, which in buddy.items():
        if rng.random() < 0.6:
            rot[i] = rot[which]  # numbered like the chopped block it leans on (its copied gradings are aligned)
    blocks = [{"cell": cells[i], "rot": rot[i]} for i in order]
    jit = {f"{i},{j},{k}": [rng.randint(-6, 6) / 64 for _ in range(3)] for i in range(dims[0] + 1) for j in range(dims[1] + 1) for k in range(dims[2] + 1)}
    asm = {"blocks": blocks, "jitter": jit, "scale": [rng.choice([1.0, 2.0]) for _ in range(3)], "arcs": []}
    pos = {tuple(b["cell"]): i for i, b in enumerate(blocks)}
    fam_of, members = families(asm)
    chops = []
    done = set()
    n = rng.randint(2, 8)
    same = rng.random() < 0.25
    for bi, blk in enumerate((pos[tuple(cells[0])], pos[tuple(cells[1])])):
        a = next(a for a in range(3) if axis_direction(blocks[blk]["rot"], a)[0] == perm[1])
        if bi == 0:
            call = {"count": n}
        elif same:  # the same count, another distribution
            call = {"count": n, "total_expansion": rng.choice([2.0, 3.0])}
        else:
            call = {"count": n + rng.choice([1, 2, 5])}
        chops.append({"block": blk, "axis": a, "calls": [call]})
        done.add(fam_of[(blk, a)])
    for f, mem in members.items():
        if f not in done:
            b, a = rng.choice(mem)
            chops.append({"block": b, "axis": a, "calls": [{"count": rng.randint(2, 6)}]})
    return {"kind": "pair_conflict", "asm": asm, "chops": chops}


def gen_late(rng: random.Random, case: dict) -> None:
    """Chops the user places on blocks of the assembled mesh (Block.chop) after the first two writes: the families
    left without a chop get one, and sometimes a block whose count was copied gets a chop of its own (the same count,
    or a conflicting one)."""
    fam_of, members = families(case["asm"])
    chopped = {}
    for ch in case["chops"]:
        chopped.setdefault(fam_of[(ch["block"], ch["axis"])], []).append(ch)
    late = []
    for f, mem in members.items():
        if f not in chopped:
            b, a = rng.choice(mem)
            late.append({"block": b, "axis": a, "calls": [{"count": rng.randint(2, 7)}]})
    taken = {(ch["block"], ch["axis"]) for ch in case["chops"]}
    for f, chs in chopped.items():
        free = [x for x in members[f] if x not in taken]
        if free and rng.random() < 0.5 and all("count" in kw for ch in chs for kw in ch["calls"]):
            b, a = rng.choice(free)
            tot = sum(int(kw["count"]) for kw in chs[0]["calls"])
            late.append({"block": b, "axis": a, "calls": [{"count": tot if rng.random() < 0.4 else tot + rng.choice([1, 2, 4])}]})
    if late:
        case["late"] = late


def gen_case(rng: random.Random, max_blocks: int, mode: str) -> dict:
    """mode: well (one chopped axis per family) | under | conflict | double (two chopped axes, same count)."""
    if mode == "sandwich":
        return gen_sandwich(rng)
    if mode == "full":
        return gen_full(rng, max_blocks)
    if mode == "row":
        return gen_row(rng)
    if mode == "edge_conflict":
        return gen_edge_conflict(rng)
    if mode == "pair_conflict":
        return gen_pair_conflict(rng)
    asm = gen_assembly(rng, max_blocks)
    fam_of, members = families(asm)
    chops: List[dict] = []  # {"block","axis","calls":[kwargs…]}
    fams = list(members.items())
    special = rng.randrange(len(fams)) if fams else 0
    for fi, (_, mem) in enumerate(fams):
        m = mode if fi == special else "well"
        if m == "under":
            continue
        b, a = rng.choice(mem)
        calls = gen_chop(rng)
        chops.append({"block": b, "axis": a, "calls": calls})
        if m in ("conflict", "double") and len(mem) > 1:
            others = [x for x in mem if x != (b, a)]
            b2, a2 = rng.choice(others)
            if m == "conflict":
                if all(set(c) <= {"count", "length_ratio", "total_expansion", "c2c_expansion", "preserve"} and "count" in c for c in calls) and rng.random() < 0.5:
                    # the same chop with doubled counts (same proportions and expansions), in the same geometric direction
                    s1 = axis_direction(asm["blocks"][b]["rot"], a)[1]
                    s2 = axis_direction(asm["blocks"][b2]["rot"], a2)[1]
                    dbl = [dict(c, count=c["count"] * 2) for c in calls]
                    chops.append({"block": b2, "axis": a2, "calls": dbl if s1 == s2 else [invert_call(c) for c in reversed(dbl)]})
                else:
                    chops.append({"block": b2, "axis": a2, "calls": [{"count": rng.choice([11, 13])}]})
            else:
                c2 = [dict(c) for c in calls] if rng.random() < 0.5 else gen_chop(rng, ["count", "count_c2c"], None)
                chops.append({"block": b2, "axis": a2, "calls": c2})
    case = {"kind": mode, "asm": asm, "chops": chops}
    if rng.random() < 0.25 and not asm.get("arcs"):
        case["stretch"] = [rng.randrange(3), rng.choice([0.5, 1.5, 2.5])]  # vertices moved between the two writes
    if rng.random() < 0.12 and len(asm["blocks"]) > 2:
        # one or two operations without a chop of their own are excluded with mesh.delete(): they give no block and
        # share no edges, which may split a family (the part left without a chop is then undefined)
        free = [b for b in range(len(asm["blocks"])) if not any(ch["block"] == b for ch in chops)]
        if free:
            asm["deleted"] = sorted(rng.sample(free, min(len(free), rng.choice([1, 1, 2]))))
    if rng.random() < 0.12 and not asm.get("arcs"):
        # a face between two blocks declared as a merged patch pair: the slave side gets vertices of its own there, so
        # the two blocks (and whoever shares those corners) are no longer joined through the edges of that face
        dead = set(asm.get("deleted", []))
        live = [b for b in range(len(asm["blocks"])) if b not in dead]
        pairs = [(a, b) for a in live for b in live if a != b
                 and sum(abs(x - y) for x, y in zip(asm["blocks"][a]["cell"], asm["blocks"][b]["cell"])) == 1]
        if pairs and rng.random() < 0.4:
            # one or two whole lattice planes between blocks
            planes = sorted({(d, max(asm["blocks"][a]["cell"][d], asm["blocks"][b]["cell"][d])) for a, b in pairs
                             for d in range(3) if asm["blocks"][a]["cell"][d] != asm["blocks"][b]["cell"][d]})
            chosen = [rng.choice(planes)]
            others = [pl for pl in planes if pl[0] != chosen[0][0]]
            if others and rng.random() < 0.6:
                chosen.append(rng.choice(others))
            asm["cuts"] = [{"plane": list(pl)} for pl in chosen]
        elif pairs:
            asm["cuts"] = [dict(zip("ab", rng.choice(pairs)))]
            if len(pairs) > 2 and rng.random() < 0.4:
                same = [pr for pr in pairs if pr[1] == asm["cuts"][0]["b"] and pr[0] != asm["cuts"][0]["a"]]
                # (often a second slave patch on the same block: its corners on both faces carry two slave names)
                a2, b2 = rng.choice(same) if same and rng.random() < 0.6 else rng.choice(pairs)
                if {a2, b2} != set(asm["cuts"][0].values()):
                    asm["cuts"].append({"a": a2, "b": b2})
    if (asm.get("cuts") or asm.get("deleted")) and rng.random() < 0.7:
        # families that the cut / the deletion left without a chop get one (so the case stays of its kind)
        fam_of2, members2 = families(asm)
        have = {fam_of2[(ch["block"], ch["axis"])] for ch in chops}
        for f, mem in members2.items():
            if f not in have and not (mode == "under" and rng.random() < 0.3):
                b, a = rng.choice(mem)
                chops.append({"block": b, "axis": a, "calls": gen_chop(rng, ["count", "count_c2c", "count_start"])})
    if rng.random() < (0.6 if mode == "under" else 0.15):
        gen_late(rng, case)
    # (only with chops that state their count: a count derived from a cell size sits on a rounding boundary when the
    # edge length is a whole multiple of the size, and then depends on which of the merged corners came first)
    if rng.random() < 0.12 and len(asm["blocks"]) > 1 and not asm.get("cuts") and all("count" in kw for ch in chops for kw in ch["calls"]):
        # one block entered with corner coordinates that differ from its neighbours' by a little less than the merging
        # tolerance along a space diagonal (rounded input): still the same vertices, still the same families
        asm["noise"] = {"block": rng.randrange(len(asm["blocks"])),
                        "delta": [[rng.choice([-1, 1]) * rng.choice([4.5e-8, 5e-8, 5.5e-8]) for _ in range(3)] for _ in range(8)]}
    multi = [(i, ch) for i, ch in enumerate(chops) if len(ch["calls"]) >= 2 and all("length_ratio" in kw for kw in ch["calls"])]
    if multi and rng.random() < 0.3:
        # a typo in a later division of a multi-section chop: the first write raises from inside the grading of that
        # axis, the caller corrects the Chop in place and writes again
        i, ch = rng.choice(multi)
        case["typo"] = {"chop": i, "call": rng.randrange(1, len(ch["calls"])), "length_ratio": rng.choice([50.0, -0.5, 0.0])}
    return case


# ----------------------------------------------------------------------------------------- implementation
def build_mesh(case: dict, order: Optional[List[int]] = None, rots: Optional[List[int]] = None, with_typo: bool = False):
    import classy_blocks as cb

    asm = case["asm"]
    mesh = cb.Mesh()
    ops = []
    idx = list(range(len(asm["blocks"]))) if order is None else order
    # the block that defines each arc: the `owner`-th (modulo) of the blocks containing the edge, in case order —
    # so the arc may be defined by a later operation than the first one that uses the edge
    arc_owner = {}
    for ai, arc in enumerate(asm.get("arcs", [])):
        e = {tuple(arc["edge"][0]), tuple(arc["edge"][1])}
        owners = [b for b in range(len(asm["blocks"])) if e <= set(block_corners(asm, asm["blocks"][b]))]
        if owners:
            arc_owner[ai] = owners[arc.get("owner", 0) % len(owners)]
    for b in idx:
        blk = dict(asm["blocks"][b])
        if rots is not None:
            blk["rot"] = rots[b]
        cs = block_corners(asm, blk)
        pts = [lattice_point(asm, c) for c in cs]
        noise = asm.get("noise")
        if noise and noise["block"] == b:
            pts = [[x + d for x, d in zip(p, dl)] for p, dl in zip(pts, noise["delta"])]
        op = cb.Loft(cb.Face(pts[:4]), cb.Face(pts[4:]))
        for ai, arc in enumerate(asm.get("arcs", [])):
            if arc_owner.get(ai) != b:
                continue
            e0, e1 = tuple(arc["edge"][0]), tuple(arc["edge"][1])
            for c1 in range(8):
                for c2 in range(8):
                    if cs[c1] == e0 and cs[c2] == e1:
                        p0, p1 = lattice_point(asm, e0), lattice_point(asm, e1)
                        chord = math.dist(p0, p1)
                        mid = [(p0[d] + p1[d]) / 2 + arc["bulge"][d] * chord for d in range(3)]
                        lo, hi = min(c1, c2), max(c1, c2)
                        if hi - lo == 4:
                            op.add_side_edge(lo, cb.Arc(mid))
                        elif hi < 4:
                            op.bottom_face.add_edge(lo if hi - lo == 1 else 3, cb.Arc(mid))
                        else:
                            op.top_face.add_edge((lo - 4) if hi - lo == 1 else 3, cb.Arc(mid))
        ops.append((b, op, blk))
    typo = case.get("typo") if with_typo else None
    fixes = []
    for b, op, blk in ops:
        for ci, ch in enumerate(case["chops"]):
            if ch["block"] == b:
                axis = ch["axis"]
                if rots is not None:
                    # keep the chop on the same geometric direction of the block
                    axis = remap_axis(asm["blocks"][b]["rot"], rots[b], ch["axis"])
                    calls = remap_calls(asm["blocks"][b]["rot"], rots[b], ch["axis"], ch["calls"])
                else:
                    calls = ch["calls"]
                for ki, kw in enumerate(calls):
                    if typo and typo["chop"] == ci and rots is None and typo["call"] == ki:
                        op.chop(axis, **dict(kw, length_ratio=typo["length_ratio"]))
                        fixes.append((op.chops[axis][-1], kw["length_ratio"]))
                    else:
                        op.chop(axis, **kw)
        mesh.add(op)
    op_of = {b: op for b, op, _ in ops}
    for k, cut in enumerate(asm.get("cuts", [])):
        if "plane" in cut:
            d, pos = cut["plane"]
            for b, op, blk in ops:
                cs_b = block_corners(asm, blk)
                for name, want in ((f"m{k}", pos - 1), (f"s{k}", pos)):
                    if asm["blocks"][b]["cell"][d] == want:
                        side = next(n for n, idx in BM_SIDE_CORNERS.items() if all(cs_b[i][d] == pos for i in idx))
                        op.set_patch(side, name)
            mesh.merge_patches(f"m{k}", f"s{k}")
            continue
        side_a, side_b, _ = cut_sides(asm, cut, rots)
        op_of[cut["a"]].set_patch(side_a, f"m{k}")
        op_of[cut["b"]].set_patch(side_b, f"s{k}")
        mesh.merge_patches(f"m{k}", f"s{k}")
    dead = set(asm.get("deleted", []))
    for b, op, blk in ops:
        if b in dead:
            mesh.delete(op)
    ops = [x for x in ops if x[0] not in dead]  # block list order = insertion order of the live operations
    if with_typo:
        return mesh, ops, fixes
    return mesh, ops


def axis_direction(rot: int, axis: int) -> Tuple[int, int]:
    """Lattice direction (0..2) and sign of a block's local axis under numbering `rot`."""
    p = ROTS[rot]
    c0, c1 = AXIS_PAIRS[axis][0]
    a, b = CORNER_IJK[p[c0]], CORNER_IJK[p[c1]]
    for d in range(3):
        if a[d] != b[d]:
            return d, (1 if b[d] > a[d] else -1)
    raise AssertionError


def remap_axis(rot_old: int, rot_new: int, axis: int) -> int:
    d, _ = axis_direction(rot_old, axis)
    for a in range(3):
        if axis_direction(rot_new, a)[0] == d:
            return a
    raise AssertionError


def invert_call(kw: dict) -> dict:
    out = dict(kw)
    out["start_size"], out["end_size"] = kw.get("end_size"), kw.get("start_size")
    if kw.get("c2c_expansion") is not None:
        out["c2c_expansion"] = 1 / kw["c2c_expansion"]
    if kw.get("total_expansion") is not None:
        out["total_expansion"] = 1 / kw["total_expansion"]
    if kw.get("preserve") == "start_size":
        out["preserve"] = "end_size"
    elif kw.get("preserve") == "end_size":
        out["preserve"] = "start_size"
    return {k: v for k, v in out.items() if v is not None}


def remap_calls(rot_old: int, rot_new: int, axis: int, calls: List[dict]) -> List[dict]:
    _, s_old = axis_direction(rot_old, axis)
    _, s_new = axis_direction(rot_new, remap_axis(rot_old, rot_new, axis))
    if s_old == s_new:
        return calls
    return [invert_call(c) for c in reversed(calls)]


def parse_grading_entry(tok: str):
    """A grading entry of the file: a number, or ((r n e)(r n e)…)."""
    if tok.startswith("("):
        secs = re.findall(r"\(([^()]+)\)", tok)
        return [[float(x) for x in s.split()] for s in secs]
    return float(tok)


def parse_hex_lines(text: str) -> List[dict]:
    out = []
    for line in text.splitlines():
        m = re.match(
            r"\s*hex \( ([0-9 ]+) \)\s+(\S*)\s*\( (\d+) (\d+) (\d+) \) (simpleGrading|edgeGrading) \( (.*) \) //", line
        )
        if not m:
            continue
        body = m.group(7).strip()
        # split entries at top level
        entries, depth, cur = [], 0, ""
        for ch in body:
            if ch == "(":
                depth += 1
            if ch == ")":
                depth -= 1
            if ch == " " and depth == 0:
                if cur:
                    entries.append(cur)
                cur = ""
            else:
                cur += ch
        if cur:
            entries.append(cur)
        out.append(
            {
                "verts": [int(x) for x in m.group(1).split()],
                "zone": m.group(2),
                "counts": [int(m.group(3)), int(m.group(4)), int(m.group(5))],
                "kind": m.group(6),
                "entries": [parse_grading_entry(e) for e in entries],
            }
        )
    return out


def run_write(case: dict, order=None, rots=None, timeout: float = 20.0) -> dict:
    """Writes the mesh with the public API; returns outcome + file text + internals read afterwards."""
    warnings.simplefilter("ignore")
    mesh, ops, fixes = build_mesh(case, order, rots, with_typo=True)
    tmp = tempfile.mkdtemp(prefix="cbv_prop_")
    path = os.path.join(tmp, "blockMeshDict")
    old = signal.signal(signal.SIGALRM, _alarm)
    res: Dict[str, Any] = {}
    if fixes:
        # the write with the typo: it has to be refused; then the caller corrects the Chop objects in place
        signal.setitimer(signal.ITIMER_REAL, timeout)
        try:
            mesh.write(path)
            res["typo_outcome"] = "ok"
        except Hang:
            res["typo_outcome"] = "hang"
        except Exception as e:
            res["typo_outcome"] = type(e).__name__
        finally:
            signal.setitimer(signal.ITIMER_REAL, 0)
        res["typo_file_written"] = os.path.exists(path)
        if os.path.exists(path):
            os.remove(path)
        for chop_obj, good in fixes:
            chop_obj.length_ratio = good
    signal.setitimer(signal.ITIMER_REAL, timeout)
    try:
        mesh.write(path)
        res["outcome"] = "ok"
        res["text"] = open(path).read()
    except Hang:
        res["outcome"] = "hang"
    except Exception as e:
        res["outcome"] = type(e).__name__
        res["message"] = str(e)[:300]
        res["file_written"] = os.path.exists(path)
    finally:
        signal.setitimer(signal.ITIMER_REAL, 0)
    # what the implementation holds after the first write (schedule, lengths, specifications)
    if res["outcome"] != "hang":
        try:
            res["internals"] = read_internals(mesh)
        except Exception as e:  # assembly itself failed
            res["internals_error"] = repr(e)
    # the same mesh object written once more (a retry after an error, or a second export)
    second: Dict[str, Any] = {}
    stretch = case.get("stretch")
    if stretch and res["outcome"] != "hang" and not case["asm"].get("arcs"):
        try:
            for v in mesh.vertices:
                p = [float(x) for x in v.position]
                p[stretch[0]] *= stretch[1]
                v.move_to(p)
            second["stretched"] = True
        except Exception as e:
            second["stretch_error"] = repr(e)
    if res["outcome"] != "hang":
        path2 = os.path.join(tmp, "blockMeshDict.2")
        signal.setitimer(signal.ITIMER_REAL, timeout)
        try:
            mesh.write(path2)
            second["outcome"] = "ok"
            second["text"] = open(path2).read()
            if second.get("stretched"):
                second["internals"] = read_internals(mesh)  # lengths, counts and specifications on the moved vertices
        except Hang:
            second["outcome"] = "hang"
        except Exception as e:
            second["outcome"] = type(e).__name__
            second["message"] = str(e)[:200]
        finally:
            signal.setitimer(signal.ITIMER_REAL, 0)
    # chops placed on the blocks of the assembled mesh afterwards (Block.chop), then a third write
    third: Dict[str, Any] = {}
    if case.get("late") and res["outcome"] != "hang" and second.get("outcome") != "hang":
        try:
            from classy_blocks.grading.chop import Chop

            pos_of = {b: i for i, (b, _, _) in enumerate(ops)}
            for ch in case["late"]:
                b = ch["block"]
                if rots is not None:
                    axis = remap_axis(case["asm"]["blocks"][b]["rot"], rots[b], ch["axis"])
                    calls = remap_calls(case["asm"]["blocks"][b]["rot"], rots[b], ch["axis"], ch["calls"])
                else:
                    axis, calls = ch["axis"], ch["calls"]
                for kw in calls:
                    mesh.blocks[pos_of[b]].chop(axis, Chop(**kw))
        except Exception as e:
            third["late_error"] = repr(e)
        path3 = os.path.join(tmp, "blockMeshDict.3")
        signal.setitimer(signal.ITIMER_REAL, timeout)
        try:
            mesh.write(path3)
            third["outcome"] = "ok"
            third["text"] = open(path3).read()
            third["internals"] = read_internals(mesh)
        except Hang:
            third["outcome"] = "hang"
        except Exception as e:
            third["outcome"] = type(e).__name__
            third["message"] = str(e)[:200]
            third["file_written"] = os.path.exists(path3)
            try:
                third["internals"] = read_internals(mesh)
            except Exception:
                pass
        finally:
            signal.setitimer(signal.ITIMER_REAL, 0)
    signal.signal(signal.SIGALRM, old)
    shutil.rmtree(tmp, ignore_errors=True)
    res["second"] = second
    res["third"] = third
    res["order"] = [b for b, _, _ in ops]
    return res, mesh


def wire_objects(mesh) -> List[Any]:
    ws = []
    for blk in mesh.block_list.blocks:
        for a in range(3):
            ws.extend(blk.axes[a].wires.wires)
    return ws


def read_internals(mesh) -> dict:
    """Schedule and result as the implementation holds them (block index = position in the block list)."""
    blocks = mesh.block_list.blocks
    ws = wire_objects(mesh)
    wid = {id(w): i for i, w in enumerate(ws)}
    aid = {id(blk.axes[a]): 3 * b + a for b, blk in enumerate(blocks) for a in range(3)}
    nbrs = [[aid[id(n)] for n in blk.axes[a].neighbours] for blk in blocks for a in range(3)]
    coinc = [[wid[id(c)] for c in w.coincidents] for w in ws]
    verts = [[v.index for v in blk.vertices] for blk in blocks]
    lens = [w.length for w in ws]
    specs = [[list(s) for s in w.grading.specification] for w in ws]
    counts = []
    simple = []
    for blk in blocks:
        for a in range(3):
            try:
                counts.append(int(blk.axes[a].count))
            except Exception:
                counts.append(-1)
            try:
                simple.append(bool(blk.axes[a].is_simple))
            except Exception:
                simple.append(None)
    return {"nbrs": nbrs, "coinc": coinc, "verts": verts, "lens": lens, "specs": specs, "counts": counts, "simple": simple}


# ----------------------------------------------------------------------------------------- the meaning of a chop
def gp_sum(r: float, n: int) -> float:
    if abs(r - 1) < 1e-13:
        return float(n)
    try:
        return (r**n - 1) / (r - 1)
    except OverflowError:
        return float("inf")


def solve_r_for_start(L: float, n: int, s: float) -> float:
    """c2c ratio r with s * (1 + r + … + r^(n-1)) = L (monotone in r): bisection on log r."""
    if n == 1:
        return 1.0
    f = lambda lr: s * gp_sum(math.exp(lr), n) - L
    lo, hi = -12.0, 12.0
    for _ in range(64):  # 24 / 2**64: below the spacing of floats
        mid = (lo + hi) / 2
        if f(mid) > 0:
            hi = mid
        else:
            lo = mid
    return math.exp((lo + hi) / 2)


def resolve_chops(case: dict, internals: dict) -> Tuple[List[dict], Optional[str]]:
    """For every user chop call: id, axis id (position in the block list), length ratio, resolved count and the
    preserved quantity — count resolution uses the library's own Chop.calculate on the axis' average length
    (that computation is C03's subject), everything else is independent arithmetic."""
    from classy_blocks.grading.chop import Chop

    out = []
    for ch in case["chops"]:
        pos = internals["pos_of_block"][ch["block"]]
        x = 3 * pos + ch["axis_now"]
        avg = sum(internals["lens"][4 * x + k] for k in range(4)) / 4
        for kw in ch["calls_now"]:
            c = Chop(**kw)
            try:
                n, total = c.calculate(avg * c.length_ratio)
            except Exception as e:
                return out, f"calculate failed: {e}"
            out.append(
                {
                    "id": len(out),
                    "x": x,
                    "ratio": c.length_ratio,
                    "count": int(n),
                    "preserve": c.preserve,
                    "value": float(c.results[c.preserve]),
                    "kw": dict(kw),
                }
            )
    return out, None


def expansion(ch: dict, inv: bool, L: float) -> float:
    """Total expansion user chop `ch` means on a wire of length L (times its length ratio); `inv`: the wire runs
    against the chop's direction."""
    n = ch["count"]
    Ls = L * ch["ratio"]
    p, v = ch["preserve"], ch["value"]
    if n == 1:
        return 1.0
    if p == "c2c_expansion":
        r = v
        e = r ** (n - 1)
    elif p == "start_size":
        r = solve_r_for_start(Ls, n, v)
        e = r ** (n - 1)
    else:  # end_size: the mirror image of a start size
        r = solve_r_for_start(Ls, n, v)
        e = 1 / r ** (n - 1)
    return 1 / e if inv else e


def sched_request(internals: dict) -> str:
    """the neighbour / coincident lists as the model builds them from the vertex indexes alone"""
    n = len(internals["verts"])
    return f"c01.sched {n} " + ";".join(",".join(map(str, v)) for v in internals["verts"])


def compare_sched(internals: dict, ans: str) -> Optional[str]:
    """Axis.neighbours and Wire.coincidents of the implementation, in iteration order, against `builtNbrs` / `builtCoinc`"""
    m = re.fullmatch(r"N\[(.*)\] K\[(.*)\]", ans)
    if not m:
        return "unparsable schedule answer " + ans[:80]
    dec = lambda t: [[int(x) for x in part.split(",") if x] for part in t.split(";")]
    nb, co = dec(m.group(1)), dec(m.group(2))
    if nb != internals["nbrs"]:
        k = next(i for i, (a, b) in enumerate(zip(nb, internals["nbrs"])) if a != b)
        return f"Axis.neighbours of axis {k}: implementation {internals['nbrs'][k]}, model {nb[k]}"
    if co != internals["coinc"]:
        k = next(i for i, (a, b) in enumerate(zip(co, internals["coinc"])) if a != b)
        return f"Wire.coincidents of wire {k}: implementation {internals['coinc'][k]}, model {co[k]}"
    return None


def model_request(internals: dict, chops: List[dict]) -> str:
    n = len(internals["verts"])
    verts = ";".join(",".join(map(str, v)) for v in internals["verts"])
    cl = "|".join(f"{c['x']}:{c['id']}:{core.rat(c['ratio'])}:{c['count']}" for c in chops) or "-"
    nbrs = ";".join(",".join(map(str, v)) for v in internals["nbrs"])
    coinc = ";".join(",".join(map(str, v)) for v in internals["coinc"])
    ev = []
    for c in chops:
        for inv in (False, True):
            for w in range(12 * n):
                ev.append(core.rat(expansion(c, inv, internals["lens"][w])))
    return f"c01.run {n} {verts} {cl} {nbrs} {coinc} {len(chops)} [{','.join(ev)}]"


CHOP_FIELDS = ("count", "start_size", "end_size", "c2c_expansion", "total_expansion")
GEO_TOL = "cnt:1/1000000000,root:1/1000000000"


def geo_request(internals: dict, chops: List[dict]) -> str:
    """Request `c04.run` of the composed model (M-PROP with C03's chop calculator inside): vertex indexes, wire lengths
    and the chop arguments as the user typed them.  Counts, preserved quantities, expansions per wire and the schedule
    are computed by the model.  Supplied are only the answers of the numeric solvers (`T**(1/(n-1))`, the root of
    `s (1 + c + … + c^(n-1)) = L`), found here by bisection, which the model validates against the exact
    specification of the step; and, for size+ratio chops, the count the library found, which the model uses only
    where its own exact count differs from it by float rounding of a whole-number quotient."""
    n = len(internals["verts"])
    lens = internals["lens"]
    verts = ";".join(",".join(map(str, v)) for v in internals["verts"])
    ents, oa, ow = [], [], []
    for c in chops:
        kw = c["kw"]
        keys = {k for k in CHOP_FIELDS if kw.get(k) is not None}
        fs = ",".join(f"{k}:{core.rat(kw[k])}" for k in CHOP_FIELDS if kw.get(k) is not None) or "-"
        ents.append(f"{c['x']};{core.rat(c['ratio'])};{c['preserve']};{fs}")
        nn = c["count"]
        x = c["x"]
        La = sum(lens[4 * x + k] for k in range(4)) / 4 * c["ratio"]
        o = None
        try:
            if keys == {"count", "total_expansion"} and nn >= 2:
                o = "c:" + core.rat(kw["total_expansion"] ** (1 / (nn - 1)))
            elif keys == {"count", "start_size"} and nn >= 2 and kw["start_size"] < La:
                o = "c:" + core.rat(solve_r_for_start(La, nn, kw["start_size"]))
            elif keys == {"count", "end_size"} and nn >= 2 and kw["end_size"] < La:
                o = "c:" + core.rat(1 / solve_r_for_start(La, nn, kw["end_size"]))
            elif "count" not in keys:
                o = f"n:{nn}"
        except (OverflowError, ZeroDivisionError, ValueError):
            o = None
        if o:
            oa.append(f"{c['id']};{o}")
        if c["preserve"] != "c2c_expansion" and nn >= 2:
            v = c["value"]
            for inv in (0, 1):
                start_like = (c["preserve"] == "start_size") != bool(inv)
                for w in range(12 * n):
                    L = lens[w] * c["ratio"]
                    if not 0 < v < L * (1 - 1e-9):
                        continue
                    r = solve_r_for_start(L, nn, v)
                    ow.append(f"{c['id']};{inv};{w};c:{core.rat(r if start_like else 1 / r)}")
    ls = ",".join(core.rat(x) for x in lens)
    return f"c04.run {n} {verts} [{ls}] {'|'.join(ents) or '-'} {'|'.join(oa) or '-'} {'|'.join(ow) or '-'} {GEO_TOL}"


def compare_geo(obs: dict, ans: str, level: str = "full") -> Optional[str]:
    """The composed model against the implementation: outcome class, the resolution of every user chop (count and
    preserved quantity), written counts, every wire's specification.  Returns None, a disagreement, or the string
    'boundary' (never: boundaries are resolved inside the model and only counted)."""
    m = re.fullmatch(r"(.*) R\[(.*)\] B\[(.*)\]", ans)
    if not m:
        return "unparsable answer of the composed model: " + ans[:120]
    head, rs, _bs = m.groups()
    # resolution of the user's chops (count on the average length, preserved quantity)
    for ent, c in zip(rs.split("|") if rs else [], obs["chops"]):
        cid, cnt, val = ent.split(":")
        if cnt == "-":
            continue  # the model could not resolve it: its answer is `err chop:<id>:…`, judged below
        if int(cnt) != c["count"]:
            return f"count of chop {c['kw']} on axis {c['x']}: implementation {c['count']}, composed model {cnt}"
        if val != "None":
            mv = float(core.parse_rat(val))
            if abs(mv - c["value"]) > 1e-9 * max(abs(mv), abs(c["value"])):
                return f"preserved {c['preserve']} of chop {c['kw']}: implementation {c['value']}, composed model {mv}"
    if head.startswith("err "):
        kind = head[4:]
        oc = obs["outcome"]
        if kind.startswith(("chop:", "wire:", "trial:")):
            if oc in ("ok", "UndefinedGradingsError", "InconsistentGradingsError"):
                return f"composed model: a chop evaluation raises ({kind}), implementation {oc}"
            if kind.startswith("chop:") and kind.split(":")[2] not in (oc, "Numeric"):
                return f"composed model: {kind}, implementation raised {oc}"
            return None
        if oc not in ERRMAP:
            return None  # the implementation raised inside a calculation before the loop could end (error precedence)
    elif obs["outcome"] not in ERRMAP:
        return f"implementation raised {obs['outcome']} ({obs.get('message')}), composed model {head[:60]}"
    why = compare_with_model(obs, head, level=level)
    return ("composed model: " + why) if why else None


def prepare(case: dict, order=None, rots=None):
    """Runs the implementation once; returns observation dict used by all three properties."""
    res, mesh = run_write(case, order, rots)
    asm = case["asm"]
    pos_of_block = {b: i for i, b in enumerate(res["order"])}
    obs: Dict[str, Any] = {"outcome": res["outcome"], "message": res.get("message"), "file_written": res.get("file_written")}
    if res["outcome"] == "hang":
        return obs
    if "internals" not in res:
        obs["internals_error"] = res.get("internals_error")
        return obs
    internals = res["internals"]
    internals["pos_of_block"] = pos_of_block
    # axis / calls as actually applied
    applied = []
    for ch in case["chops"]:
        b = ch["block"]
        if rots is not None:
            ax = remap_axis(asm["blocks"][b]["rot"], rots[b], ch["axis"])
            calls = remap_calls(asm["blocks"][b]["rot"], rots[b], ch["axis"], ch["calls"])
        else:
            ax, calls = ch["axis"], ch["calls"]
        applied.append({"block": b, "axis_now": ax, "calls_now": calls})
    chops, err = resolve_chops({"chops": applied}, internals)
    obs["internals"] = {k: internals[k] for k in ("nbrs", "coinc", "verts", "lens", "specs", "counts", "simple")}
    obs["chops"] = chops
    obs["chop_error"] = err
    # a preserved size that does not fit on an edge that evaluates the chop cannot be realised (the library raises).
    # Which edges evaluate a chop: those of its own axis, and — when it is the only chopped axis of its family —
    # every edge of the family (copied wires have the length of the wire they copy from).  With several chopped
    # axes in one family, which chop reaches an un-chopped axis depends on the schedule: either outcome is accepted.
    fam_of, members = families(asm)
    n_chopped: Dict[int, int] = {}
    for ch in case["chops"]:
        f = fam_of[(ch["block"], ch["axis"])]
        n_chopped[f] = n_chopped.get(f, 0) + 1
    unreal = None
    extreme = None
    for c in chops:
        if c["preserve"] == "c2c_expansion":
            continue
        b_case = res["order"][c["x"] // 3]
        ax_case = next(ch["axis"] for ch, ap in zip(case["chops"], applied) if ch["block"] == b_case and ap["axis_now"] == c["x"] % 3)
        fam = fam_of[(b_case, ax_case)]
        for (b2, a2) in members[fam]:
            own = (b2, a2) == (b_case, ax_case)
            if rots is not None:
                a2 = remap_axis(asm["blocks"][b2]["rot"], rots[b2], a2)
            x2 = 3 * pos_of_block[b2] + a2
            for k in range(4):
                L = internals["lens"][4 * x2 + k] * c["ratio"]
                msg = f"chop {c} on wire {4 * x2 + k} of length {L}"
                if c["value"] >= L * (1 - 1e-6):
                    if own or n_chopped[fam] == 1:
                        unreal = msg + ": does not fit"
                    else:
                        extreme = msg + ": does not fit if it gets there"
                elif c["count"] >= 2:
                    r = solve_r_for_start(L, c["count"], c["value"])
                    # the library brackets the total expansion within [TOL, 1/TOL]; one decade of margin
                    if not -6 < (c["count"] - 1) * math.log10(r) < 6:
                        extreme = msg + f": needs cell-to-cell ratio {r:.3g}"
    obs["unrealisable"] = unreal
    # sizes that fit only with an extreme ratio, or whose arrival depends on the schedule: either outcome is accepted
    obs["extreme"] = extreme if unreal is None else None
    if res["outcome"] == "ok":
        obs["hex"] = parse_hex_lines(res["text"])
        obs["text_sha"] = __import__("hashlib").sha1(res["text"].encode()).hexdigest()
    obs["order"] = res["order"]
    sec = res.get("second", {})
    obs["second"] = {"outcome": sec.get("outcome"), "message": sec.get("message")}
    obs["second"]["stretched"] = bool(sec.get("stretched"))
    if sec.get("outcome") == "ok":
        obs["second"]["hex"] = parse_hex_lines(sec["text"])
        obs["second"]["same_text"] = sec["text"] == res.get("text")
        if sec.get("stretched"):
            obs["second"]["vertices"] = parse_vertices(sec["text"])
    # the write after the vertex moves as M-HIST with the calculator inside sees it (T_C04_session_geometry_free): a fresh
    # run on the new wire lengths with the same chops as typed.  Only for chops whose evaluation cannot be refused on the
    # new lengths (no preserved or given cell size together with a count: those may stop fitting), so that the count
    # resolution of size-based chops on the new average lengths is what is compared.
    if sec.get("stretched") and sec.get("outcome") == "ok" and "internals" in sec and not (unreal or extreme):
        it2 = sec["internals"]
        it2["pos_of_block"] = pos_of_block
        safe = all(
            kw.get("preserve", "c2c_expansion") == "c2c_expansion" and not ("count" in kw and ("start_size" in kw or "end_size" in kw))
            for ap in applied for kw in ap["calls_now"]
        )
        if safe:
            chops2, err2 = resolve_chops({"chops": applied}, it2)
            if not err2:
                obs["second"]["model"] = {
                    "outcome": "ok", "message": None, "hex": obs["second"]["hex"],
                    "internals": {k: it2[k] for k in ("nbrs", "coinc", "verts", "lens", "specs", "counts", "simple")},
                    "chops": chops2,
                }
    th = res.get("third", {})
    if th:
        obs["third"] = {k: th.get(k) for k in ("outcome", "message", "late_error", "file_written")}
        if th.get("outcome") == "ok":
            obs["third"]["hex"] = parse_hex_lines(th["text"])
        # the session as M-HIST sees it: the same schedule, the chops placed so far (T_C02_session_history_free)
        if "internals" in th and not sec.get("stretched") and not th.get("late_error") and not (unreal or extreme):
            it3 = th["internals"]
            it3["pos_of_block"] = pos_of_block
            late_applied = []
            for ch in case.get("late", []):
                b = ch["block"]
                if rots is not None:
                    ax = remap_axis(asm["blocks"][b]["rot"], rots[b], ch["axis"])
                    calls = remap_calls(asm["blocks"][b]["rot"], rots[b], ch["axis"], ch["calls"])
                else:
                    ax, calls = ch["axis"], ch["calls"]
                late_applied.append({"block": b, "axis_now": ax, "calls_now": calls})
            chops3, err3 = resolve_chops({"chops": applied + late_applied}, it3)
            if not err3:
                obs["third"]["model"] = {
                    "outcome": th.get("outcome"), "message": th.get("message"), "hex": obs["third"].get("hex"),
                    "internals": {k: it3[k] for k in ("nbrs", "coinc", "verts", "lens", "specs", "counts", "simple")},
                    "chops": chops3,
                }
    if "typo_outcome" in res:
        obs["typo"] = {"outcome": res["typo_outcome"], "file_written": res["typo_file_written"]}
    return obs


# ----------------------------------------------------------------------------------------- comparison with the model
def parse_model(ans: str):
    if ans.startswith("err "):
        return {"err": ans[4:]}
    m = re.fullmatch(r"ok C\[(.*)\] S\[(.*)\] W\[(.*)\]", ans)
    if not m:
        return {"err": "unparsable:" + ans[:80]}
    counts = [int(x) for x in m.group(1).split(",")] if m.group(1) else []
    simple = [x == "1" for x in m.group(2).split(",")] if m.group(2) else []
    specs = []
    for w in m.group(3).split(";"):
        secs = []
        if w:
            for s in w.split("+"):
                r, n, e = s.split(":")
                secs.append([core.parse_rat(r), int(n), core.parse_rat(e)])
        specs.append(secs)
    return {"counts": counts, "simple": simple, "specs": specs}


ERRMAP = {"UndefinedGradingsError": "undefined", "InconsistentGradingsError": "inconsistent", "ok": "ok"}


def compare_with_model(obs: dict, ans: str, rel: float = 1e-6, level: str = "full") -> Optional[str]:
    """level 'counts': outcome class, written counts and every wire's section counts (what C01/C02 rest on);
    level 'full': also length ratios, expansions and the simple/edge flags (C04)."""
    if obs["outcome"] == "hang":
        return "implementation hangs (no model outcome is a hang)"
    mo = parse_model(ans)
    want = ERRMAP.get(obs["outcome"], obs["outcome"])
    if "err" in mo:
        return None if mo["err"] == want else f"implementation {want} ({obs.get('message')}), model err {mo['err']}"
    if want != "ok":
        return f"implementation {want} ({obs.get('message')}), model ok"
    it = obs["internals"]
    if mo["counts"] != it["counts"]:
        return f"counts: implementation {it['counts']}, model {mo['counts']}"
    if level == "counts":
        for w, (a, b) in enumerate(zip(it["specs"], mo["specs"])):
            if [int(s[1]) for s in a] != [int(s[1]) for s in b]:
                return f"wire {w} section counts: implementation {a}, model {b}"
        for b, hx in enumerate(obs["hex"]):
            if hx["counts"] != it["counts"][3 * b : 3 * b + 3]:
                return f"hex line {b} counts {hx['counts']} differ from axis counts {it['counts'][3*b:3*b+3]}"
        return None
    if mo["simple"] != it["simple"]:
        return f"is_simple: implementation {it['simple']}, model {mo['simple']}"
    for w, (a, b) in enumerate(zip(it["specs"], mo["specs"])):
        if len(a) != len(b):
            return f"wire {w}: implementation {a}, model {b}"
        for sa, sb in zip(a, b):
            if sa[1] != sb[1] or abs(sa[0] - float(sb[0])) > 1e-9 or abs(sa[2] - float(sb[2])) > rel * max(abs(sa[2]), abs(float(sb[2]))):
                return f"wire {w}: implementation {a}, model {[[float(x[0]), x[1], float(x[2])] for x in b]}"
    # the file shows what the objects hold
    for b, hx in enumerate(obs["hex"]):
        if hx["counts"] != it["counts"][3 * b : 3 * b + 3]:
            return f"hex line {b} counts {hx['counts']} differ from axis counts {it['counts'][3*b:3*b+3]}"
        simple = all(it["simple"][3 * b : 3 * b + 3])
        if (hx["kind"] == "simpleGrading") != simple:
            return f"hex line {b}: {hx['kind']} but is_simple flags {it['simple'][3*b:3*b+3]}"
    return None


# ----------------------------------------------------------------------------------------- oracles on the file
def file_edges(obs: dict) -> List[dict]:
    """Every block edge of the written file: vertex pair (directed), block, axis, count, sections."""
    out = []
    for b, hx in enumerate(obs["hex"]):
        for a in range(3):
            for k, p in enumerate(AXIS_PAIRS[a]):
                ent = hx["entries"][a] if hx["kind"] == "simpleGrading" else hx["entries"][4 * a + k]
                n = hx["counts"][a]
                secs = [[1.0, n, ent]] if not isinstance(ent, list) else ent
                out.append({"b": b, "a": a, "k": k, "v": (hx["verts"][p[0]], hx["verts"][p[1]]), "count": n, "secs": secs})
    return out


def sections_close(s1, s2, tol=1e-5) -> bool:
    if len(s1) != len(s2):
        return False
    for a, b in zip(s1, s2):
        if abs(a[0] - b[0]) > 1e-6 or int(a[1]) != int(b[1]) or abs(a[2] - b[2]) > tol * max(abs(a[2]), abs(b[2])):
            return False
    return True


def invert_sections(s):
    return [[d[0], d[1], 1 / d[2]] for d in reversed(s)]


def oracle_counts(obs: dict) -> List[dict]:
    """C01 on the file: multi-section counts add up to the block count; shared vertex pairs carry one count."""
    out = []
    edges = file_edges(obs)
    by_pair: Dict[frozenset, List[dict]] = {}
    for e in edges:
        if sum(int(s[1]) for s in e["secs"]) != e["count"]:
            out.append({"site": "hex:edge-sections-do-not-add-up-to-block-count", "what": str(e)})
        by_pair.setdefault(frozenset(e["v"]), []).append(e)
    for pair, es in by_pair.items():
        if len({e["count"] for e in es}) > 1:
            out.append(
                {
                    "site": "hex:shared-edge-with-different-counts",
                    "what": f"vertices {sorted(pair)}: " + ", ".join(f"block {e['b']} axis {e['a']} count {e['count']}" for e in es),
                }
            )
            break
    return out


def oracle_sizes(obs: dict) -> List[dict]:
    """C04 on the file: shared edges describe the same cell-size sequence from either block."""
    out = []
    by_pair: Dict[frozenset, List[dict]] = {}
    for e in file_edges(obs):
        by_pair.setdefault(frozenset(e["v"]), []).append(e)
    for pair, es in by_pair.items():
        e0 = es[0]
        for e in es[1:]:
            want = e0["secs"] if e["v"] == e0["v"] else invert_sections(e0["secs"])
            if not sections_close(e["secs"], want):
                out.append(
                    {
                        "site": "hex:shared-edge-with-different-cell-sizes",
                        "what": f"vertices {sorted(pair)}: block {e0['b']} {e0['secs']} vs block {e['b']} {e['secs']} "
                        f"({'same' if e['v'] == e0['v'] else 'opposite'} direction)",
                    }
                )
                return out
    return out


def first_last_size(L: float, n: int, e: float) -> Tuple[float, float]:
    if n == 1:
        return L, L
    r = e ** (1 / (n - 1))
    s = L / gp_sum(r, n)
    return s, s * e


def oracle_preserve(case: dict, obs: dict, vertices: Optional[List[List[float]]] = None) -> List[dict]:
    """C04: a preserved first/last cell size is realised on every edge of the family, at the geometrically same end.
    Only checked for families with exactly one chopped axis whose chop is single-section."""
    out = []
    asm = case["asm"]
    fam_of, members = families(asm)
    edges = file_edges(obs)
    pos_to_b = obs["order"]  # block list position -> block id of the case
    # lattice vertex of a file vertex: through block corners
    for ch in case["chops"]:
        if len(ch["calls"]) != 1:
            continue
        kw = ch["calls"][0]
        pres = kw.get("preserve", "c2c_expansion")
        if pres == "c2c_expansion":
            continue
        fam = fam_of[(ch["block"], ch["axis"])]
        chopped_here = [c for c in case["chops"] if fam_of[(c["block"], c["axis"])] == fam]
        if len(chopped_here) != 1:
            continue
        if pres in kw:
            size = kw[pres]  # the size the user gave explicitly
        elif "count" in kw and ("total_expansion" in kw or "c2c_expansion" in kw) and vertices is None:
            # the size that count and expansion give on the chopped axis itself (its average edge length)
            n = int(kw["count"])
            tot = kw["total_expansion"] if "total_expansion" in kw else kw["c2c_expansion"] ** (n - 1)
            x = 3 * pos_to_b.index(ch["block"]) + ch["axis"]
            avg = sum(obs["internals"]["lens"][4 * x + k] for k in range(4)) / 4
            first, last = first_last_size(avg, n, tot)
            size = first if pres == "start_size" else last
        else:
            continue
        # orientation by BFS over lattice vertex pairs: start vertex of every wire of the family
        start_of: Dict[Tuple[int, int, int], Any] = {}
        wires = []
        for b, a in members[fam]:
            cs = vertex_keys(asm, b)
            for k, p in enumerate(AXIS_PAIRS[a]):
                wires.append((b, a, k, cs[p[0]], cs[p[1]]))
        # the source axis: direction of its own wires
        orient: Dict[Tuple[int, int], int] = {(ch["block"], ch["axis"]): 1}
        known: Dict[frozenset, Any] = {}
        changed, ok = True, True
        while changed and ok:
            changed = False
            for b, a, k, c0, c1 in wires:
                key = frozenset((c0, c1))
                if (b, a) in orient:
                    st = c0 if orient[(b, a)] == 1 else c1
                    if key in known and known[key] != st:
                        ok = False
                        break
                    if key not in known:
                        known[key] = st
                        changed = True
                elif key in known:
                    orient[(b, a)] = 1 if known[key] == c0 else -1
                    changed = True
        if not ok:
            continue  # non-orientable family: 'the same end' is not defined
        for e in edges:
            b = pos_to_b[e["b"]]
            if fam_of.get((b, e["a"])) != fam or len(e["secs"]) != 1:
                continue
            cs = vertex_keys(asm, b)
            p = AXIS_PAIRS[e["a"]][e["k"]]
            c0, c1 = cs[p[0]], cs[p[1]]
            if vertices is not None:  # straight edges, end points as written in this file
                L = math.dist(vertices[e["v"][0]], vertices[e["v"][1]])
            else:
                L = obs["internals"]["lens"][12 * e["b"] + 4 * e["a"] + e["k"]]  # curve length of the edge
            first, last = first_last_size(L, e["count"], e["secs"][0][2])
            at_start_vertex = first if known[frozenset((c0, c1))] == c0 else last
            at_end_vertex = last if known[frozenset((c0, c1))] == c0 else first
            got = at_start_vertex if pres == "start_size" else at_end_vertex
            if abs(got - size) > 1e-4 * size:
                out.append(
                    {
                        "site": "hex:preserved-size-not-realised-at-the-same-end",
                        "what": f"chop {kw} on block {ch['block']} axis {ch['axis']}: block {b} axis {e['a']} wire {e['k']} "
                        f"(L={L:.4f}, n={e['count']}, E={e['secs'][0][2]:.5f}) realises {got:.5f} there, not {size}",
                    }
                )
                return out
    return out


def expected_outcome(case: dict, late: bool = False) -> str:
    """ok | undefined | inconsistent | any — from the families and the user's chops alone
    (`late`: with the chops placed on the assembled mesh after the second write)."""
    fam_of, members = families(case["asm"])
    chopped: Dict[int, List[dict]] = {}
    for ch in case["chops"] + (case.get("late", []) if late else []):
        chopped.setdefault(fam_of[(ch["block"], ch["axis"])], []).append(ch)
    if any(f not in chopped for f in members):
        return "undefined"
    res = "ok"
    for f, chs in chopped.items():
        if len(chs) > 1:
            totals = set()
            for ch in chs:
                if all("count" in kw for kw in ch["calls"]):
                    totals.add(sum(int(kw["count"]) for kw in ch["calls"]))
                else:
                    totals.add(None)
            if None in totals:
                res = "any"
            elif len(totals) > 1:
                return "inconsistent"
            else:
                res = "any"  # same count; whether the cell sizes agree depends on lengths
    return res


# ----------------------------------------------------------------------------------------- shrinking
def shrink_candidates(case: dict) -> List[dict]:
    """Smaller variants of a case: one block less, one chop less, no arcs, no jitter, unit scale, identity numbering."""
    import copy

    out = []
    asm = case["asm"]
    n = len(asm["blocks"])
    if n > 1:
        for b in range(n):
            c = copy.deepcopy(case)
            del c["asm"]["blocks"][b]
            for key in ("chops", "late"):
                if key not in c:
                    continue
                chops = []
                for ci, ch in enumerate(c[key]):
                    if ch["block"] == b:
                        if key == "chops" and c.get("typo") and c["typo"]["chop"] == ci:
                            del c["typo"]
                        continue
                    ch = dict(ch)
                    if ch["block"] > b:
                        ch["block"] -= 1
                    if key == "chops" and c.get("typo") and c["typo"]["chop"] == ci:
                        c["typo"] = dict(c["typo"], chop=len(chops), _moved=True)
                    chops.append(ch)
                c[key] = chops
            if c.get("typo"):
                if not c["typo"].pop("_moved", False):
                    del c["typo"]
            noise = c["asm"].get("noise")
            if noise:
                if noise["block"] == b:
                    del c["asm"]["noise"]
                elif noise["block"] > b:
                    noise["block"] -= 1
            if c["asm"].get("deleted"):
                c["asm"]["deleted"] = [d - (1 if d > b else 0) for d in c["asm"]["deleted"] if d != b]
            if c["asm"].get("cuts"):
                c["asm"]["cuts"] = [cut if "plane" in cut else {k: v - (1 if v > b else 0) for k, v in cut.items()}
                                    for cut in c["asm"]["cuts"] if "plane" in cut or b not in cut.values()]
            out.append(c)
    for i in range(len(case["chops"])):
        c = copy.deepcopy(case)
        del c["chops"][i]
        if c.get("typo"):
            if c["typo"]["chop"] == i:
                del c["typo"]
            elif c["typo"]["chop"] > i:
                c["typo"]["chop"] -= 1
        out.append(c)
    for i in range(len(case.get("late", []))):
        c = copy.deepcopy(case)
        del c["late"][i]
        out.append(c)
    if asm.get("arcs"):
        c = copy.deepcopy(case)
        c["asm"]["arcs"] = []
        out.append(c)
    for key in ("late", "typo", "stretch"):
        if case.get(key):
            c = copy.deepcopy(case)
            del c[key]
            out.append(c)
    if asm.get("noise"):
        c = copy.deepcopy(case)
        del c["asm"]["noise"]
        out.append(c)
    if asm.get("deleted"):
        c = copy.deepcopy(case)
        del c["asm"]["deleted"]
        out.append(c)
    if asm.get("cuts"):
        c = copy.deepcopy(case)
        del c["asm"]["cuts"]
        out.append(c)
    if any(any(v) for v in asm["jitter"].values()):
        c = copy.deepcopy(case)
        c["asm"]["jitter"] = {k: [0.0, 0.0, 0.0] for k in asm["jitter"]}
        out.append(c)
    if asm["scale"] != [1.0, 1.0, 1.0]:
        c = copy.deepcopy(case)
        c["asm"]["scale"] = [1.0, 1.0, 1.0]
        out.append(c)
    ident = ROTS.index(tuple(range(8)))
    for b, blk in enumerate(asm["blocks"]):
        if blk["rot"] != ident and not any(ch["block"] == b for ch in case["chops"]):
            c = copy.deepcopy(case)
            c["asm"]["blocks"][b]["rot"] = ident
            out.append(c)
    for c in out:
        c.pop("origin", None)
    return out


# ----------------------------------------------------------------------------------------- stacks (C04, oracle only)
def parse_vertices(text: str) -> List[List[float]]:
    sec = text.split("vertices")[1].split(");")[0]
    return [[float(x) for x in m.groups()] for m in re.finditer(r"\(\s*(-?[0-9.eE+-]+) (-?[0-9.eE+-]+) (-?[0-9.eE+-]+)\)", sec)]


def gen_stack_case(rng: random.Random) -> dict:
    """A TransformedStack of translated and scaled tiers, chopped along the stack with ONE Stack.chop call: by count
    and expansion, or by a cell size (then every tier — a family of its own — gets the count derived for its height)."""
    end = rng.choice(["start_size", "end_size"])
    if rng.random() < 0.5:
        chop = {"count": rng.randint(4, 9), "c2c_expansion": rng.choice([0.85, 1.1, 1.2]), "preserve": end}
    else:
        chop = {end: rng.choice([0.04, 0.06, 0.09]), "c2c_expansion": rng.choice([1.0, 1.1]), "preserve": rng.choice([end, "c2c_expansion"])}
    return {
        "kind": "stack",
        "nx": rng.randint(1, 3),
        "ny": rng.randint(1, 2),
        "tiers": rng.randint(2, 3),
        "shift": [rng.choice([0.0, 0.2]), rng.choice([0.0, -0.1]), rng.choice([0.6, 1.0, 1.7])],
        "scale": rng.choice([0.6, 0.8, 1.25, 1.5, 2.0]),
        "chop": chop,
    }


def run_stack(case: dict) -> dict:
    """A TransformedStack of scaled tiers chopped with Stack.chop (one chop call for the whole stack) and a preserved
    first/last cell size; written twice.  Observation: vertices and hex lines of the file."""
    import classy_blocks as cb

    warnings.simplefilter("ignore")
    base = cb.Grid([0, 0, 0], [case["nx"] * 1.0, case["ny"] * 0.8, 0], case["nx"], case["ny"])
    stack = cb.TransformedStack(base, [cb.Translation(case["shift"]), cb.Scaling(case["scale"])], case["tiers"])
    for op in stack.shapes[0].operations:
        op.chop(0, count=3)
        op.chop(1, count=2)
    stack.chop(**case["chop"])
    mesh = cb.Mesh()
    mesh.add(stack)
    # the reference: the same chop placed on one operation of every tier, one call each
    base2 = cb.Grid([0, 0, 0], [case["nx"] * 1.0, case["ny"] * 0.8, 0], case["nx"], case["ny"])
    stack2 = cb.TransformedStack(base2, [cb.Translation(case["shift"]), cb.Scaling(case["scale"])], case["tiers"])
    for op in stack2.shapes[0].operations:
        op.chop(0, count=3)
        op.chop(1, count=2)
    for shape in stack2.shapes:
        shape.operations[0].chop(2, **case["chop"])
    mesh2 = cb.Mesh()
    mesh2.add(stack2)
    tmp = tempfile.mkdtemp(prefix="cbv_stack_")
    res: Dict[str, Any] = {"ops_per_tier": case["nx"] * case["ny"]}
    try:
        for k, m in (("first", mesh), ("second", mesh), ("reference", mesh2)):
            path = os.path.join(tmp, k)
            try:
                m.write(path)
                text = open(path).read()
                res[k] = {"outcome": "ok", "hex": parse_hex_lines(text), "vertices": parse_vertices(text)}
            except Exception as e:
                res[k] = {"outcome": type(e).__name__, "message": str(e)[:200]}
    finally:
        shutil.rmtree(tmp, ignore_errors=True)
    return res


def oracle_stack(case: dict, impl: dict) -> List[dict]:
    """Within every tier the preserved first (last) cell size is the same on every edge of the stacking direction."""
    out = []
    pres = case["chop"].get("preserve")
    ref = impl.get("reference", {})
    for k in ("first", "second"):
        r = impl.get(k, {})
        if r.get("outcome") != "ok":
            # (when the same chops placed operation by operation are refused as well — a preserved size that does not fit
            # on a shorter edge of a strongly scaled tier — the refusal is not Stack.chop's doing)
            if ref.get("outcome") == "ok":
                out.append({"site": f"Stack.chop:write-fails:{k}", "what": str(r)[:200]})
            continue
        # one count per tier (every block of a tier belongs to the family of the tier's chop) ...
        for v in oracle_counts({"hex": r["hex"]}):
            v["site"] = "Stack.chop:" + v["site"] + f":{k}-write"
            out.append(v)
        # ... and it is the count the same chop gives when placed on the operations one by one
        if ref.get("outcome") == "ok" and [h["counts"] for h in r["hex"]] != [h["counts"] for h in ref["hex"]]:
            out.append({"site": f"Stack.chop:counts-differ-from-per-operation-chops:{k}-write",
                        "what": f"{[h['counts'] for h in r['hex']]} vs {[h['counts'] for h in ref['hex']]}"})
        per_tier: Dict[int, List[float]] = {}
        for b, hx in enumerate(r["hex"]):
            for kk, p in enumerate(AXIS_PAIRS[2]):
                ent = hx["entries"][2] if hx["kind"] == "simpleGrading" else hx["entries"][8 + kk]
                if isinstance(ent, list):
                    continue
                L = math.dist(r["vertices"][hx["verts"][p[0]]], r["vertices"][hx["verts"][p[1]]])
                first, last = first_last_size(L, hx["counts"][2], ent)
                per_tier.setdefault(b // impl["ops_per_tier"], []).append(first if pres == "start_size" else last)
        if pres in ("start_size", "end_size"):
            for t, sizes in per_tier.items():
                if max(sizes) - min(sizes) > 1e-4 * max(sizes):
                    out.append(
                        {
                            "site": f"Stack.chop:preserved-size-differs-within-tier:{k}-write",
                            "what": f"tier {t}: {pres} realised as {sorted(set(round(x, 6) for x in sizes))}",
                        }
                    )
                    break
    return out
