"""C14 — the quality measure depends only on the cell's shape."""

from __future__ import annotations

import json
import math
import random
import struct
import sys
from fractions import Fraction
from typing import Any, Dict, List, Optional

from .. import core
from .c15 import ROT24, _bits

F = Fraction

# blockMesh hexahedron: the six faces as loops (independent of the repository's tables)
FACE_LOOPS = [[0, 1, 2, 3], [4, 5, 6, 7], [0, 3, 7, 4], [1, 2, 6, 5], [0, 1, 5, 4], [3, 2, 6, 7]]
ROT4 = [[(i + r) % 4 for i in range(4)] for r in range(4)]

VSMALL = 1e-6  # the library's small-number guard, as documented (constants.VSMALL)


def _tol(q: float, cond: float) -> float:
    """allowed |implementation - model| for a quality value q whose worst arccos argument is `cond` = 1 - cos^2 away from
    +-1: 1e-9 relative for the well-conditioned part, plus the rounding of the argument (~2e-13 with cancellation in the
    differences of moved points) amplified by 1/sqrt(cond) and by the slope of the q_scale terms (<= 0.08*(|q|+20) per degree
    -> folded into the constant), capped where the sqrt-amplified ulp at cos = +-1 itself ends (1e-7)"""
    return 1e-9 * max(1.0, abs(q)) + (abs(q) + 20.0) * min(1e-7, 2e-13 / math.sqrt(cond + 1e-30))


def _container(fp, kind: str):
    """the same coordinates handed over in another container type: a float ndarray is what Mesh / Sketch pass; a grid may
    also be built directly from an integer ndarray (whole-number coordinates), nested lists or a list of tuples"""
    import numpy as np

    if kind == "float":
        return np.array(fp, dtype=float)
    if kind == "int":
        assert all(float(x).is_integer() for p in fp for x in p)
        return np.array([[int(x) for x in p] for p in fp])
    if kind == "intlist":
        assert all(float(x).is_integer() for p in fp for x in p)
        return [[int(x) for x in p] for p in fp]
    if kind == "floatlist":
        return [[float(x) for x in p] for p in fp]
    if kind == "tuples":
        return [tuple(float(x) for x in p) for p in fp]
    raise ValueError(kind)


def _bits_to_float(s: str) -> float:
    return struct.unpack("d", struct.pack("Q", int(s)))[0]


def _rotate(q: List[int], v: List[Fraction]) -> List[Fraction]:
    """rotation by the (unnormalised) integer quaternion q = (w, x, y, z), exact"""
    w, x, y, z = (F(c) for c in q)
    n = w * w + x * x + y * y + z * z
    m = [
        [w * w + x * x - y * y - z * z, 2 * (x * y - w * z), 2 * (x * z + w * y)],
        [2 * (x * y + w * z), w * w - x * x + y * y - z * z, 2 * (y * z - w * x)],
        [2 * (x * z - w * y), 2 * (y * z + w * x), w * w - x * x - y * y + z * z],
    ]
    return [sum(m[r][c] * v[c] for c in range(3)) / n for r in range(3)]


def transform_points(pts: List[List[Fraction]], t: dict) -> List[List[Fraction]]:
    out = pts
    if t.get("quat"):
        out = [_rotate(t["quat"], p) for p in out]
    k = F(t.get("scale", "1"))
    out = [[k * c for c in p] for p in out]
    tr = [F(c) for c in t.get("trans", ["0", "0", "0"])]
    return [[c + d for c, d in zip(p, tr)] for p in out]


def transform_cells(cells: List[List[int]], t: dict) -> List[List[int]]:
    sig = t.get("sigma")
    if not sig:
        return [list(c) for c in cells]
    return [[c[s[i]] for i in range(len(c))] if s else list(c) for c, s in zip(cells, sig)]


def _dy(rng: random.Random, lo: float, hi: float, den: int = 64) -> Fraction:
    return F(rng.randint(int(lo * den), int(hi * den)), den)


def _vol_ok(pts, cell) -> bool:
    """all eight corner Jacobians of the hexahedron positive (right-handed, not folded)"""
    P = [[float(x) for x in pts[i]] for i in cell]
    for c in range(8):
        b = _bits(c)
        nb = []
        for ax in range(3):
            bb = list(b)
            bb[ax] ^= 1
            o = next(k for k in range(8) if list(_bits(k)) == bb)
            v = [P[o][d] - P[c][d] for d in range(3)]
            if b[ax]:
                v = [-x for x in v]
            nb.append(v)
        det = (nb[0][0] * (nb[1][1] * nb[2][2] - nb[1][2] * nb[2][1]) - nb[0][1] * (nb[1][0] * nb[2][2] - nb[1][2] * nb[2][0])
               + nb[0][2] * (nb[1][0] * nb[2][1] - nb[1][1] * nb[2][0]))
        if det < 0.05:
            return False
    return True


class C14(core.Check):
    pid = "C14"
    props_module = "CBV.Props.C14"
    workers = 8
    rule = (
        "cells: convex hexahedra (unit cube jittered by up to 0.25, or a sheared/stretched parallelepiped with jitter) and "
        "planar convex quadrilaterals (jittered square or sheared/stretched), dyadic coordinates, 0..6 (hex) / 0..4 (quad) "
        "sides with a neighbour cell; small jittered 2x2(x1) grids; every case is evaluated under the identity and 5 (quick) "
        "or all 24/4 + 8 (thorough) transformations: rotational corner renumbering of every cell, rotation by a random "
        "rational quaternion, translation, uniform scale factor in 0.1..100 (and combinations). Stretch cases: a cube / "
        "square of side 0.5..100 under a random rigid motion, stretched by two factors 1 <= s1 < s2 <= 10 along each of its "
        "directions. Histories: one grid object on a jittered row of 2..4 cells through read / grid.update(i, position) steps, "
        "or a rigid motion of the whole grid out of its plane (point by point or written at once), "
        "compared at every read with a freshly built grid and at the end with fresh grids on rigidly moved points. "
        "Containers: whole-number coordinates as int array / int lists / float lists / tuples next to the float array, under "
        "whole-number translations and quarter turns; histories also on such containers. "
        "Boundary stream: degenerate cells (coincident points). Non-trivial = not degenerate; distinct = "
        "different case dict."
    )
    assumptions = [
        "implementation value vs model value G(Sig): 1e-9*max(1,|q|) + (|q|+20)*min(1e-7, 2e-13/sqrt(cond)), cond = distance of the worst "
        "arccos argument from +-1 (at least 2e-6 relative when an arccos argument is within 1e-7 of +-1, "
        "where the float evaluation of either side is ill-conditioned)",
        "oracle, rigid motion / renumbering: values equal within 2e-6*max(1,|q|) (float rounding of the transformed coordinates)",
        "oracle, scaling: exact clause on the implementation with the guard VSMALL patched to 0 (2e-6 relative); with the real "
        "guard only the envelope |dq| <= (q+20)*(0.00633/sqrt(min triangle area)+0.0117/sqrt(min edge)+1.2e-6/min edge), summed "
        "for both sizes, i.e. the largest possible effect of adding 1e-6 to the norms before arccos",
        "oracle, stretch: value does not drop by more than 1e-6 and is equal (2e-6 relative) for the three directions; "
        "cube sides >= 0.5 (below ~0.02 the guard term outweighs the aspect term)",
    ]
    partial_note = (
        "Scale invariance is exact for the scale-free signature Sig0 (guard = 0); with the guard, the change of every guarded "
        "arccos / log10 argument of the scaled cell is bounded (T_C14_guard_scale: e/(k^2|n|), e/(k|s1|)+e/(k|s2|), relative "
        "e/(k min edge)), the propagation through acos/pow/log10 is not a theorem (implementation: unit cube 0.173, 0.1 cube "
        "1.80, 100 cube 0.0017, envelope-checked); for every Lipschitz post-processing the bound on the value is a theorem "
        "(T_C14_guard_value). The stretch clause is a theorem for every monotone aspect term, in particular q_scale with the regenerated "
        "constants (T_C14_stretch_value, T_C14_stretch_aspect_term); that the float acos/pow/log10 satisfy that contract is assumed and "
        "checked by the oracle. Quad renumbering is proved on Sig0 for planar convex quadrilaterals (= all four "
        "corner normals positively parallel) and disproved by counterexample for a concave and a non-planar one."
    )

    def static_checks(self) -> List[str]:
        """the renumberings the harness applies are exactly the 24 rotations the theorem T_C14_renumber quantifies over"""
        try:
            ans = core.run_driver(["c14.rot24"])[0]
        except Exception as e:  # the build is broken; reported by the pipeline already
            return [f"model does not answer c14.rot24 ({type(e).__name__})"]
        model = sorted(tuple(int(x) for x in r.strip("[]").split(",")) for r in ans.split(";")) if ans != "bad-op" else []
        if model != sorted(tuple(r) for r in ROT24):
            return ["the harness' 24 rotations differ from the model's rot24"]
        return []

    # ------------------------------------------------------------------ generators
    def _hex_cell(self, rng: random.Random, far: bool):
        while True:
            base = [[F(b) for b in _bits(c)] for c in range(8)]
            if far:
                m = [[_dy(rng, -1, 1, 8) for _ in range(3)] for _ in range(3)]
                for d in range(3):
                    m[d][d] = _dy(rng, 1, 4, 8)
                base = [[sum(m[r][c] * p[c] for c in range(3)) for r in range(3)] for p in base]
            amp = 0.25 if not far else 0.2
            pts = [[x + _dy(rng, -amp, amp) for x in p] for p in base]
            if _vol_ok(pts, list(range(8))):
                return pts

    def _with_hex_neighbours(self, rng, pts):
        cells = [list(range(8))]
        ctr = [sum(p[d] for p in pts) / 8 for d in range(3)]
        for loop in FACE_LOOPS:
            if rng.random() < 0.5:
                continue
            fc = [sum(pts[i][d] for i in loop) / 4 for d in range(3)]
            out = [(fc[d] - ctr[d]) * _dy(rng, 1, 3, 4) for d in range(3)]
            new = []
            for i in loop:
                new.append(len(pts))
                pts.append([pts[i][d] + out[d] + _dy(rng, -0.15, 0.15) for d in range(3)])
            # orient: loop's right-hand normal vs outward direction
            a, b, c = (pts[loop[0]], pts[loop[1]], pts[loop[3]])
            u = [float(b[d] - a[d]) for d in range(3)]
            v = [float(c[d] - a[d]) for d in range(3)]
            nrm = [u[1] * v[2] - u[2] * v[1], u[2] * v[0] - u[0] * v[2], u[0] * v[1] - u[1] * v[0]]
            outward = sum(nrm[d] * float(out[d]) for d in range(3)) > 0
            cells.append(loop + new if outward else new + loop)
        return pts, cells

    def _quad_cell(self, rng: random.Random, far: bool):
        while True:
            base = [[F(0), F(0)], [F(1), F(0)], [F(1), F(1)], [F(0), F(1)]]
            if far:
                m = [[_dy(rng, 1, 4, 8), _dy(rng, -1, 1, 8)], [_dy(rng, -1, 1, 8), _dy(rng, 1, 4, 8)]]
                base = [[m[0][0] * p[0] + m[0][1] * p[1], m[1][0] * p[0] + m[1][1] * p[1]] for p in base]
            pts = [[p[0] + _dy(rng, -0.25, 0.25), p[1] + _dy(rng, -0.25, 0.25), F(0)] for p in base]
            ok = True
            for i in range(4):
                a, b, c = pts[i], pts[(i + 1) % 4], pts[(i + 3) % 4]
                cr = (b[0] - a[0]) * (c[1] - a[1]) - (b[1] - a[1]) * (c[0] - a[0])
                ok = ok and cr > F(1, 10)
            if ok:
                return pts

    @staticmethod
    def _convex_quad(pts, cell) -> bool:
        """planar quadrilateral (z = 0 here) whose four corner turns have the same sign, with a margin"""
        turns = []
        for i in range(4):
            a, b, c = pts[cell[i]], pts[cell[(i + 1) % 4]], pts[cell[(i + 3) % 4]]
            turns.append((b[0] - a[0]) * (c[1] - a[1]) - (b[1] - a[1]) * (c[0] - a[0]))
        return all(t > F(1, 10) for t in turns) or all(t < -F(1, 10) for t in turns)

    def _with_quad_neighbours(self, rng, pts):
        cells = [[0, 1, 2, 3]]
        ctr = [sum(p[d] for p in pts) / 4 for d in range(3)]
        for i in range(4):
            if rng.random() < 0.5:
                continue
            a, b = i, (i + 1) % 4
            fc = [(pts[a][d] + pts[b][d]) / 2 for d in range(3)]
            for _attempt in range(20):
                out = [(fc[d] - ctr[d]) * _dy(rng, 1, 3, 4) for d in range(3)]
                pa = [pts[a][d] + out[d] + (_dy(rng, -0.15, 0.15) if d < 2 else 0) for d in range(3)]
                pb = [pts[b][d] + out[d] + (_dy(rng, -0.15, 0.15) if d < 2 else 0) for d in range(3)]
                trial = pts + [pa, pb]
                cell = [b, a, len(pts), len(pts) + 1]
                if self._convex_quad(trial, cell):  # the property quantifies over convex quadrilaterals only
                    pts = trial
                    cells.append(cell)
                    break
        return pts, cells

    def _row(self, rng, kind, ncell):
        """a jittered row of `ncell` cells (cell i and i+1 share a side; the end cells have points of their own)"""
        while True:
            if kind == "quad":
                idx = lambda i, j: j * (ncell + 1) + i
                pts = [[F(i) + _dy(rng, -0.15, 0.15), F(j) + _dy(rng, -0.15, 0.15), F(0)] for j in range(2) for i in range(ncell + 1)]
                cells = [[idx(i, 0), idx(i + 1, 0), idx(i + 1, 1), idx(i, 1)] for i in range(ncell)]
                if all(self._convex_quad(pts, c) for c in cells):
                    return pts, cells
            else:
                idx = lambda i, j, k: (k * 2 + j) * (ncell + 1) + i
                pts = [[F(i) + _dy(rng, -0.15, 0.15), F(j) + _dy(rng, -0.15, 0.15), F(k) + _dy(rng, -0.15, 0.15)]
                       for k in range(2) for j in range(2) for i in range(ncell + 1)]
                cells = [[idx(i + a, b, c) for (a, b, c) in (_bits(q) for q in range(8))] for i in range(ncell)]
                if all(_vol_ok(pts, c) for c in cells):
                    return pts, cells

    def _inner_grid(self, rng, kind):
        """a jittered structured grid that has interior points (so that smoothing moves something): 2x2 / 3x2 quads, 2x2x2 hexahedra"""
        from .c15 import _extrude, _structured_quads

        if kind == "quad":
            pq, cq = _structured_quads(rng.choice([2, 3]), 2)
            while True:
                pts = [[p[0] + _dy(rng, -0.2, 0.2), p[1] + _dy(rng, -0.2, 0.2), F(0)] for p in pq]
                if all(self._convex_quad(pts, c) for c in cq):
                    return pts, [list(c) for c in cq]
        pq, cq = _structured_quads(2, 2)
        p3, c3 = _extrude(pq, cq, 2)
        while True:
            pts = [[x + _dy(rng, -0.15, 0.15) for x in p] for p in p3]
            if all(_vol_ok(pts, c) for c in c3):
                return pts, [list(c) for c in c3]

    def _small_grid(self, rng, kind):
        from .c15 import _extrude, _structured_quads

        pq, cq = _structured_quads(2, rng.choice([1, 2]))
        if kind == "quad":
            while True:
                pts = [[p[0] + _dy(rng, -0.2, 0.2), p[1] + _dy(rng, -0.2, 0.2), F(0)] for p in pq]
                if all(self._convex_quad(pts, c) for c in cq):
                    return pts, cq
        p3, c3 = _extrude(pq, cq, 1)
        pts = [[x + _dy(rng, -0.2, 0.2) for x in p] for p in p3]
        return pts, c3

    def _quat_oblique(self, rng):
        """a rotation about an axis that is not the z axis (turns a sketch out of its plane), by a sizeable angle"""
        while True:
            q = [rng.randint(-4, 4) for _ in range(4)]
            if q[0] and (q[1] or q[2]) and 4 * (q[1] ** 2 + q[2] ** 2 + q[3] ** 2) >= q[0] ** 2:
                return q

    def _quat(self, rng):
        while True:
            q = [rng.randint(-6, 6) for _ in range(4)]
            if any(q[1:]) and q[0]:
                return q

    def _transforms(self, rng, kind, ncells, tier, all_rot=False):
        rots = ROT24 if kind == "hex" else ROT4
        sc = lambda: str(F(rng.choice([1, 2, 3, 5, 7, 13, 30, 64, 100]), rng.choice([1, 1, 2, 10])))
        tr = lambda: [str(_dy(rng, -20, 20, 8)) for _ in range(3)]
        ts: List[dict] = [{}]
        ts.append({"sigma": [rng.choice(rots) for _ in range(ncells)]})
        ts.append({"quat": self._quat(rng), "trans": tr()})
        ts.append({"scale": sc()})
        ts.append({"trans": tr()})
        # round 6b: placements far from the origin compared with the size of the cell (georeferenced coordinates):
        # whole-number offsets of 2^20..2^23, alone, with a renumbering, with an exact quarter / half / third turn.
        # The points are dyadic (1/64 .. 1/8), so the moved coordinates are exactly representable and the unchanged
        # code computes the very same edge vectors and centres: the value must not change at all (2e-6 allowed).
        far = lambda: [str(rng.choice([-1, 1]) * 2 ** rng.randint(20, 23) + rng.randint(-1000, 1000)) for _ in range(3)]
        exact_turns = [[1, 1, 0, 0], [1, 0, 1, 0], [1, 0, 0, 1], [0, 1, 0, 0], [0, 0, 1, 0], [1, -1, 0, 0], [1, 1, 1, 1]]
        ts.append({"trans": far()})
        if tier == "thorough":
            ts.append({"sigma": [rng.choice(rots) for _ in range(ncells)], "trans": far()})
            ts.append({"quat": rng.choice(exact_turns), "trans": far()})
        else:
            ts.append({"sigma": [rng.choice(rots) for _ in range(ncells)], "quat": rng.choice(exact_turns), "trans": far()})
        ts.append({"sigma": [rng.choice(rots) for _ in range(ncells)], "quat": self._quat(rng), "trans": tr(), "scale": sc()})
        if all_rot:
            for s in rots:
                ts.append({"sigma": [s] + [rng.choice(rots) for _ in range(ncells - 1)]})
            for _ in range(8):
                ts.append({"sigma": [rng.choice(rots) for _ in range(ncells)], "quat": self._quat(rng), "trans": tr(),
                           "scale": sc()})
        return ts

    def gen_cases(self, rng: random.Random, tier: str) -> List[dict]:
        n = 80 if tier == "quick" else 300
        cases: List[dict] = []
        S = lambda pts: [[str(x) for x in p] for p in pts]
        for k in range(n):
            kind = "hex" if rng.random() < 0.55 else "quad"
            r = rng.random()
            if r < 0.8:
                far = rng.random() < 0.5
                if kind == "hex":
                    pts, cells = self._with_hex_neighbours(rng, self._hex_cell(rng, far))
                else:
                    pts, cells = self._with_quad_neighbours(rng, self._quad_cell(rng, far))
                tag = ("far" if far else "near") + f"+{len(cells) - 1}nb"
            else:
                pts, cells = self._small_grid(rng, kind)
                tag = "grid"
            # size of the base cell: well above the guard
            k0 = F(rng.choice([1, 1, 2, 5, 20]))
            pts = [[k0 * x for x in p] for p in pts]
            cases.append({"kind": kind, "tag": tag, "points": S(pts), "cells": cells,
                          "transforms": self._transforms(rng, kind, len(cells), tier, all_rot=(tier == "thorough" or k % 10 == 0))})
        # stretch: cube/square of side L under a rigid motion, stretched along each direction
        for _ in range(n // 3):
            kind = "hex" if rng.random() < 0.6 else "quad"
            L = F(rng.choice([1, 1, 2, 3, 10, 40, 100]), rng.choice([1, 1, 2]))
            s1 = F(rng.randint(8, 40), 8)
            s2 = s1 + F(rng.randint(1, 40), 8)
            cases.append({"kind": kind, "tag": "stretch", "side": str(L), "factors": [str(s1), str(s2)],
                          "quat": self._quat(rng) if rng.random() < 0.7 else None,
                          "trans": [str(_dy(rng, -20, 20, 8)) for _ in range(3)]})
        # ---- round 4: whole-number coordinates handed over as integer arrays / lists (a grid can be built directly from them)
        quarter = [[1, 1, 0, 0], [1, 0, 1, 0], [1, 0, 0, 1], [0, 1, 0, 0], [0, 0, 1, 0], [1, -1, 0, 0], [0, 1, 1, 0], [1, 1, 1, 1]]
        for k in range(max(6, n // 8)):
            kind = "hex" if rng.random() < 0.5 else "quad"
            far = rng.random() < 0.5
            if kind == "hex":
                pts, cells = self._with_hex_neighbours(rng, self._hex_cell(rng, far))
            else:
                pts, cells = self._with_quad_neighbours(rng, self._quad_cell(rng, far))
            # all coordinates are dyadic: times the largest denominator every coordinate is a whole number
            mult = max(x.denominator for p in pts for x in p)
            pts = [[mult * x for x in p] for p in pts]
            ts: List[dict] = [{}]
            for _ in range(4):
                t: Dict[str, Any] = {}
                if rng.random() < 0.7:
                    t["trans"] = [str(rng.randint(-3000, 3000)) for _ in range(3)]
                if rng.random() < 0.6:
                    t["quat"] = rng.choice(quarter if kind == "hex" else [[1, 0, 0, 1], [0, 0, 0, 1], [1, 0, 0, -1]] + quarter)
                if t:
                    ts.append(t)
            cases.append({"kind": kind, "tag": "containers", "points": S(pts), "cells": cells, "transforms": ts,
                          "containers": ["int", "intlist", "floatlist", "tuples"]})
        # ---- round 2: histories on one grid: read, grid.update(i, position), read ... compared with freshly built grids
        for k in range(max(6, n // 3)):
            kind = "hex" if rng.random() < 0.5 else "quad"
            ncell = rng.randint(2, 4)
            pts, cells = self._row(rng, kind, ncell)
            k0 = F(rng.choice([1, 1, 2, 5]))
            pts = [[k0 * x for x in p] for p in pts]
            npts = len(pts)
            cur = [list(p) for p in pts]
            hops: List[list] = [["R"]]
            r3 = rng.random()
            if r3 < 0.3 and k % 2 == 0:
                # round 6b: the points of the SAME grid object are changed *in place* after a first read — a single
                # `grid.points[i] = …`, a whole-array write of jittered points, or the library's own smoother working on
                # this grid (`SmootherBase(grid).smooth(k)` writes `grid.points[...]` directly) — and read again
                pts, cells = self._inner_grid(rng, kind)
                pts = [[k0 * x for x in p] for p in pts]
                npts = len(pts)
                cur = [list(p) for p in pts]
                hops = [["R"]]
                for _ in range(rng.randint(1, 3)):
                    r4 = rng.random()
                    if r4 < 0.4:
                        hops.append(["Sm", rng.choice([1, 2, 5])])
                    elif r4 < 0.75:
                        i = rng.randrange(npts)
                        d = [k0 * _dy(rng, -0.15, 0.15), k0 * _dy(rng, -0.15, 0.15), k0 * _dy(rng, -0.15, 0.15) if kind == "hex" else F(0)]
                        hops.append(["E", i, [str(d0) for d0 in d]])  # displacement, added to the position of that moment
                    else:
                        hops.append(["J", [[str(k0 * _dy(rng, -0.1, 0.1)), str(k0 * _dy(rng, -0.1, 0.1)),
                                            str(k0 * _dy(rng, -0.1, 0.1)) if kind == "hex" else "0"] for _ in range(npts)]])
                    hops.append(["R"])
                moves = [{"trans": [str(_dy(rng, -20, 20, 8)) for _ in range(3)]},
                         {"quat": self._quat(rng), "trans": [str(_dy(rng, -20, 20, 8)) for _ in range(3)]}]
                cases.append({"kind": kind, "tag": "history-inplace", "cls": "history", "points": S(pts), "cells": cells,
                              "hops": hops, "moves": moves, "container": "float"})
                continue
            if r3 < 0.3:
                # round 3: the whole grid is rotated rigidly (quads: out of their plane) on the SAME grid object, once or
                # twice, either point after point through grid.update or by writing grid.points at once (as the smoother does)
                for _ in range(rng.randint(1, 2)):
                    t = {"quat": self._quat_oblique(rng), "trans": [str(k0 * _dy(rng, -1, 1)) for _ in range(3)]}
                    cur = transform_points(cur, t)
                    cur = [[F(float(x)) for x in p] for p in cur]  # what the float array will hold
                    if rng.random() < 0.5:
                        hops.append(["W", [[str(x) for x in p] for p in cur]])
                    else:
                        order = list(range(npts))
                        rng.shuffle(order)
                        for i in order:
                            hops.append(["U", i, [str(x) for x in cur[i]]])
                    hops.append(["R"])
                tag = "history-rotate"
            elif r3 < 0.5:
                # a translation carried out point after point
                shift = [k0 * _dy(rng, -0.5, 0.5), k0 * _dy(rng, -0.5, 0.5), k0 * _dy(rng, -0.5, 0.5) if kind == "hex" else F(0)]
                order = list(range(npts))
                rng.shuffle(order)
                for i in order:
                    cur[i] = [a + b for a, b in zip(cur[i], shift)]
                    hops.append(["U", i, [str(x) for x in cur[i]]])
                    if rng.random() < 0.15:
                        hops.append(["R"])
                tag = "history-translate"
            else:
                end_only = [i for i in cells[0] if i not in cells[1]] + [i for i in cells[-1] if i not in cells[-2]]
                for _ in range(rng.randint(1, 4)):
                    i = rng.choice(end_only) if rng.random() < 0.7 else rng.randrange(npts)
                    d = [k0 * _dy(rng, -0.2, 0.2), k0 * _dy(rng, -0.2, 0.2), k0 * _dy(rng, -0.2, 0.2) if kind == "hex" else F(0)]
                    cur[i] = [a + b for a, b in zip(cur[i], d)]
                    hops.append(["U", i, [str(x) for x in cur[i]]])
                    if rng.random() < 0.4:
                        hops.append(["R"])
                tag = "history"
            if hops[-1] != ["R"]:
                hops.append(["R"])
            moves = [{"trans": [str(_dy(rng, -20, 20, 8)) for _ in range(3)]},
                     {"quat": self._quat(rng), "trans": [str(_dy(rng, -20, 20, 8)) for _ in range(3)]}]
            # round 4: the grid's own point container need not be a float ndarray (whole-number histories also as int array)
            cont = rng.choice(["float", "float", "floatlist", "tuples", "intlist" if tag != "history-rotate" else "floatlist",
                               "int" if tag != "history-rotate" else "tuples"])
            if cont in ("int", "intlist"):
                pts = [[64 * x for x in p] for p in pts]
                hops = [op if op[0] == "R" else ["U", op[1], [str(64 * F(x)) for x in op[2]]] for op in hops]
            cases.append({"kind": kind, "tag": tag, "cls": "history", "points": S(pts), "cells": cells, "hops": hops,
                          "moves": moves, "container": cont})
        # boundary stream: degenerate cells
        cases.append({"kind": "quad", "tag": "degenerate", "points": S([[0, 0, 0], [0, 0, 0], [1, 1, 0], [0, 1, 0]]),
                      "cells": [[0, 1, 2, 3]], "transforms": [{}, {"sigma": [ROT4[1]]}]})
        cases.append({"kind": "hex", "tag": "degenerate", "points": S([[1, 2, 3]] * 8), "cells": [list(range(8))],
                      "transforms": [{}]})
        cases.append({"kind": "quad", "tag": "degenerate", "points": S([[0, 0, 0], [1, 0, 0], [2, 0, 0], [3, 0, 0]]),
                      "cells": [[0, 1, 2, 3]], "transforms": [{}]})
        return cases

    # ------------------------------------------------------------------ expansion of a case into evaluations
    @staticmethod
    def _stretch_grids(case):
        L = F(case["side"])
        dims = 3 if case["kind"] == "hex" else 2
        grids = []
        for s in [F(1)] + [F(x) for x in case["factors"]]:
            for d in range(dims):
                if case["kind"] == "hex":
                    base = [[F(b) * L for b in _bits(c)] for c in range(8)]
                else:
                    base = [[F(0), F(0), F(0)], [L, F(0), F(0)], [L, L, F(0)], [F(0), L, F(0)]]
                pts = [[x * (s if k == d else 1) for k, x in enumerate(p)] for p in base]
                pts = transform_points(pts, {"quat": case.get("quat"), "trans": case["trans"]})
                grids.append((str(s), d, pts, [list(range(len(base)))]))
        return grids

    def _grids(self, case):
        """list of (points as Fractions, cells) the implementation and the model are evaluated on"""
        if case["tag"] == "stretch":
            return [(p, c) for _, _, p, c in self._stretch_grids(case)]
        pts = [[F(x) for x in p] for p in case["points"]]
        return [(transform_points(pts, t), transform_cells(case["cells"], t)) for t in case["transforms"]]

    # ------------------------------------------------------------------ implementation
    def run_impl(self, case: dict) -> Any:
        import warnings

        import numpy as np

        import classy_blocks.optimize.cell as cellmod
        from classy_blocks.optimize.grid import HexGrid, QuadGrid

        cls = HexGrid if case["kind"] == "hex" else QuadGrid
        if case.get("cls") == "history":
            return self._run_history(case, cls)
        evals = []
        for pts, cells in self._grids(case):
            fp = np.array([[float(x) for x in p] for p in pts], dtype=float)
            entry: Dict[str, Any] = {"points": [[core.rat(float(x)) for x in p] for p in fp], "cells": cells}
            for key, eps in (("q", None), ("q0", 0.0)):
                saved = cellmod.VSMALL
                try:
                    if eps is not None:
                        cellmod.VSMALL = eps
                    grid = cls(fp.copy(), [list(c) for c in cells])
                    vals: List[Any] = []
                    for c in grid.cells:
                        try:
                            with warnings.catch_warnings():
                                vals.append(float(c.quality))
                        except ValueError:
                            vals.append("degenerate")
                    entry[key] = vals
                    if key == "q":
                        try:
                            entry["grid_q"] = float(grid.quality)
                        except ValueError:
                            entry["grid_q"] = "degenerate"
                        entry["min_edge"] = [float(min(np.linalg.norm(fp[a] - fp[b]) for a in c for b in c if a != b)) for c in cells]
                finally:
                    cellmod.VSMALL = saved
                    warnings.resetwarnings()
            if case.get("containers"):
                alt: Dict[str, Any] = {}
                for cont in case["containers"]:
                    vals = []
                    try:
                        grid = cls(_container(fp, cont), [list(c) for c in cells])
                        for c in grid.cells:
                            try:
                                vals.append(float(c.quality))
                            except ValueError:
                                vals.append("degenerate")
                            finally:
                                warnings.resetwarnings()
                    except Exception as e:  # the container is not accepted at all
                        vals = ["raised " + type(e).__name__] * len(cells)
                    alt[cont] = vals
                entry["alt"] = alt
            evals.append(entry)
        return {"evals": evals}

    def _run_history(self, case, cls) -> Any:
        """one grid object through reads and grid.update calls; next to every read the values of a grid built
        freshly on the same points, at the end also on rigidly moved copies of them"""
        import warnings

        import numpy as np

        def values(grid):
            vals: List[Any] = []
            for c in grid.cells:
                try:
                    vals.append(float(c.quality))
                except ValueError:
                    vals.append("degenerate")
                finally:
                    warnings.resetwarnings()
            return vals

        cells = [list(c) for c in case["cells"]]
        fp = np.array([[float(F(x)) for x in p] for p in case["points"]], dtype=float)
        grid = cls(_container(fp, case.get("container", "float")), [list(c) for c in cells])
        steps = []
        for op in case["hops"]:
            if op[0] == "R":
                now = np.array([[float(x) for x in p] for p in grid.points], dtype=float)
                steps.append({"read": values(grid), "fresh": values(cls(now, [list(c) for c in cells]))})
            elif op[0] == "W":
                grid.points[:] = np.array([[float(F(x)) for x in q] for q in op[1]], dtype=float)
                steps.append({"write": True})
            elif op[0] in ("E", "J", "Sm"):
                # in-place changes that do not go through GridBase.update
                if op[0] == "E":
                    grid.points[op[1]] = grid.points[op[1]] + np.array([float(F(x)) for x in op[2]])
                elif op[0] == "J":
                    grid.points[:] = grid.points + np.array([[float(F(x)) for x in q] for q in op[1]], dtype=float)
                else:
                    from classy_blocks.optimize.smoother import SmootherBase

                    class _Plain(SmootherBase):
                        def backport(self):
                            pass

                    with warnings.catch_warnings():
                        warnings.simplefilter("ignore")
                        _Plain(grid).smooth(op[1])
                steps.append({"write": True, "after": [[core.rat(float(x)) for x in p] for p in grid.points]})
            else:
                try:
                    ret: Any = float(grid.update(op[1], np.array([float(F(x)) for x in op[2]])))
                except ValueError:
                    ret = "degenerate"
                finally:
                    warnings.resetwarnings()
                steps.append({"ret": ret})
        moved = []
        cur = [[F(float(x)) for x in p] for p in grid.points]
        for t in case["moves"]:
            mp = np.array([[float(x) for x in p] for p in transform_points(cur, t)], dtype=float)
            moved.append(values(cls(mp, [list(c) for c in cells])))
        return {"steps": steps, "moved": moved, "start": [[core.rat(float(x)) for x in p] for p in fp]}

    # ------------------------------------------------------------------ model
    def requests(self, case: dict, impl: Any) -> List[str]:
        if case.get("cls") == "history":
            cells = ";".join("[" + ",".join(map(str, c)) + "]" for c in case["cells"])
            pts = ";".join(",".join(p) for p in impl["start"])
            ops = "|".join(
                "R" if op[0] == "R"
                else ("W" + ";".join(",".join(core.rat(float(F(x))) for x in q) for q in op[1]) if op[0] == "W"
                      # an in-place edit / jitter / smoothing: the model is told the points the array holds afterwards
                      else ("W" + ";".join(",".join(q) for q in st["after"]) if op[0] in ("E", "J", "Sm")
                            else f"U{op[1]}:" + ",".join(core.rat(float(F(x))) for x in op[2])))
                for op, st in zip(case["hops"], impl["steps"]))
            return [f"c14.hist {case['kind']} {cells} {pts} {ops}"]
        reqs = []
        for e in impl["evals"]:
            cells = ";".join("[" + ",".join(map(str, c)) + "]" for c in e["cells"])
            pts = ";".join(",".join(p) for p in e["points"])
            reqs.append(f"c14.grid {case['kind']} {cells} {pts}")
        return reqs

    @staticmethod
    def _parse_model(line: str):
        out = []
        for tok in line.split():
            if tok == "degenerate":
                out.append(None)
            else:
                q, q0, c = tok.split(":")
                out.append((_bits_to_float(q), None if q0 == "-" else _bits_to_float(q0), _bits_to_float(c)))
        return out

    def compare(self, case: dict, impl: Any, model: List[str]) -> Optional[str]:
        if case.get("cls") == "history":
            segs = model[0].split("|")
            if len(segs) != len(impl["steps"]):
                return f"history: model answers {model[0][:80]}"
            def val(t):
                v, _, c = t.partition(":")
                return (None if v == "degenerate" else _bits_to_float(v)), (_bits_to_float(c) if c else 0.0)

            for k, (seg, st) in enumerate(zip(segs, impl["steps"])):
                if "read" in st:
                    ms = [val(t) for t in seg.split(";")]
                    for ci, (a, (b, cond)) in enumerate(zip(st["read"], ms)):
                        if (a == "degenerate") != (b is None) or (b is not None and not abs(a - b) <= _tol(a, cond)):
                            return (f"history step {k} (read) cell {ci}: the grid reports {a!r}, the model (= a fresh grid on the "
                                    f"current points) {b!r} (cond {cond:.3g}); history {case['hops'][:k + 1]}")
                elif "write" in st:
                    if seg != "W":
                        return f"history step {k}: model answers {seg[:40]} to a whole-array write"
                else:
                    b, cond = val(seg[1:])
                    a = st["ret"]
                    # half-way through a point-by-point rotation the cells are strongly twisted (arccos arguments near -1/1)
                    if (a == "degenerate") != (b is None) or (
                            b is not None and not abs(a - b) <= max(_tol(a, cond), (2e-6 if case["tag"] == "history-rotate" else 0.0) * max(1.0, abs(a)))):
                        return f"history step {k} {case['hops'][k]}: update returns {a!r}, model junction quality {b!r}"
            return None
        for k, (e, line) in enumerate(zip(impl["evals"], model)):
            if line in ("reject",):
                return f"evaluation {k}: model rejects the grid"
            ms = self._parse_model(line)
            if len(ms) != len(e["q"]):
                return f"evaluation {k}: {len(e['q'])} cells in the implementation, {len(ms)} in the model"
            total = 0.0
            for ci, (qi, q0i, m) in enumerate(zip(e["q"], e["q0"], ms)):
                if qi == "degenerate" or m is None:
                    if not (qi == "degenerate" and m is None):
                        return f"evaluation {k} cell {ci}: implementation {qi}, model {'degenerate' if m is None else m[0]}"
                    continue
                mq, mq0, cond = m
                rel = 1e-9 if cond >= 1e-7 else 2e-6
                if not abs(qi - mq) <= max(rel * max(1.0, abs(qi)), _tol(qi, cond)):
                    return f"evaluation {k} cell {ci}: implementation quality {qi!r}, model G(Sig) {mq!r} (cond {cond:.3g})"
                if q0i != "degenerate" and mq0 is not None:
                    if not abs(q0i - mq0) <= max(rel, 1e-8) * max(1.0, abs(q0i)):
                        return f"evaluation {k} cell {ci}: implementation with VSMALL=0 gives {q0i!r}, model G0(Sig0) {mq0!r}"
                total += mq
            if e["grid_q"] != "degenerate" and all(m is not None for m in ms):
                if not abs(e["grid_q"] - total) <= 2e-6 * max(1.0, abs(total)):
                    return f"evaluation {k}: GridBase.quality {e['grid_q']!r}, sum of the model's cell values {total!r}"
        return None

    # ------------------------------------------------------------------ oracle
    @staticmethod
    def _min_tri_area(kind, pts, cell) -> float:
        """smallest |n| of the fan triangles (side centre, corner k, corner k+1) of the hexahedron's faces"""
        if kind == "quad":
            return 1.0
        P = [[float(x) for x in pts[i]] for i in cell]
        best = float("inf")
        for loop in FACE_LOOPS:
            c = [sum(P[i][d] for i in loop) / 4 for d in range(3)]
            for k in range(4):
                a = [P[loop[k]][d] - c[d] for d in range(3)]
                b = [P[loop[(k + 1) % 4]][d] - c[d] for d in range(3)]
                n = [a[1] * b[2] - a[2] * b[1], a[2] * b[0] - a[0] * b[2], a[0] * b[1] - a[1] * b[0]]
                best = min(best, math.sqrt(sum(x * x for x in n)))
        return best

    def _envelope(self, kind, e, ci, q) -> float:
        """largest possible effect of the guard on the value of cell ci (see `assumptions`)"""
        amin = e["min_edge"][ci]
        pts = [[core.parse_rat(x) for x in p] for p in e["points"]]
        if kind == "quad":
            return (abs(q) + 20.0) * 1.2e-6 / amin
        nmin = self._min_tri_area(kind, pts, e["cells"][ci])
        return (abs(q) + 20.0) * (0.00633 / math.sqrt(nmin) + 0.0117 / math.sqrt(amin) + 1.2e-6 / amin)

    def oracle(self, case: dict, impl: Any) -> List[dict]:
        out: List[dict] = []
        kind = case["kind"]
        cls = "HexCell" if kind == "hex" else "QuadCell"
        if case.get("cls") == "history":
            return self._oracle_history(case, impl, cls)
        ev = impl["evals"]
        if case["tag"] == "stretch":
            dims = 3 if kind == "hex" else 2
            by_s: Dict[str, List[float]] = {}
            for (s, d, _, _), e in zip(self._stretch_grids(case), ev):
                v = e["q"][0]
                if v == "degenerate":
                    out.append({"site": f"{cls}.quality:box-reported-degenerate",
                                "what": f"a box (side {case['side']}, stretch {s} along direction {d}) raises ValueError"})
                    return out
                by_s.setdefault(s, []).append(v)
            order = sorted(by_s, key=lambda s: F(s))
            for s in order:
                vals = by_s[s]
                if F(s) != 1 and max(vals) - min(vals) > 2e-6 * max(1.0, max(abs(v) for v in vals)):
                    out.append({"site": f"{cls}.quality:stretch-direction-dependent",
                                "what": f"the same box (cube side {case['side']} stretched by {s}) has quality {vals} "
                                "depending on the direction that is stretched", "observed": vals})
                    break
            for d in range(dims):
                seq = [by_s[s][d] for s in order]
                if any(b < a - 1e-6 for a, b in zip(seq, seq[1:])):
                    out.append({"site": f"{cls}.quality:stretch-lowers-value",
                                "what": f"stretching along direction {d} by {order} gives {seq}", "observed": seq})
                    break
            return out
        if case["tag"] == "degenerate":
            return out
        if case.get("cls") == "history":
            return out
        for k, e in enumerate(ev):
            for cont, vals in (e.get("alt") or {}).items():
                for ci, (a, b) in enumerate(zip(e["q"], vals)):
                    if (a == "degenerate") != (b == "degenerate") or (a != "degenerate" and (
                            isinstance(b, str) or abs(a - b) > 1e-9 * max(1.0, abs(a)))):
                        out.append({"site": f"{cls}.quality:depends-on-point-container",
                                    "what": f"cell {ci} under transformation {case['transforms'][k]}: the same coordinates give {a!r} "
                                            f"as a float array and {b!r} as {cont}", "observed": b, "expected": a})
                        return out
        base = ev[0]
        for t, e in zip(case["transforms"][1:], ev[1:]):
            scaled = F(t.get("scale", "1")) != 1
            what_t = "+".join(k for k in ("sigma", "quat", "trans", "scale") if t.get(k)) or "identity"
            for ci, (a, b, a0, b0) in enumerate(zip(base["q"], e["q"], base["q0"], e["q0"])):
                if "degenerate" in (a, b):
                    if a != b:
                        out.append({"site": f"{cls}.quality:degenerate-after-transformation",
                                    "what": f"cell {ci}: {a} before, {b} after {what_t}", "observed": b, "expected": a})
                        return out
                    continue
                if not scaled:
                    if abs(a - b) > 2e-6 * max(1.0, abs(a)):
                        site = "renumbering" if (t.get("sigma") and not t.get("quat") and not t.get("trans")) else "rigid-motion"
                        out.append({"site": f"{cls}.quality:changed-by-{site}",
                                    "what": f"cell {ci}: quality {a!r} becomes {b!r} under {what_t}", "observed": b, "expected": a})
                        return out
                else:
                    if "degenerate" not in (a0, b0) and abs(a0 - b0) > 2e-6 * max(1.0, abs(a0)):
                        out.append({"site": f"{cls}.quality:changed-by-scaling",
                                    "what": f"cell {ci}: with the guard set to 0 quality {a0!r} becomes {b0!r} under {what_t}",
                                    "observed": b0, "expected": a0})
                        return out
                    env = self._envelope(kind, base, ci, a) + self._envelope(kind, e, ci, b)
                    if abs(a - b) > env + 2e-6 * max(1.0, abs(a)):
                        out.append({"site": f"{cls}.quality:changed-by-scaling-beyond-guard",
                                    "what": f"cell {ci}: quality {a!r} becomes {b!r} under {what_t}; the guard explains at most {env:.3g}",
                                    "observed": b, "expected": a})
                        return out
        return out

    @staticmethod
    def _oracle_history(case, impl, cls) -> List[dict]:
        """the value of a cell depends on the shape now, not on what was read or moved before: every read equals what a
        grid built freshly on the same points reports, and (within float rounding) on rigidly moved points"""
        out: List[dict] = []
        differ = lambda a, b, rel: (a == "degenerate") != (b == "degenerate") or (
            a != "degenerate" and abs(a - b) > rel * max(1.0, abs(a)))
        first = last = None
        for k, st in enumerate(impl["steps"]):
            if "read" not in st:
                continue
            first = st if first is None else first
            last = st
            for ci, (a, b) in enumerate(zip(st["read"], st["fresh"])):
                if differ(a, b, 1e-9):
                    out.append({"site": f"{cls}.quality:depends-on-history-of-updates",
                                "what": f"after {case['hops'][:k + 1]} cell {ci} reports {a!r}, a grid built from the same points "
                                        f"reports {b!r}", "observed": a, "expected": b})
                    return out
        if last is not None:
            for t, vals in zip(case["moves"], impl["moved"]):
                for ci, (a, b) in enumerate(zip(last["read"], vals)):
                    if differ(a, b, 2e-6):
                        out.append({"site": f"{cls}.quality:history-grid-differs-from-moved-fresh-grid",
                                    "what": f"after {case['hops']} cell {ci} reports {a!r}, a fresh grid on the same points moved by "
                                            f"{t} reports {b!r}", "observed": a, "expected": b})
                        return out
            if case["tag"] in ("history-translate", "history-rotate"):
                how = "pointwise-translation" if case["tag"] == "history-translate" else "rigid-motion-of-the-same-grid"
                for ci, (a, b) in enumerate(zip(first["read"], last["read"])):
                    if differ(a, b, 2e-6):
                        out.append({"site": f"{cls}.quality:changed-by-{how}",
                                    "what": f"all points of one grid object were moved rigidly ({case['tag']}); cell {ci}: {a!r} -> {b!r}",
                                    "observed": b, "expected": a})
                        return out
        return out

    def nontrivial_key(self, case, impl):
        if case["tag"] == "degenerate":
            return None
        return json.dumps(case, sort_keys=True)

    def classify(self, case, impl):
        if case.get("cls") == "history":
            return (f"{case['kind']}:{case['tag']}:{case.get('container', 'float')}:"
                    f"{sum(1 for o in case['hops'] if o[0] == 'U')}u{sum(1 for o in case['hops'] if o[0] == 'W')}w")
        if case["tag"] in ("stretch", "degenerate", "grid"):
            return f"{case['kind']}:{case['tag']}"
        return f"{case['kind']}:{case['tag']}:{len(case['transforms'])}t"


if __name__ == "__main__":
    sys.exit(core.main(C14()))
