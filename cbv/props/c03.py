"""C03 — cell count and expansion ratio obey the geometric-progression law.

Implementation side: `Chop(**pair).calculate(L)`, the same chop after `invert()`, `Grading.add_chop`
and `Grading.inverted`, with every call of a `relations.get_*` function logged from outside.
Model side: `c03.calc` (closure plan on the generated relation table, guards and closed formulas
exact, solver results validated by exact specifications), `c03.init/inv/ginv/addchop/count`.
Oracle: the property stated directly on `(count, total_expansion)` with blockMesh's geometric
progression written out here (no model, no repository tables).
"""

from __future__ import annotations

import math
import random
import sys
import warnings
from fractions import Fraction
from typing import Any, Dict, List, Optional, Tuple

from .. import core

sys.set_int_max_str_digits(0)  # exact powers c^(n-1) have thousands of digits

KEYS = ("count", "start_size", "end_size", "c2c_expansion", "total_expansion")
LIB_TOL = 1e-7  # the library's documented tolerance (constants.TOL); used for slack only
FINDING_COUNT1 = "Chop.calculate[count+start_size]:one-cell-with-smaller-start-size-accepted"

# tolerances of the correspondence (sent to the Lean validators, printed in the evidence)
EPS_CNT = 1e-9  # count specifications, relative to the length
EPS_ROOT = 1e-8  # residual of brentq roots / float powers
EPS_CMP = 1e-9  # model value vs. implementation float


def _rat(x: Any) -> str:
    if isinstance(x, bool):
        raise TypeError("bool")
    if isinstance(x, int):
        return f"{x}/1"
    return core.rat(float(x))


def _ulp(x: float, k: int) -> float:
    for _ in range(abs(k)):
        x = math.nextafter(x, math.inf if k > 0 else -math.inf)
    return x


# --------------------------------------------------------------------------- blockMesh's progression (floats, for generator and oracle)
def gsum(r: float, n: int) -> float:
    """1 + r + … + r^(n-1), accurately also for r close to 1"""
    if n <= 0:
        return 0.0
    if r == 1:
        return float(n)
    return math.expm1(n * math.log1p(r - 1)) / (r - 1)


def realised(L: float, n: int, T: float) -> Tuple[float, float]:
    """first and last cell blockMesh makes of n cells with total expansion T on an edge of length L"""
    if n == 1:
        return L, L
    lr = math.log(T) / (n - 1)
    g = float(n) if lr == 0 else math.expm1(n * lr) / math.expm1(lr)
    s = L / g
    return s, s * T


def solve_c(n: int, q: float) -> float:
    """the c > 0 with gsum(c, n) = q (q > 1, n >= 2), by bisection on log c"""
    lo, hi = -60.0, 60.0
    for _ in range(200):
        mid = (lo + hi) / 2
        if gsum(math.exp(mid), n) < q:
            lo = mid
        else:
            hi = mid
    return math.exp((lo + hi) / 2)


# --------------------------------------------------------------------------- implementation driver
def _logged_relations():
    """Wraps the functions of the (cached) relation list so that every call is recorded."""
    from classy_blocks.grading.chop import ChopRelation

    rels = ChopRelation.get_possible_combinations()
    log: List[dict] = []
    saved = [r.function for r in rels]

    def wrap(rel, fn):
        def inner(length, a, b):
            entry = {"rel": f"{rel.output}<{rel.input_1}+{rel.input_2}", "args": [a, b]}
            log.append(entry)
            try:
                ret = fn(length, a, b)
            except Exception as e:
                entry["exc"] = type(e).__name__
                raise
            entry["ret"] = ret
            return ret

        return inner

    for r, fn in zip(rels, saved):
        r.function = wrap(r, fn)

    def restore():
        for r, fn in zip(rels, saved):
            r.function = fn

    return log, restore


def _num(x: Any) -> Any:
    """canonical image of a result value: exact rational string, or a marker for anything else"""
    if isinstance(x, bool):
        return {"type": "bool"}
    if isinstance(x, int):
        return f"{x}/1"
    try:
        import numpy as np

        if isinstance(x, (np.integer,)):
            return f"{int(x)}/1"
        if isinstance(x, (float, np.floating)):
            f = float(x)
            return core.rat(f) if math.isfinite(f) else {"type": "nonfinite", "repr": repr(f)}
    except Exception:
        pass
    return {"type": type(x).__name__, "repr": repr(x)[:60]}


def _fields(chop) -> Dict[str, Any]:
    return {k: (None if getattr(chop, k) is None else _num(getattr(chop, k))) for k in KEYS}


def _calc(chop, L: float) -> dict:
    log, restore = _logged_relations()
    try:
        with warnings.catch_warnings():
            warnings.simplefilter("ignore")
            try:
                ret = chop.calculate(L)
                out = {
                    "ok": True,
                    "count": ret[0] if type(ret[0]) is int else None,
                    "count_type": type(ret[0]).__name__,
                    "total": _num(ret[1]),
                    "total_type": type(ret[1]).__name__,
                    "results": {k: _num(chop.results[k]) for k in KEYS},
                }
            except Exception as e:
                out = {"ok": False, "err": type(e).__name__, "msg": str(e)[:120]}
    finally:
        restore()
    out["log"] = [
        {"rel": e["rel"], "ret": (_num(e["ret"]) if "ret" in e else None), "exc": e.get("exc"), "args": [_num(a) for a in e["args"]]}
        for e in log
    ]
    return out


def _effective(given: dict) -> dict:
    """the parameters a Chop holds after __post_init__ (count clamp, defaulted c2c), stated here independently"""
    g = dict(given)
    if "count" in g:
        g["count"] = max(int(g["count"]), 1)
    if len(g) < 2 and "c2c_expansion" not in g:
        g["c2c_expansion"] = 1
    return g


def _inverted(g: dict) -> dict:
    """the parameters after Chop.invert(), stated independently: sizes swapped, ratios reciprocal (may raise ZeroDivisionError)"""
    out = {}
    if "count" in g:
        out["count"] = g["count"]
    if "end_size" in g:
        out["start_size"] = g["end_size"]
    if "start_size" in g:
        out["end_size"] = g["start_size"]
    if "c2c_expansion" in g:
        out["c2c_expansion"] = 1 / g["c2c_expansion"]
    if "total_expansion" in g:
        out["total_expansion"] = 1 / g["total_expansion"]
    return out


def _fields_arg(fields: dict) -> Optional[str]:
    """observed fields (exact rational strings) as a chop argument of the line protocol"""
    parts = []
    for k in KEYS:
        v = fields.get(k)
        if v is None:
            continue
        if not isinstance(v, str):
            return None
        if k == "count":
            f = Fraction(v)
            if f.denominator != 1:
                return None
            parts.append(f"count:{int(f)}")
        else:
            parts.append(f"{k}:{v}")
    return ",".join(parts) if parts else "-"


def _given_kwargs(given: dict) -> dict:
    return {k: v for k, v in given.items()}


# --------------------------------------------------------------------------- the check
class C03(core.Check):
    pid = "C03"
    props_module = "CBV.Props.C03"
    rule = (
        "chop cases: length over six decades (1e-3..1e2, round and random mantissas); each of the 10 parameter pairs and the "
        "defaulted singletons; counts 1..200; ratios in [0.5,2] including 1, 1±1e-9, 1±5e-8, 1±1e-7, 1±1e-6, 1±1e-4; sizes "
        "1e-4·L..L including the exact-integer solutions (size computed from a target count and ratio) and their ±1 ulp / ±1e-9 "
        "neighbours; contradictory / unrealisable sets (ratios on opposite sides of 1, progression too short, one cell with a "
        "smaller size); a boundary stream (length <= 0, sizes <= 0, size >= length, ratio 0, count < 1). Every case is also run "
        "on the inverted chop. grading cases: 1..3 chops with length ratios (valid and invalid) through Grading.add_chop and "
        "Grading.inverted (also: the same Chop object added twice, inverted in place in between; inverted/count read between additions "
        "and twice at the end). history cases (round 2): ONE Chop object through 2..8 calls of calculate(L) / calculate(other length) / "
        "invert() / attribute assignment, for every pair (fixed list: evaluate-reverse-evaluate on the same edge, double reversal, "
        "alternating lengths, reverse first) and random ones; the model is run on the whole history (c03.hist). Round 3: histories also "
        "request copy_preserving(inverted=0/1) copies (default and size-preserving chops), evaluate them and then the chop itself "
        "again; every grading case also reads the text of Grading.description and Grading.inverted.description and compares the "
        "written numbers with the specification (relative 1e-12). Round 4: API variants — counts written as floats (integer-valued "
        "or not; the library truncates), ratios written as Python ints up to count 200 (2**199 exactly), integer lengths and sizes: "
        "a fixed list plus a 20 % variant of every random chop. Non-trivial = the implementation returned a grading or rejected for a modelled reason; distinct = "
        "different (length, parameters)."
    )
    assumptions = [
        "float64 arithmetic of the closed formulas agrees with exact rational arithmetic within 1e-9 relative (checked on every case)",
        "results of log/int(), brentq and ** (1/k) are taken from the implementation and validated by Lean against their exact "
        f"specification with tolerances cnt={EPS_CNT} (+ 4.4e-16·n/|ln T| for the root-finding count), root={EPS_ROOT}",
        "branch decisions on TOL are reproduced exactly (TOL is the exact rational image of the float, |c-1| is exact in floats for c in [0.5,2])",
        "negative expansion ratios are outside the property's quantifier and outside the model (complex / nan arithmetic); not generated",
        "inputs within 2% of the TOL switch or in the cancellation zone TOL <= |T-1| < 1e-4 of the root-finding count are "
        "exercised, but there a rejection or a count off by one at a tie is accepted (documented numerical fragility, no wrong grading); "
        "likewise a rejection where first and last cell of a (size, total expansion) pair fill the edge exactly (two-cell tie)",
    ]
    partial_note = (
        "Theorems: closure order on the generated relation table, geometric-sum law, end/first ratio, count specification "
        "(uniqueness, never coarser / coarser with one fewer), executable exact count (correct, complete, total), monotonicity in "
        "the cell count for fixed total expansion, inversion of the progression, of Chop and of Grading, guards, the known-finding "
        "counterexample, and end-to-end statements for the ten pairs on the model with exact solver answers. Validator-checked "
        "only: that log/brentq/pow of the implementation meet their specifications (float rounding, scipy); rejections raised "
        "inside a solver are taken from the implementation. End-to-end reversal is proved for all ten pairs, the three "
        "size+total / start+end pairs only for count >= 3 and under an existence hypothesis for the reversed ratio. The bodies of the twelve "
        "relations, of the simple validators and of Chop.invert are translated from the source text (ast) at every run and proved "
        "equal to the model (T_C03_translated_*); in those theorems log/int, ceil, brentq and fractional powers are oracle slots "
        "under the model's validators, and the brentq brackets / fcnt / fexp are pinned syntactically only. Chop.__post_init__ and "
        "copy_preserving and Chop.calculate (interleaved loop, round 6d) are interpreted from ast tables and proved equal to the model; fcnt has no exact semantics. Round 6b: one tie theorem per relation; locals compared up to renaming."
    )

    # ------------------------------------------------------------------ generators
    def gen_cases(self, rng: random.Random, tier: str) -> List[dict]:
        n = 1500 if tier == "quick" else 15000
        cases: List[dict] = []
        for _ in range(n):
            cases.append(self._gen_chop(rng))
        cases.extend(self._boundary_list())
        cases.extend(self._variant_list())
        for _ in range(n // 20):
            cases.append(self._gen_boundary(rng))
        for _ in range(n // 10):
            cases.append(self._gen_grading(rng))
        cases.extend(self._uniform_section_list())
        for _ in range(n // 30):
            cases.append(self._gen_uniform_sections(rng))
        for _ in range(n // 3):
            cases.append(self._gen_rel(rng))
        cases.extend(self._history_list())
        for _ in range(n // 5):
            cases.append(self._gen_history(rng))
        if tier == "thorough":
            cases.extend(self._exhaustive())
        return cases

    @staticmethod
    def _length(rng: random.Random) -> float:
        dec = 10.0 ** rng.randint(-3, 2)
        r = rng.random()
        if r < 0.3:
            return dec
        if r < 0.4:
            return 1.0
        return dec * rng.uniform(1, 10)

    @staticmethod
    def _ratio(rng: random.Random) -> float:
        r = rng.random()
        if r < 0.40:
            return rng.uniform(0.5, 2.0)
        if r < 0.55:
            return rng.uniform(0.9, 1.1)
        if r < 0.62:
            return rng.choice([0.5, 2.0, 1.0])
        return rng.choice(
            [1 + 1e-9, 1 - 1e-9, 1 + 5e-8, 1 - 5e-8, 1 + 1e-7, 1 - 1e-7, 1 + 1e-6, 1 - 1e-6, 1 + 1e-4, 1 - 1e-4, 1.0]
        )

    @staticmethod
    def _perturb(rng: random.Random, x: float) -> float:
        r = rng.random()
        if r < 0.4:
            return x
        if r < 0.7:
            return _ulp(x, rng.choice([-2, -1, 1, 2]))
        if r < 0.85:
            return x * (1 + rng.choice([-1, 1]) * 1e-9)
        return x * (1 + rng.choice([-1, 1]) * rng.choice([5e-8, 3e-7, 1e-6]))

    @staticmethod
    def _off_limit(rng: random.Random, L: float, size: float, rr: float) -> float:
        """A shrinking progression (ratio rr < 1 seen from the given size) is at most size/(1-rr) long; exactly at
        that threshold log(0) decides between three exception classes.  Keep a margin of 1e-6 from it."""
        if rr < 1 and abs(size / (1 - rr) / L - 1) < 1e-6:
            return size * rng.choice([0.99, 1.01])
        return size

    def _gen_chop(self, rng: random.Random, L: Optional[float] = None) -> dict:
        L = self._length(rng) if L is None else L
        kind = rng.choice(
            ["count+start", "count+end", "count+c2c", "count+total", "start+end", "start+c2c", "start+total", "end+c2c",
             "end+total", "c2c+total", "single"]
        )
        cnt = rng.choice([rng.randint(1, 200), rng.randint(1, 12), rng.randint(2, 200)])
        c = self._ratio(rng)
        generic = rng.random() < 0.35
        # sizes down to 1e-4·L only together with a count; alone they would ask for up to 10^4 cells
        # (the property's quantifier has counts 1..200; a few larger ones are kept)
        lo = -4 if kind in ("count+start", "count+end") else rng.choice([-2, -2, -2.7])
        rnd_size = L * 10 ** rng.uniform(lo, 0)
        g: Dict[str, Any]
        if kind == "count+start":
            s = rnd_size if generic else self._perturb(rng, L / gsum(c, cnt))
            g = {"count": cnt, "start_size": s}
        elif kind == "count+end":
            e = rnd_size if generic else self._perturb(rng, L / gsum(c, cnt) * c ** (cnt - 1))
            g = {"count": cnt, "end_size": e}
        elif kind == "count+c2c":
            g = {"count": cnt, "c2c_expansion": c}
        elif kind == "count+total":
            g = {"count": cnt, "total_expansion": c}
        elif kind == "start+c2c":
            s0 = L / gsum(c, cnt)
            s = self._perturb(rng, s0) if not generic else s0 * rng.uniform(0.55, 1.0)
            if rng.random() < 0.1:
                s = rnd_size
            g = {"start_size": self._off_limit(rng, L, s, c), "c2c_expansion": c}
        elif kind == "end+c2c":
            e0 = L / gsum(1 / c, cnt)
            e = self._perturb(rng, e0) if not generic else e0 * rng.uniform(0.55, 1.0)
            if rng.random() < 0.1:
                e = rnd_size
            g = {"end_size": self._off_limit(rng, L, e, 1 / c), "c2c_expansion": c}
        elif kind == "c2c+total":
            r = rng.random()
            if r < 0.12:
                T = self._ratio(rng)  # independent: often on the other side of 1
            elif r < 0.5:
                T = self._perturb(rng, c ** (cnt % 40)) if abs(c - 1) > 1e-3 else c ** cnt
            else:
                T = c ** ((cnt % 40) + rng.random())
            g = {"c2c_expansion": c, "total_expansion": T}
        elif kind in ("start+total", "end+total", "start+end"):
            T = c if rng.random() < 0.8 else c ** rng.uniform(1, 6)
            k = max(cnt, 2)
            s0, e0 = realised(L, k, T)
            if generic:
                f = rng.uniform(0.55, 1.0)
                s0, e0 = s0 * f, e0 * f
            elif rng.random() < 0.12:
                s0 = rnd_size
                e0 = s0 * T
            if kind == "start+total":
                g = {"start_size": self._perturb(rng, s0), "total_expansion": T}
            elif kind == "end+total":
                g = {"end_size": self._perturb(rng, e0), "total_expansion": T}
            else:
                g = {"start_size": self._perturb(rng, s0), "end_size": e0 if rng.random() < 0.7 else self._perturb(rng, e0)}
        else:
            which = rng.choice(["count", "start_size", "start_size", "end_size", "end_size", "total_expansion", "c2c_expansion", "none"])
            if which == "count":
                g = {"count": cnt}
            elif which in ("start_size", "end_size"):
                g = {which: self._perturb(rng, L / cnt) if not generic else rnd_size}
            elif which == "none":
                g = {}
            else:
                g = {which: c}
        return {"kind": "chop", "L": L, "given": self._api_variant(rng, g)}

    @staticmethod
    def _api_variant(rng: random.Random, g: dict) -> dict:
        """the same chop written the way users write it: the count as a float (`length / size`, truncated by the library),
        ratios as Python ints"""
        if rng.random() > 0.2:
            return g
        g = dict(g)
        if "count" in g and rng.random() < 0.6:
            g["count"] = float(g["count"]) + rng.choice([0.0, 0.5, 0.9, 0.25, 0.999])
        for k in ("c2c_expansion", "total_expansion"):
            if k in g and float(g[k]).is_integer() and rng.random() < 0.8:
                g[k] = int(g[k])
        return g

    @staticmethod
    def _variant_list() -> List[dict]:
        """round 4: API variants, enumerated — float counts (integer-valued or not), integer ratios up to the largest
        counts (2**199 is an exact Python int), integer lengths and sizes"""
        out: List[dict] = []
        for L in (1.0, 10):
            for n in (1, 2, 10, 53, 63, 64, 65, 100, 200):
                out.append({"kind": "chop", "L": L, "given": {"count": n, "c2c_expansion": 2}})
                out.append({"kind": "chop", "L": L, "given": {"count": n, "c2c_expansion": 1}})
                out.append({"kind": "chop", "L": L, "given": {"count": n, "total_expansion": 2}})
                out.append({"kind": "rel", "name": "total_expansion<count+c2c_expansion", "L": L, "a": n, "b": 2})
                out.append({"kind": "rel", "name": "start_size<count+c2c_expansion", "L": L, "a": n, "b": 2})
            for c in (7.5, 12.9, 10.0, 1.5, 0.5, 199.99, 64.5):
                for other in ({"c2c_expansion": 1.1}, {"c2c_expansion": 0.9}, {"c2c_expansion": 2}, {"start_size": 0.05 * L},
                              {"end_size": 0.05 * L}, {"total_expansion": 2.0}, {}):
                    if c < 2 and "total_expansion" in other:
                        continue
                    out.append({"kind": "chop", "L": L, "given": {"count": c, **other}})
        out.append({"kind": "chop", "L": 10, "given": {"start_size": 1, "c2c_expansion": 2}})
        out.append({"kind": "chop", "L": 10, "given": {"start_size": 1, "end_size": 2}})
        out.append({"kind": "chop", "L": 10, "given": {"end_size": 1, "total_expansion": 2}})
        out.append({"kind": "chop", "L": 10, "given": {"start_size": 1}})
        out.append({"kind": "history", "L": 1.0, "given": {"count": 70, "c2c_expansion": 2},
                    "ops": [["calc", 1.0], ["copy", 1, 1.0], ["calc", 1.0], ["invert"], ["calc", 1.0]]})
        out.append({"kind": "history", "L": 1.0, "given": {"count": 12.9, "c2c_expansion": 1.2},
                    "ops": [["calc", 1.0], ["invert"], ["calc", 1.0], ["copy", 0, 1.0]]})
        out.append({"kind": "grading", "L": 10, "chops": [{"ratio": 1, "given": {"count": 66, "c2c_expansion": 2}}]})
        out.append({"kind": "grading", "L": 10, "chops": [{"ratio": 0.5, "given": {"count": 7.5, "c2c_expansion": 1.3}},
                                                           {"ratio": 0.5, "given": {"count": 64, "c2c_expansion": 2}}]})
        return out

    @staticmethod
    def _boundary_list() -> List[dict]:
        """the boundary stream, enumerated: every guard from both sides of its threshold, with every partner"""
        out: List[dict] = []
        partners = [{}, {"count": 5}, {"c2c_expansion": 1.1}, {"c2c_expansion": 0.9}, {"total_expansion": 2.0}, {"total_expansion": 0.5}]
        for L in (1.0, 40.0):
            for key in ("start_size", "end_size"):
                other = "end_size" if key == "start_size" else "start_size"
                for val in (0.0, -0.1 * L, -2 * L, 0.13 * L):
                    for p in partners + [{other: 0.1 * L}]:
                        out.append({"kind": "chop", "L": L, "given": {**p, key: val}, "boundary": True})
                for n in (1, 2, 7):
                    for val in (L, 1.5 * L, L * (1 + 1e-3), L * (1 - 1e-3)):
                        out.append({"kind": "chop", "L": L, "given": {"count": n, key: val}, "boundary": True})
            for key in ("c2c_expansion", "total_expansion"):
                other = "total_expansion" if key == "c2c_expansion" else "c2c_expansion"
                for p in [{}, {"count": 5}, {"count": 1}, {"start_size": 0.1 * L}, {"end_size": 0.1 * L}, {other: 1.5}]:
                    out.append({"kind": "chop", "L": L, "given": {**p, key: 0.0}, "boundary": True})
            for c in (0, -3, 1):
                for p in [{}, {"start_size": 0.1 * L}, {"end_size": 0.1 * L}, {"c2c_expansion": 1.1}, {"total_expansion": 2.0}]:
                    out.append({"kind": "chop", "L": L, "given": {**p, "count": c}, "boundary": True})
        for L in (0.0, -1.0):
            for g in ({"count": 3}, {"start_size": 0.1}, {"end_size": 0.1}, {"count": 3, "start_size": 0.1}, {"count": 3, "end_size": 0.1},
                      {"count": 3, "c2c_expansion": 1.1}, {"count": 3, "total_expansion": 2.0}, {"start_size": 0.1, "end_size": 0.2},
                      {"start_size": 0.1, "c2c_expansion": 1.1}, {"start_size": 0.1, "total_expansion": 2.0},
                      {"end_size": 0.1, "c2c_expansion": 1.1}, {"end_size": 0.1, "total_expansion": 2.0},
                      {"c2c_expansion": 1.1, "total_expansion": 2.0}):
                out.append({"kind": "chop", "L": L, "given": dict(g), "boundary": True})
        return out

    RELS = [
        "c2c_expansion<count+end_size", "c2c_expansion<count+start_size", "c2c_expansion<count+total_expansion",
        "count<end_size+c2c_expansion", "count<start_size+c2c_expansion", "count<total_expansion+c2c_expansion",
        "count<total_expansion+start_size", "end_size<start_size+total_expansion", "start_size<count+c2c_expansion",
        "start_size<end_size+total_expansion", "total_expansion<count+c2c_expansion", "total_expansion<start_size+end_size",
    ]

    def _gen_rel(self, rng: random.Random) -> dict:
        """one direct call of a relation function: in-domain arguments, or one argument on / beyond its guard"""
        name = rng.choice(self.RELS)
        out, ins = name.split("<")
        a, b = ins.split("+")
        L = self._length(rng)
        n = rng.choice([rng.randint(1, 200), rng.randint(1, 12)])
        c = self._ratio(rng)
        vals = {}
        for q in (a, b):
            if q == "count":
                vals[q] = n
            elif q in ("c2c_expansion", "total_expansion"):
                vals[q] = c if rng.random() < 0.7 else self._ratio(rng)
            else:
                base = L / gsum(c, n) * (c ** (n - 1) if q == "end_size" else 1.0)
                vals[q] = self._perturb(rng, base) if rng.random() < 0.6 else base * rng.uniform(0.55, 1.0)
        r = rng.random()
        if r < 0.25:  # one argument at its guard
            q = rng.choice([a, b, "L"])
            if q == "L":
                L = rng.choice([0.0, -L])
            elif q == "count":
                vals[q] = rng.choice([0, 1])
            elif q in ("c2c_expansion", "total_expansion"):
                vals[q] = 0.0
            else:
                vals[q] = rng.choice([0.0, -vals[q], L, 1.5 * L])
        if out == "count" and "c2c_expansion" in vals and a != "total_expansion":
            key = a
            rr = vals["c2c_expansion"] if key == "start_size" else (1 / vals["c2c_expansion"] if vals["c2c_expansion"] else 1.0)
            if vals[key] > 0 and L > 0:
                vals[key] = self._off_limit(rng, L, vals[key], rr)
        return {"kind": "rel", "name": name, "L": L, "a": vals[a], "b": vals[b]}

    # ---- histories on ONE Chop object (round 2): calculate / invert / calculate with equal and different lengths
    @staticmethod
    def _history_list() -> List[dict]:
        """every pair, evaluated, reversed in place and evaluated again on the same edge (and the other basic orders)"""
        out: List[dict] = []
        givens = [
            {"count": 10, "total_expansion": 4.0}, {"count": 25, "c2c_expansion": 1.15}, {"count": 12, "start_size": 0.05},
            {"count": 12, "end_size": 0.05}, {"start_size": 0.013, "c2c_expansion": 1.2}, {"end_size": 0.013, "c2c_expansion": 0.9},
            {"start_size": 0.03, "end_size": 0.11}, {"start_size": 0.03, "total_expansion": 3.0},
            {"end_size": 0.03, "total_expansion": 0.4}, {"c2c_expansion": 1.1, "total_expansion": 3.0}, {"start_size": 0.07}, {"count": 7},
        ]
        for g in givens:
            for L in (1.0, 2.5):
                gg = {k: (v * L if k in ("start_size", "end_size") else v) for k, v in g.items()}
                out.append({"kind": "history", "L": L, "given": gg, "ops": [["calc", L], ["invert"], ["calc", L]]})
                out.append({"kind": "history", "L": L, "given": gg, "ops": [["calc", L], ["calc", L], ["invert"], ["invert"], ["calc", L]]})
                out.append({"kind": "history", "L": L, "given": gg, "ops": [["calc", L], ["calc", 2 * L], ["calc", L], ["invert"], ["calc", 2 * L], ["calc", L]]})
                out.append({"kind": "history", "L": L, "given": gg, "ops": [["invert"], ["calc", L], ["invert"], ["calc", L]]})
                # round 3: a (reversed) preserving copy is requested in between: the chop itself must not change
                out.append({"kind": "history", "L": L, "given": gg, "ops": [["calc", L], ["copy", 1, L], ["calc", L], ["copy", 1, L], ["copy", 0, L], ["calc", L]]})
                for pres in ("start_size", "end_size"):
                    if pres in gg:
                        out.append({"kind": "history", "L": L, "given": gg, "preserve": pres,
                                    "ops": [["calc", L], ["copy", 1, L], ["calc", L], ["invert"], ["calc", L], ["copy", 1, L], ["calc", L]]})
        for g in ({"count": 5, "c2c_expansion": 0.0}, {"start_size": 0.1, "total_expansion": 0.0}, {"count": 3, "start_size": 0.1, "c2c_expansion": 0.0}):
            out.append({"kind": "history", "L": 1.0, "given": dict(g), "ops": [["invert"], ["calc", 1.0], ["invert"], ["calc", 1.0]], "boundary": True})
        return out

    def _gen_history(self, rng: random.Random) -> dict:
        while True:  # sizes inside the property's range (1e-4·L .. L) also after a ratio is reassigned
            base = self._gen_chop(rng)
            L = base["L"]
            if all(1e-4 * L <= base["given"][k] <= L for k in ("start_size", "end_size") if k in base["given"]):
                break
        other = L * rng.choice([2.0, 0.5, 1.37, 1 + 1e-9])
        ops: List[list] = [["calc", L], ["invert"], ["calc", L]] if rng.random() < 0.5 else []
        cur = _effective(base["given"])
        for _ in range(rng.randint(1 if ops else 2, 4)):
            r = rng.random()
            if r < 0.45:
                ops.append(["calc", L])
                if rng.random() < 0.4:
                    ops.append(["copy", rng.randrange(2), L if rng.random() < 0.8 else other])
                    ops.append(["calc", L])
            elif r < 0.6:
                ops.append(["calc", other])
            elif r < 0.85 or not cur:
                ops.append(["invert"])
            else:  # assign a new value to a parameter the chop already has
                key = rng.choice(sorted(cur))
                if key == "count":
                    val: Any = rng.randint(2, 60)
                elif key in ("c2c_expansion", "total_expansion"):
                    val = self._ratio(rng)
                else:
                    val = L * 10 ** rng.uniform(-2, -0.3)
                ops.append(["set", key, val])
                ops.append(["calc", L])
        if not any(o[0] == "calc" for o in ops):
            ops.append(["calc", L])
        case = {"kind": "history", "L": L, "given": base["given"], "ops": ops}
        sizes = [k for k in ("start_size", "end_size") if k in base["given"]]
        if sizes and rng.random() < 0.3:
            case["preserve"] = rng.choice(sizes)
        return case

    def _gen_boundary(self, rng: random.Random) -> dict:
        L = rng.choice([1.0, 0.25, 40.0])
        other = rng.choice(
            [{"count": 5}, {"start_size": 0.1 * L}, {"end_size": 0.1 * L}, {"c2c_expansion": 1.1}, {"c2c_expansion": 0.9},
             {"total_expansion": 2.0}, {"total_expansion": 0.5}, {}]
        )
        r = rng.randrange(6)
        g: Dict[str, Any] = dict(other)
        if r == 0:
            L = rng.choice([0.0, -1.0, -L])
            if not g:
                g = {"count": 3}
        elif r == 1:
            g[rng.choice(["start_size", "end_size"])] = rng.choice([0.0, -0.1 * L, -2 * L])
        elif r == 2:
            g = {"count": rng.choice([1, 2, 7]), rng.choice(["start_size", "end_size"]): rng.choice([L, 1.5 * L, L * (1 + 1e-3)])}
        elif r == 3:
            g[rng.choice(["c2c_expansion", "total_expansion"])] = 0.0
        elif r == 4:
            g = dict(other)
            g["count"] = rng.choice([0, -3, 1])
        else:
            # three parameters: over-determined, the first applicable relations win
            g = {"count": rng.randint(2, 9), "c2c_expansion": rng.choice([1.1, 0.9, 1.0]), "start_size": 0.05 * L}
        return {"kind": "chop", "L": L, "given": g, "boundary": True}

    def _gen_grading(self, rng: random.Random) -> dict:
        L = self._length(rng)
        k = rng.randint(0, 3)
        ratios = rng.choice([[1.0], [0.5, 0.5], [0.25, 0.75], [0.3, 0.4, 0.3], [0.2, 0.6, 0.2], [0.5, 0.25, 0.25], [0.6, 0.6]])[:k] if k else []
        chops = []
        for q in ratios:
            if rng.random() < 0.08:
                q = rng.choice([0.0, -0.5, 1.5, 1.0000001])
            c = self._gen_chop(rng, L * q if q > 0 else L)["given"]  # sizes in proportion to the sub-length
            chops.append({"ratio": q, "given": c})
        # round 2: the SAME chop object added again (as it is, or after chop.invert()), same sub-length
        if chops and rng.random() < 0.4:
            i = rng.randrange(len(chops))
            chops.append({"ratio": chops[i]["ratio"], "given": chops[i]["given"], "same_as": i, "invert_first": rng.random() < 0.6})
        return {"kind": "grading", "L": L, "chops": chops}

    # round 6b: multi-section gradings whose sections are ALL uniform (total expansion exactly 1, written in every way
    # the API offers) but differ in length ratio and/or count: seen from the other end the divisions must still come
    # in reverse order, although every expansion is its own reciprocal
    @staticmethod
    def _uniform_chop(rng: random.Random, sub: float, form: int) -> dict:
        n = rng.choice([1, 2, 3, 5, 8, 13, 40])
        size = sub / rng.choice([1.5, 3, 7.3, 12, 30.5])
        return [
            {"count": n},
            {"start_size": size},
            {"end_size": size},
            {"count": n, "c2c_expansion": 1},
            {"count": n, "c2c_expansion": 1.0},
            {"count": max(n, 2), "total_expansion": 1.0},
            {"start_size": size, "c2c_expansion": 1.0},
            {"end_size": size, "total_expansion": 1},
            {"start_size": size, "end_size": size},
        ][form % 9]

    def _gen_uniform_sections(self, rng: random.Random) -> dict:
        L = self._length(rng)
        ratios = rng.choice([[0.25, 0.75], [0.1, 0.9], [0.5, 0.5], [0.5, 0.3, 0.2], [0.2, 0.2, 0.6], [0.6, 0.3, 0.1], [0.4, 0.35, 0.25, 0.0]])
        ratios = [q for q in ratios if q > 0]
        chops = [{"ratio": q, "given": self._uniform_chop(rng, L * q, rng.randrange(9))} for q in ratios]
        if rng.random() < 0.25:  # one graded section among uniform ones (control: the usual path)
            chops[rng.randrange(len(chops))]["given"] = {"count": rng.randint(2, 9), "c2c_expansion": rng.choice([1.2, 0.8])}
        return {"kind": "grading", "L": L, "chops": chops, "why": "round 6b: uniform sections of unequal ratio / count"}

    @staticmethod
    def _uniform_section_list() -> List[dict]:
        why = "round 6b: every section uniform, sections unequal: the reversed grading lists them in reverse order"
        return [
            {"kind": "grading", "L": 1.0, "why": why,
             "chops": [{"ratio": 0.25, "given": {"count": 5}}, {"ratio": 0.75, "given": {"count": 3}}]},
            {"kind": "grading", "L": 2.0, "why": why,
             "chops": [{"ratio": 0.2, "given": {"start_size": 0.01}}, {"ratio": 0.8, "given": {"start_size": 0.1}}]},
            {"kind": "grading", "L": 0.05, "why": why,
             "chops": [{"ratio": 0.5, "given": {"count": 4}}, {"ratio": 0.3, "given": {"count": 10}}, {"ratio": 0.2, "given": {"count": 1}}]},
            {"kind": "grading", "L": 10.0, "why": why,
             "chops": [{"ratio": 0.1, "given": {"count": 6, "c2c_expansion": 1}}, {"ratio": 0.9, "given": {"count": 6}}]},
            {"kind": "grading", "L": 7, "why": why,
             "chops": [{"ratio": 0.5, "given": {"count": 4}}, {"ratio": 0.5, "given": {"count": 9}}]},
            {"kind": "grading", "L": 300.0, "why": why,
             "chops": [{"ratio": 0.3, "given": {"end_size": 2.5, "total_expansion": 1}}, {"ratio": 0.7, "given": {"count": 12, "total_expansion": 1.0}}]},
            # controls: symmetric (reversal is invisible), single section
            {"kind": "grading", "L": 1.0, "why": why,
             "chops": [{"ratio": 0.5, "given": {"count": 4}}, {"ratio": 0.5, "given": {"count": 4}}]},
            {"kind": "grading", "L": 1.0, "why": why, "chops": [{"ratio": 1.0, "given": {"count": 7}}]},
        ]

    def _exhaustive(self) -> List[dict]:
        """bounded exhaustive part of the thorough tier: all counts 1..200 x a fixed ratio set, all pairs with count"""
        out = []
        ratios = [0.5, 0.75, 0.95, 1 - 1e-6, 1 - 1e-9, 1.0, 1 + 1e-9, 1 + 1e-6, 1.05, 1.3, 2.0]
        for L in (1.0, 0.037):
            for n in range(1, 201):
                for c in ratios:
                    out.append({"kind": "chop", "L": L, "given": {"count": n, "c2c_expansion": c}})
                    out.append({"kind": "chop", "L": L, "given": {"count": n, "total_expansion": c}})
                    s = L / gsum(c, n)
                    out.append({"kind": "chop", "L": L, "given": {"count": n, "start_size": s}})
                    out.append({"kind": "chop", "L": L, "given": {"start_size": s, "c2c_expansion": c}})
                    out.append({"kind": "chop", "L": L, "given": {"end_size": s * c ** (n - 1), "c2c_expansion": c}})
        return out

    # ------------------------------------------------------------------ implementation
    def run_impl(self, case: dict) -> Any:
        from classy_blocks.grading.chop import Chop
        from classy_blocks.grading.grading import Grading

        if case["kind"] == "rel":
            from classy_blocks.grading import relations

            out, ins = case["name"].split("<")
            a, b = ins.split("+")
            fn = relations.get_calculation_functions().get(f"get_{out}__{a}__{b}")
            if fn is None:
                return {"missing": True}
            with warnings.catch_warnings():
                warnings.simplefilter("ignore")
                try:
                    ret = fn(case["L"], case["a"], case["b"])
                    return {"ok": True, "ret": _num(ret), "type": type(ret).__name__}
                except Exception as e:
                    return {"ok": False, "err": type(e).__name__, "msg": str(e)[:120]}
        if case["kind"] == "history":
            try:
                extra = {"preserve": case["preserve"]} if "preserve" in case else {}
                chop = Chop(**_given_kwargs(case["given"]), **extra)
            except Exception as e:
                return {"ctor": type(e).__name__}
            steps = []
            for op in case["ops"]:
                if op[0] == "copy":
                    before = _fields(chop)
                    try:
                        with warnings.catch_warnings():
                            warnings.simplefilter("ignore")
                            c = chop.copy_preserving(inverted=bool(op[1]))
                    except Exception as e:
                        steps.append({"op": "copy", "err": type(e).__name__})
                        continue
                    steps.append({"op": "copy", "err": None, "same_object": c is chop, "copy_fields": _fields(c), "L": op[2],
                                  "run": _calc(c, op[2]), "orig_before": before, "orig_after": _fields(chop)})
                    continue
                if op[0] == "calc":
                    steps.append({"op": "calc", "L": op[1], "run": _calc(chop, op[1])})
                elif op[0] == "set":
                    setattr(chop, op[1], op[2])  # plain attribute assignment on the dataclass
                    steps.append({"op": "set", "fields": _fields(chop)})
                else:
                    err = None
                    try:
                        chop.invert()
                    except Exception as e:
                        err = type(e).__name__
                    steps.append({"op": "invert", "err": err, "fields": _fields(chop)})
            return {"init": _fields(chop), "steps": steps}
        if case["kind"] == "chop":
            L = case["L"]
            try:
                chop = Chop(**_given_kwargs(case["given"]))
            except Exception as e:
                return {"ctor": type(e).__name__}
            out: Dict[str, Any] = {"init": _fields(chop), "run": _calc(chop, L)}
            try:
                inv = Chop(**_given_kwargs(case["given"]))
                inv.invert()
                out["inv_init"] = _fields(inv)
                out["inv_float"] = {k: getattr(inv, k) for k in KEYS}
                out["inv_run"] = _calc(inv, L)
            except Exception as e:
                out["inv_err"] = type(e).__name__
            return out

        L = case["L"]
        g = Grading(L)
        rows = []
        objs: List[Any] = []
        for ch in case["chops"]:
            pre: Dict[str, Any] = {}
            try:
                if "same_as" in ch and ch["same_as"] < len(objs):
                    chop = objs[ch["same_as"]]  # the very same object again
                    if ch.get("invert_first"):
                        try:
                            chop.invert()
                        except Exception as e:
                            pre["invert_err"] = type(e).__name__
                else:
                    chop = Chop(length_ratio=ch["ratio"], **_given_kwargs(ch["given"]))
            except Exception as e:
                rows.append({"ctor": type(e).__name__})
                break
            objs.append(chop)
            pre["cur"] = _fields(chop)
            log, restore = _logged_relations()
            try:
                with warnings.catch_warnings():
                    warnings.simplefilter("ignore")
                    try:
                        g.add_chop(chop)
                        d = g.specification[-1]
                        row = {"ok": True, "ratio": _num(d[0]), "count": d[1] if type(d[1]) is int else None, "total": _num(d[2]),
                               "sub": _num(L * ch["ratio"])}
                    except Exception as e:
                        row = {"ok": False, "err": type(e).__name__, "sub": _num(L * ch["ratio"])}
            finally:
                restore()
            row["log"] = [{"rel": e["rel"], "ret": (_num(e["ret"]) if "ret" in e else None), "exc": e.get("exc"),
                           "args": [_num(a) for a in e["args"]]} for e in log]
            row.update(pre)
            rows.append(row)
            if row["ok"]:
                try:  # reading the derived views between two additions must not freeze them
                    _ = g.inverted.specification
                    _ = g.count
                except Exception as e:
                    row["mid_read_err"] = type(e).__name__
            if not row["ok"]:
                break
        spec = [[_num(d[0]), d[1], _num(d[2])] for d in g.specification]
        res: Dict[str, Any] = {"rows": rows, "spec": spec, "n_spec": len(g.specification), "defined": bool(g.is_defined)}

        def written(gr):
            """the text blockMesh gets (Grading.description), or the exception class"""
            with warnings.catch_warnings():
                warnings.simplefilter("ignore")
                try:
                    return {"text": str(gr.description)}
                except Exception as e:
                    return {"err": type(e).__name__}

        res["descr"] = written(g)
        try:
            gi = g.inverted
            res["inv"] = [[_num(d[0]), d[1], _num(d[2])] for d in gi.specification]
            res["inv_same_object"] = gi is g
            res["inv_descr"] = written(gi)
            res["count"] = g.count
            res["inv_count"] = gi.count
            res["orig_after"] = [[_num(d[0]), d[1], _num(d[2])] for d in g.specification]
            gi2 = g.inverted  # read twice: the same answer, the original still untouched
            res["inv_again"] = [[_num(d[0]), d[1], _num(d[2])] for d in gi2.specification]
            res["orig_after_2"] = [[_num(d[0]), d[1], _num(d[2])] for d in g.specification]
        except Exception as e:
            res["inv_err"] = type(e).__name__
        return res

    # ------------------------------------------------------------------ model requests
    @staticmethod
    def _chop_arg(given: dict) -> Optional[str]:
        parts = []
        for k in KEYS:
            if k in given and given[k] is not None:
                v = given[k]
                if k == "count":
                    if isinstance(v, bool) or not isinstance(v, (int, float)) or (isinstance(v, float) and not math.isfinite(v)):
                        return None
                    parts.append(f"count:{v}" if isinstance(v, int) else f"count:{_rat(v)}")
                else:
                    parts.append(f"{k}:{v if isinstance(v, str) else _rat(v)}")
        return ",".join(parts) if parts else "-"

    @staticmethod
    def _oracle_and_tol(run: dict) -> Tuple[str, str, dict]:
        """solver answers read off the call log, and the tolerances for this case"""
        o = []
        cnt_tol = EPS_CNT
        root_tol = EPS_ROOT
        info: Dict[str, Any] = {}
        for e in run["log"]:
            out = e["rel"].split("<")[0]
            if e["ret"] is None or not isinstance(e["ret"], str):
                continue
            if out == "count":
                n = Fraction(e["ret"])
                if n.denominator != 1:
                    continue
                n = int(n)
                o.append(f"n:{n}")
                info["n"] = n
                if e["rel"] in ("count<start_size+c2c_expansion", "count<end_size+c2c_expansion") and isinstance(e["args"][1], str):
                    c = float(Fraction(e["args"][1]))
                    if abs(c - 1) > LIB_TOL * 0.98:  # log(1 + n(c-1)) carries an absolute error of ~1.1e-16 / (c-1) cells
                        cnt_tol = EPS_CNT + 4.4e-16 / abs(c - 1)
                if e["rel"] == "count<total_expansion+start_size" and isinstance(e["args"][0], str):
                    T = float(Fraction(e["args"][0]))
                    if T > 0 and abs(T - 1) >= LIB_TOL * 0.5 and n >= 2:
                        o.append(f"w1:{_rat(T ** (1.0 / (n - 1)))}")
                        if n >= 3:
                            o.append(f"w2:{_rat(T ** (1.0 / (n - 2)))}")
                        cnt_tol = EPS_CNT + 4.4e-16 * n / abs(math.log(T))
            elif out == "c2c_expansion":
                o.append(f"c:{e['ret']}")
                c = float(Fraction(e["ret"]))
                if isinstance(e["args"][0], str) and c > 0:  # brentq stops at an absolute error of 2e-12 in c
                    root_tol = EPS_ROOT + 4e-12 * max(float(Fraction(e["args"][0])) - 1, 0) / min(1.0, c)
        tol = f"cnt:{_rat(cnt_tol)},root:{_rat(root_tol)}"
        info["cnt_tol"] = cnt_tol
        return (",".join(o) if o else "-"), tol, info

    @staticmethod
    def _too_large(run: dict) -> bool:
        """counts beyond 1500: the exact powers have > 10^5 digits; such cases are left to the oracle"""
        for e in run["log"]:
            if e["rel"].startswith("count<") and isinstance(e["ret"], str) and abs(Fraction(e["ret"])) > 1500:
                return True
        return False

    def _chop_requests(self, L: float, given: dict, impl: dict) -> List[Tuple[str, str]]:
        reqs: List[Tuple[str, str]] = []
        arg = self._chop_arg(given)
        if arg is None or self._too_large(impl["run"]) or ("inv_run" in impl and self._too_large(impl["inv_run"])):
            return reqs
        if isinstance(given.get("count"), (int, float)) and given["count"] > 1500:
            return reqs
        reqs.append(("init", f"c03.init {arg}"))
        orc, tol, info = self._oracle_and_tol(impl["run"])
        reqs.append(("calc", f"c03.calc {_rat(L)} {arg} {orc} {tol}"))
        # exact executable count as a cross-check of the log-based counts
        for e in impl["run"]["log"]:
            if e["rel"] in ("count<start_size+c2c_expansion", "count<end_size+c2c_expansion") and e["ret"] is not None:
                size, c = (Fraction(a) for a in e["args"])
                n = int(Fraction(e["ret"]))
                if abs(float(c) - 1) > LIB_TOL * 1.02 and 0 < n <= 400 and size > 0 and c > 0 and L > 0:
                    cc = c if e["rel"].startswith("count<start") else 1 / c
                    if cc < 1 and float(size) / (1 - float(cc)) < L * (1 + 1e-6):
                        continue  # the progression barely reaches the edge: cells of size ~1e-17·L decide the count
                    reqs.append(("count", f"c03.count {size.numerator}/{size.denominator} {cc.numerator}/{cc.denominator} {_rat(L)}"))
        if "inv_init" in impl:
            reqs.append(("inv", f"c03.inv {arg}"))
            inv_given = {k: v for k, v in impl["inv_init"].items() if v is not None}
            if all(isinstance(v, str) for v in inv_given.values()):
                if "count" in inv_given:
                    inv_given["count"] = int(Fraction(inv_given["count"]))
                iarg = self._chop_arg(inv_given)
                orc2, tol2, _ = self._oracle_and_tol(impl["inv_run"])
                reqs.append(("inv_calc", f"c03.calc {_rat(L)} {iarg} {orc2} {tol2}"))
        else:
            reqs.append(("inv", f"c03.inv {arg}"))
        return reqs

    def _rel_request(self, case: dict, impl: dict) -> List[Tuple[str, str]]:
        if impl.get("missing"):
            return [("rel", f"c03.rel {case['name']} {_rat(case['L'])} {_rat(case['a'])} {_rat(case['b'])} - -")]
        out, ins = case["name"].split("<")
        a, _b = ins.split("+")
        fake = {"log": [{"rel": case["name"], "ret": impl.get("ret") if impl["ok"] else None, "exc": impl.get("err"),
                         "args": [_num(case["a"]), _num(case["b"])]}]}
        if self._too_large(fake) or (a == "count" and case["a"] > 1500):
            return []
        orc, tol, _ = self._oracle_and_tol(fake)
        return [("rel", f"c03.rel {case['name']} {_rat(case['L'])} {_rat(case['a'])} {_rat(case['b'])} {orc} {tol}")]

    def _history_request(self, case: dict, impl: dict) -> List[Tuple[str, str]]:
        if "ctor" in impl:
            return []
        arg = self._chop_arg(case["given"])
        if arg is None or (isinstance(case["given"].get("count"), (int, float)) and case["given"]["count"] > 1500):
            return []
        parts = []
        for st in impl["steps"]:
            if st["op"] == "calc":
                if self._too_large(st["run"]):
                    return []
                orc, tol, _ = self._oracle_and_tol(st["run"])
                parts.append(f"calc|{_rat(st['L'])}|{orc}|{tol}")
            elif st["op"] == "copy":
                op = case["ops"][len(parts)]
                if st["err"]:
                    parts.append(f"copy|{int(bool(op[1]))}|{_rat(op[2])}|-|-|-")
                    continue
                obs = _fields_arg(st["copy_fields"])
                if obs is None or self._too_large(st["run"]):
                    return []
                orc, tol, _ = self._oracle_and_tol(st["run"])
                parts.append(f"copy|{int(bool(op[1]))}|{_rat(op[2])}|{orc}|{tol}|{obs}")
            elif st["op"] == "set":
                op = case["ops"][len(parts)]
                parts.append(f"set|{op[1]}|{op[2] if isinstance(op[2], int) else _rat(op[2])}")
            else:
                obs = _fields_arg(st["fields"])
                if obs is None:
                    return []
                parts.append(f"inv|{obs}")
        return [("hist", f"c03.hist {arg} " + ";".join(parts) + (f" {case['preserve']}" if "preserve" in case else ""))]

    def _tagged(self, case: dict, impl: Any) -> List[Tuple[str, str]]:
        if case["kind"] == "rel":
            return self._rel_request(case, impl)
        if case["kind"] == "history":
            return self._history_request(case, impl)
        if case["kind"] == "chop":
            if "ctor" in impl:
                return []
            return self._chop_requests(case["L"], case["given"], impl)
        reqs: List[Tuple[str, str]] = []
        for i, (ch, row) in enumerate(zip(case["chops"], impl["rows"])):
            if "ctor" in row:
                continue
            arg = self._chop_arg(ch["given"])
            if "same_as" in ch:  # the object was used (and perhaps inverted in place) before: its present fields
                arg = _fields_arg(row.get("cur", {}))
                if ch.get("invert_first") and "invert_err" not in row and "cur" in impl["rows"][ch["same_as"]]:
                    before = _fields_arg(impl["rows"][ch["same_as"]]["cur"])
                    if before is not None and arg is not None:
                        reqs.append((f"inv{i}", f"c03.hist {before} inv|{arg}"))
            if arg is None or self._too_large(row):
                continue
            orc, tol, _ = self._oracle_and_tol(row)
            reqs.append((f"add{i}", f"c03.addchop {_rat(case['L'])} {_rat(ch['ratio'])} {row['sub']} {arg} {orc} {tol}"))
        spec = ",".join(f"{d[0]}:{d[1]}:{d[2]}" for d in impl["spec"]) if impl["spec"] else "-"
        if all(isinstance(d[0], str) and isinstance(d[2], str) and isinstance(d[1], int) and d[1] >= 0 for d in impl["spec"]):
            reqs.append(("ginv", f"c03.ginv {spec}"))
            reqs.append(("descr", f"c03.descr {spec}"))
        return reqs

    def requests(self, case: dict, impl: Any) -> List[str]:
        return [r for _, r in self._tagged(case, impl)]

    # ------------------------------------------------------------------ comparison
    @staticmethod
    def _parse_vals(tokens: List[str]) -> Dict[str, Optional[Fraction]]:
        out: Dict[str, Optional[Fraction]] = {}
        for t in tokens:
            k, _, v = t.partition(":")
            if k in KEYS:
                out[k] = None if v == "None" else Fraction(v)
        return out

    @staticmethod
    def _close(a: Fraction, b: Fraction, eps: float) -> bool:
        if a == b:
            return True
        return abs(a - b) <= Fraction(eps) * max(abs(a), abs(b))

    @staticmethod
    def _at_limit(L: float, run: dict) -> bool:
        """the argument of the logarithm in a count<size+c2c relation is within 1e-9 of zero"""
        for e in run["log"]:
            if e["rel"] in ("count<start_size+c2c_expansion", "count<end_size+c2c_expansion"):
                if not all(isinstance(a, str) for a in e["args"]):
                    return False
                size, c = (Fraction(a) for a in e["args"])
                if size <= 0 or c <= 0:
                    return False
                LL = Fraction(L)
                arg = 1 - LL / size * (1 - c) if e["rel"].startswith("count<start") else 1 + LL / size * (1 - c) / c
                return abs(arg) < Fraction(1, 10**9)
        return False

    @staticmethod
    def _parse_written(text: str) -> Optional[List[Tuple[Optional[float], Optional[int], float]]]:
        """'((l n e)(l n e))' or 'e' -> [(length ratio, count, expansion)]; None when the text has another shape"""
        import re

        t = text.strip()
        try:
            if not t.startswith("("):
                return [(None, None, float(t))]
            if not re.fullmatch(r"\((\([^()]+\))+\)", t):
                return None
            out = []
            for m in re.findall(r"\(([^()]+)\)", t):
                a, b, c = m.split()
                n = float(b)
                if n != int(n):
                    return None
                out.append((float(a), int(n), float(c)))
            return out
        except ValueError:
            return None

    def _cmp_written(self, descr: dict, ans: str) -> Optional[str]:
        tok = ans.split()
        if "err" in descr:
            return None if tok[0] == "err" else f"description raises {descr['err']}, model answers {ans[:120]}"
        if tok[0] != "ok":
            return f"description is {descr['text'][:80]!r}, model answers {ans[:120]}"
        got = self._parse_written(descr["text"])
        if got is None:
            return f"description {descr['text'][:120]!r} is not a number or a list of (ratio count expansion)"
        if tok[1] == "single":
            want = [(None, None, Fraction(tok[2]))]
        else:
            want = [(Fraction(x.split(":")[0]), int(x.split(":")[1]), Fraction(x.split(":")[2])) for x in tok[2].split(",")]
        if len(got) != len(want):
            return f"description has {len(got)} divisions, model {len(want)}"
        for g, w in zip(got, want):
            if (g[0] is None) != (w[0] is None) or g[1] != w[1]:
                return f"description division {g}, model {w}"
            for a, b in ((g[0], w[0]), (g[2], w[2])):
                if a is not None and not self._close(Fraction(a), Fraction(b), 1e-12):
                    return f"description writes {a!r}, the specification holds {float(b)!r}"
        return None

    @staticmethod
    def _derived_at_switch(run: dict) -> bool:
        """A relation of this run received a value that an earlier relation of the same run had computed in floats
        (e.g. total = end/start) and that lies within 1e-9·TOL of a `TOL` switch (|x-1| = TOL): the float and the
        exact value may fall on different sides, both branches are legitimate there."""
        produced = set()
        for e in run["log"]:
            for a in e["args"]:
                if isinstance(a, str) and a in produced:
                    x = float(Fraction(a))
                    if abs(abs(x - 1) - LIB_TOL) <= 1e-9 * LIB_TOL:
                        return True
            if isinstance(e["ret"], str):
                produced.add(e["ret"])
        return False

    def _cmp_calc(self, run: dict, ans: str, what: str, L: float = 1.0) -> Optional[str]:
        why = self._cmp_calc_strict(run, ans, what, L)
        if why and self._derived_at_switch(run):
            return None
        return why

    def _cmp_calc_strict(self, run: dict, ans: str, what: str, L: float = 1.0) -> Optional[str]:
        tok = ans.split()
        plan = next((t[5:] for t in tok if t.startswith("plan:")), "-")
        plan_list = [] if plan == "-" else plan.split(";")
        called = [e["rel"] for e in run["log"]]
        if run["ok"]:
            if tok[0] != "ok" and self._at_limit(L, run):
                return None
            if tok[0] != "ok":
                return f"{what}: implementation returns ({run['count']}, {run['total']}), model answers {ans[:200]}"
            if called != plan_list:
                return f"{what}: relations called {called}, model plan {plan_list}"
            mv = self._parse_vals(tok[1:])
            if run["count"] is None:
                return f"{what}: count is not a python int ({run['count_type']})"
            if mv.get("count") != run["count"]:
                return f"{what}: count {run['count']} vs model {mv.get('count')}"
            for k in KEYS[1:]:
                iv = run["results"][k]
                if not isinstance(iv, str):
                    return f"{what}: result {k} is {iv}"
                if mv.get(k) is None or not self._close(mv[k], Fraction(iv), EPS_CMP):
                    return f"{what}: result {k} = {float(Fraction(iv))!r}, model {mv.get(k) and float(mv[k])!r}"
            if not isinstance(run["total"], str) or Fraction(run["total"]) != Fraction(run["results"]["total_expansion"]):
                return f"{what}: returned total differs from results['total_expansion']"
            return None
        # implementation raised
        if tok[0] != "err":
            return f"{what}: implementation raises {run['err']} ({run['msg'][:60]}), model answers {ans[:160]}"
        kind = tok[1]
        at = next((t[3:] for t in tok if t.startswith("at:")), "None")
        failing = next((e["rel"] for e in run["log"] if e["exc"]), None)
        if kind.startswith("fail") or kind in ("table", "unmodelled"):
            return f"{what}: model answers {ans[:160]} (implementation raised {run['err']})"
        if (failing or "None") != at:
            return f"{what}: implementation raises {run['err']} in {failing}, model in {at}"
        if called != plan_list[: len(called)]:
            return f"{what}: relations called {called}, model plan {plan_list}"
        if at in ("count<start_size+c2c_expansion", "count<end_size+c2c_expansion") and self._at_limit(L, run):
            return None  # log of a number within rounding of 0: nan, -inf or a huge count, all legitimate
        if kind == "ValueError" and run["err"] != "ValueError":
            return f"{what}: model expects ValueError, implementation raises {run['err']}"
        if kind == "ZeroDivisionError" and run["err"] != "ZeroDivisionError":
            return f"{what}: model expects ZeroDivisionError, implementation raises {run['err']}"
        if kind in ("Numeric", "needs-oracle") and run["err"] not in ("ValueError", "OverflowError", "ZeroDivisionError"):
            return f"{what}: unexpected exception class {run['err']}"
        if kind == "needs-oracle" and at in ("count<start_size+c2c_expansion", "count<end_size+c2c_expansion",
                                             "count<total_expansion+c2c_expansion"):
            return f"{what}: {at} raised {run['err']} although the model finds the count computable"
        return None

    def compare(self, case: dict, impl: Any, model: List[str]) -> Optional[str]:
        tagged = self._tagged(case, impl)
        if len(tagged) != len(model):
            return "request/answer mismatch"
        if any(a == "bad-op" for a in model):
            i = model.index("bad-op")
            return f"model rejects the request as ill-formed: {tagged[i][1][:200]}"
        if case["kind"] == "rel":
            if not tagged:
                return None
            ans = model[0]
            if impl.get("missing"):
                return f"relation {case['name']} is not defined by the implementation, model answers {ans[:80]}"
            tok = ans.split()
            if impl["ok"]:
                if tok[0] != "ok":
                    return f"{case['name']}({case['L']}, {case['a']}, {case['b']}) = {impl['ret']}, model answers {ans[:120]}"
                if not isinstance(impl["ret"], str) or not self._close(Fraction(tok[1]), Fraction(impl["ret"]), EPS_CMP):
                    return f"{case['name']}({case['L']}, {case['a']}, {case['b']}) = {impl['ret']}, model {tok[1][:80]}"
                return None
            if tok[0] != "err":
                return f"{case['name']}({case['L']}, {case['a']}, {case['b']}) raises {impl['err']}, model answers {ans[:120]}"
            kind = tok[1]
            if kind.startswith("fail") or kind in ("table", "unmodelled"):
                return f"{case['name']}: model answers {ans[:120]} (implementation raised {impl['err']})"
            if kind in ("ValueError", "ZeroDivisionError") and impl["err"] != kind:
                return f"{case['name']}({case['L']}, {case['a']}, {case['b']}): model expects {kind}, implementation raises {impl['err']}"
            if kind == "needs-oracle" and case["name"].startswith("count<") and not case["name"].endswith("+start_size"):
                return f"{case['name']} raised {impl['err']} although the model finds the count computable"
            return None
        if case["kind"] == "history":
            if not tagged:
                return None
            answers = model[0].split(" || ")
            if len(answers) != len(impl["steps"]):
                return f"history: {len(impl['steps'])} steps, model answers {len(answers)}: {model[0][:200]}"
            for i, (st, ans) in enumerate(zip(impl["steps"], answers)):
                if st["op"] == "calc":
                    why = self._cmp_calc(st["run"], ans, f"history {case['ops']} step {i} calculate({st['L']})", st["L"])
                    if why:
                        return why
                elif st["op"] == "copy":
                    if st["err"]:
                        if not ans.startswith("nocopy"):
                            return f"history step {i}: copy_preserving raises {st['err']}, model answers {ans[:120]}"
                        continue
                    if st["orig_before"] != st["orig_after"]:
                        return f"history step {i}: copy_preserving changed the chop it was called on: {st['orig_before']} -> {st['orig_after']}"
                    if ans.startswith("nocopy"):
                        continue  # the last calculate raised: partial results are not modelled
                    if ans.startswith("fail"):
                        return f"history step {i}: copy_preserving returns {st['copy_fields']}, model {ans[:200]}"
                    why = self._cmp_calc(st["run"], ans, f"history {case['ops']} step {i} copy.calculate({st['L']})", st["L"])
                    if why:
                        return why
                elif st["op"] == "set":
                    mv = self._parse_vals(ans.split()[1:]) if ans.startswith("ok") else None
                    for k in KEYS:
                        iv = st["fields"][k]
                        if mv is None or (iv is None) != (mv.get(k) is None) or (iv is not None and (not isinstance(iv, str) or Fraction(iv) != mv[k])):
                            return f"history step {i}: fields after assignment {st['fields']}, model {ans[:200]}"
                else:
                    if ans.startswith("fail"):
                        return f"history step {i}: fields after invert() {st['fields']}, model {ans[:200]}"
                    if (st["err"] is None) != ans.startswith("ok"):
                        return f"history step {i}: invert() {'raises ' + st['err'] if st['err'] else 'succeeds'}, model answers {ans[:120]}"
            return None
        if case["kind"] == "chop":
            for (tag, req), ans in zip(tagged, model):
                if tag == "init":
                    mv = self._parse_vals(ans.split()[1:])
                    for k in KEYS:
                        iv = impl["init"][k]
                        if (iv is None) != (mv.get(k) is None) or (iv is not None and (not isinstance(iv, str) or Fraction(iv) != mv[k])):
                            return f"__post_init__: field {k} = {iv}, model {mv.get(k)}"
                elif tag == "calc":
                    why = self._cmp_calc(impl["run"], ans, "calculate", case["L"])
                    if why:
                        return why
                elif tag == "count":
                    n_impl = impl["run"]["count"] if impl["run"]["ok"] else None
                    for e in impl["run"]["log"]:
                        if e["rel"].startswith("count<") and e["ret"] is not None:
                            n_impl = int(Fraction(e["ret"]))
                    if not ans.startswith("ok "):
                        return f"exact count: model answers {ans}, implementation {n_impl}"
                    if n_impl is None or abs(int(ans[3:]) - n_impl) > 1:
                        return f"exact count {ans[3:]} vs implementation {n_impl}"
                elif tag == "inv":
                    if "inv_err" in impl:
                        if not ans.startswith("err"):
                            return f"invert raises {impl['inv_err']}, model answers {ans[:100]}"
                        continue
                    if not ans.startswith("ok"):
                        return f"invert succeeds, model answers {ans}"
                    mv = self._parse_vals(ans.split()[1:])
                    for k in KEYS:
                        iv = impl["inv_init"][k]
                        if (iv is None) != (mv.get(k) is None):
                            return f"invert: field {k} = {iv}, model {mv.get(k)}"
                        if iv is not None and (not isinstance(iv, str) or not self._close(Fraction(iv), mv[k], 1e-15)):
                            return f"invert: field {k} = {iv}, model {mv.get(k)}"
                elif tag == "inv_calc":
                    why = self._cmp_calc(impl["inv_run"], ans, "calculate(inverted)", case["L"])
                    if why:
                        return why
            return None
        # grading
        for (tag, req), ans in zip(tagged, model):
            if tag.startswith("inv") and tag != "inv":
                if not ans.startswith("ok"):
                    return f"add_chop of an inverted chop object: fields {impl['rows'][int(tag[3:])].get('cur')}, model {ans[:200]}"
            elif tag.startswith("add"):
                row = impl["rows"][int(tag[3:])]
                tok = ans.split()
                if row["ok"]:
                    if tok[0] != "ok":
                        return f"add_chop accepted, model answers {ans[:160]}"
                    q, n, T = tok[1].split(":")
                    if Fraction(q) != Fraction(row["ratio"]) or int(n) != row["count"] or not isinstance(row["total"], str) or not self._close(
                        Fraction(T), Fraction(row["total"]), EPS_CMP
                    ):
                        return f"add_chop division {row['ratio']} {row['count']} {row['total']}, model {tok[1][:120]}"
                else:
                    if tok[0] != "err":
                        return f"add_chop raises {row['err']}, model answers {ans[:160]}"
                    failing = next((e["rel"] for e in row["log"] if e["exc"]), None)
                    at = next((t[3:] for t in tok if t.startswith("at:")), "None")
                    if at == "ratio":
                        if row["err"] != "ValueError" or row["log"]:
                            return f"add_chop: model rejects the length ratio, implementation {row['err']} after {len(row['log'])} calls"
                    elif (failing or "None") != at:
                        return f"add_chop raises {row['err']} in {failing}, model in {at}"
            elif tag == "descr":
                why = self._cmp_written(impl["descr"], ans)
                if why:
                    return why
            elif tag == "ginv":
                if "inv_err" in impl:
                    if not ans.startswith("err"):
                        return f"inverted raises {impl['inv_err']}, model {ans[:100]}"
                    continue
                tok = ans.split()
                if tok[0] != "ok":
                    return f"inverted succeeds, model {ans[:100]}"
                mrows = [] if tok[2] == "-" else [x.split(":") for x in tok[2].split(",")]
                if len(mrows) != len(impl["inv"]):
                    return "inverted: number of divisions differs"
                for m, d in zip(mrows, impl["inv"]):
                    if Fraction(m[0]) != Fraction(d[0]) or int(m[1]) != d[1] or not self._close(Fraction(m[2]), Fraction(d[2]), 1e-15):
                        return f"inverted division {d}, model {m}"
                if int(tok[1].split(":")[1]) != impl["inv_count"]:
                    return f"inverted count {impl['inv_count']}, model {tok[1]}"
        return None

    # ------------------------------------------------------------------ oracle: the property on the implementation
    @staticmethod
    def _pairname(given: dict) -> str:
        return "+".join(k for k in KEYS if k in given) or "none"

    def _spec_violations(self, L: float, given: dict, n: Any, T_raw: Any, tag: str) -> Tuple[List[dict], dict]:
        """the clauses about one returned grading (count, total) for the request `given` on length L"""
        v: List[dict] = []
        info: Dict[str, Any] = {"tie": False}

        def bad(clause, what, observed=None, expected=None):
            v.append({"site": f"Chop.calculate[{tag}]:{clause}", "what": what, "observed": observed, "expected": expected})

        if type(n) is not int or n < 1:
            bad("count-not-an-integer>=1", f"count = {n!r}")
            return v, info
        if not isinstance(T_raw, str):
            bad("total-expansion-not-finite-positive", f"total expansion = {T_raw!r}")
            return v, info
        T = float(Fraction(T_raw))
        if not (math.isfinite(T) and T > 0):
            bad("total-expansion-not-finite-positive", f"total expansion = {T!r}")
            return v, info
        if len(given) > 2:
            return v, info  # over-determined: only "integer count >= 1, finite positive expansion" is required
        eps = 1e-8
        s1, e1 = realised(L, n, T)
        if "count" in given and n != max(int(given["count"]), 1):
            bad("count-not-reproduced", f"count {given['count']} given, {n} returned", n, given["count"])
        if "total_expansion" in given and T != float(given["total_expansion"]):
            bad("total-expansion-not-reproduced", f"total expansion {given['total_expansion']} given, {T} returned", T)
        if "c2c_expansion" in given and "total_expansion" not in given:
            r = float(given["c2c_expansion"])
            if r > 0 and abs(math.log(T) - (n - 1) * math.log(r)) > 1e-9 * n:
                bad("c2c-expansion-not-reproduced", f"total expansion {T} is not c2c^(count-1) = {r ** (n - 1)}", T, r ** (n - 1))
        Tg = None
        if "total_expansion" in given:
            Tg = float(given["total_expansion"])
        elif "start_size" in given and "end_size" in given:
            Tg = float(given["end_size"]) / float(given["start_size"])
        for key, real in (("start_size", s1), ("end_size", e1)):
            if key not in given:
                continue
            req = float(given[key])
            if "count" in given:
                tol = eps + (1.01 * LIB_TOL if abs(n * req - L) / L < LIB_TOL else 0.0)
                if n >= 2:  # brentq stops at an absolute error of 2e-12 in c
                    tol += 4e-12 * (n - 1) / min(1.0, T ** (1.0 / (n - 1)))
                if abs(real - req) > tol * req:
                    bad(f"{key}-not-reproduced", f"{key} {req} requested with count {n}, blockMesh makes {real}", real, req)
                continue
            slack = eps
            if "c2c_expansion" in given and abs(float(given["c2c_expansion"]) - 1) <= LIB_TOL * 1.02:
                slack += n * abs(float(given["c2c_expansion"]) - 1)
            if "c2c_expansion" in given and abs(float(given["c2c_expansion"]) - 1) >= LIB_TOL * 0.98:
                slack += 4.4e-16 / abs(float(given["c2c_expansion"]) - 1)  # rounding inside log(1 + n(c-1))
            if Tg is not None and Tg > 0:
                if abs(Tg - 1) < LIB_TOL * 1.02:
                    slack += abs(Tg - 1)  # uniform branch: the deviation of T from 1 is ignored
                if abs(Tg - 1) >= LIB_TOL * 0.98:
                    slack += 4.4e-16 * n / abs(math.log(Tg))  # cancellation in 1 - T**(1/(n-1)) inside brentq's function
            if real > req * (1 + slack):
                bad(f"{key}-coarser-than-requested", f"{key} {req} requested, {n} cells give {real}", real, req)
            if n >= 2:
                if "c2c_expansion" in given:
                    r = float(given["c2c_expansion"])
                    fewer = L / gsum(r if key == "start_size" else 1 / r, n - 1)
                else:
                    fs, fe = realised(L, n - 1, T)
                    fewer = fs if key == "start_size" else fe
                if fewer < req * (1 - slack):
                    bad(f"{key}-one-cell-fewer-suffices", f"{key} {req} requested, already {n - 1} cells give {fewer}", fewer, req)
                if fewer <= req * (1 + 4 * slack + 1e-6):
                    info["tie"] = True
            if real >= req * (1 - 4 * slack - 1e-6):
                info["tie"] = True
        if "c2c_expansion" in given and "total_expansion" in given and len(given) == 2:
            r = float(given["c2c_expansion"])
            lt, lr = math.log(Tg), math.log(r) if r > 0 else float("nan")
            tolx = 1e-9 * n
            if lr > 0 and not ((n - 1) * lr <= lt + tolx and lt - tolx <= n * lr):
                bad("count-is-not-the-rounding-of-log-ratio", f"c2c {r}, total {Tg}: count {n}", n)
            if lr < 0 and not ((n - 1) * lr >= lt - tolx and lt + tolx >= n * lr):
                bad("count-is-not-the-rounding-of-log-ratio", f"c2c {r}, total {Tg}: count {n}", n)
            if abs(lt - (n - 1) * lr) < 1e-6 or abs(lt - n * lr) < 1e-6:
                info["tie"] = True
        return v, info

    @staticmethod
    def _must_reject(L: float, g: dict) -> Optional[str]:
        m = 1e-6
        if L <= 0:
            return "length<=0"
        for k in ("start_size", "end_size"):
            if k in g and g[k] <= 0:
                return f"{k}<=0"
        for k in ("c2c_expansion", "total_expansion"):
            if k in g and g[k] == 0:
                return f"{k}=0"
        if len(g) > 2:
            return None
        if "count" in g:
            n = max(int(g["count"]), 1)
            for k in ("start_size", "end_size"):
                if k in g and g[k] > L * (1 + m):
                    return f"{k}>length"
                if k in g and n == 1 and g[k] < L * (1 - m):
                    return f"count=1,{k}<length"
            if n == 1 and "total_expansion" in g and abs(g["total_expansion"] - 1) > m:
                return "count=1,total_expansion!=1"
        if "c2c_expansion" in g and len(g) == 2:
            r = g["c2c_expansion"]
            for k in ("start_size", "end_size"):
                if k in g and r > 0:
                    rr = r if k == "start_size" else 1 / r
                    if rr < 1 - 1.02 * LIB_TOL and g[k] / (1 - rr) < L * (1 - m):
                        return "progression-shorter-than-the-edge"
            if "total_expansion" in g:
                T = g["total_expansion"]
                if (r - 1) * (T - 1) < 0 and abs(r - 1) > m and abs(T - 1) > m:
                    return "ratios-on-opposite-sides-of-1"
        if len(g) == 1 and ("total_expansion" in g) and abs(g["total_expansion"] - 1) > m:
            return "total_expansion-alone-with-default-c2c=1"
        if len(g) == 0 or (len(g) == 1 and "c2c_expansion" in g):
            return "not-enough-parameters"
        return None

    @staticmethod
    def _fragile(g: dict) -> bool:
        """within 2% of the TOL switch, or the cancellation zone of the root-finding count"""
        for k in ("c2c_expansion", "total_expansion"):
            if k in g and 0.98 * LIB_TOL <= abs(g[k] - 1) <= 1.02 * LIB_TOL:
                return True
        T = None
        if "total_expansion" in g and ("start_size" in g or "end_size" in g):
            T = g["total_expansion"]
        if "start_size" in g and "end_size" in g and g["start_size"] > 0:
            T = g["end_size"] / g["start_size"]
        return T is not None and T > 0 and 0.98 * LIB_TOL <= abs(T - 1) < 1e-4

    @staticmethod
    def _must_accept(L: float, g: dict) -> bool:
        """clearly realisable, well inside every limit of the library"""
        if L <= 0 or len(g) > 2 or C03._must_reject(L, g) or C03._fragile(g):
            return False
        m = 1e-5
        sizes = [g[k] for k in ("start_size", "end_size") if k in g]
        if any(not (1e-4 * L * (1 - m) <= s <= L * (1 - m)) for s in sizes):
            return False
        ratios = [g[k] for k in ("c2c_expansion", "total_expansion") if k in g]
        if any(not (0.5 <= r <= 2) for r in ratios):
            return False
        if "count" in g:
            n = max(int(g["count"]), 1)
            if not (1 <= g["count"] <= 200):
                return False
            if len(g) == 1 or "c2c_expansion" in g:
                return True
            if "total_expansion" in g:
                return n >= 2
            if n < 2:
                return False
            key = "start_size" if "start_size" in g else "end_size"
            q = L / g[key]
            if abs(n * g[key] - L) / L < 0.5 * LIB_TOL:
                return True
            if abs(n * g[key] - L) / L < 4 * LIB_TOL:
                return False
            c = solve_c(n, q)
            return abs((n - 1) * math.log(c)) < math.log(1e6)
        if len(g) == 1:
            return "start_size" in g or "end_size" in g
        if "c2c_expansion" in g:
            r = g["c2c_expansion"]
            if "total_expansion" in g:
                T = g["total_expansion"]
                if abs(r - 1) < 1e-6:
                    return False
                return T == 1 or ((r - 1) * (T - 1) > 0 and abs(T - 1) > m)
            k = "start_size" if "start_size" in g else "end_size"
            rr = r if k == "start_size" else 1 / r
            if rr < 1 - 1.02 * LIB_TOL:
                return g[k] / (1 - rr) > L * (1 + 1e-3)
            return True
        if "total_expansion" in g:
            T = g["total_expansion"]
            s = g["start_size"] if "start_size" in g else g["end_size"] / T
            # like the (start, end) pair below: first and last cell together must leave room on the edge.  At an exact
            # two-cell fit (s + s*T == L to the ulp) with T near 1 the bracket [0, L/d_min] of brentq ends at the root and the
            # search can run into the pole of fcnt at cnt == 1 (OverflowError, measured up to |T-1| ~ 5e-4): not "clearly
            # realisable, well inside every limit"; a grading returned there is still judged like any other
            return s <= L * (1 - m) and s * T <= L * (1 - m) and s >= 1e-4 * L and s + s * T <= L * (1 - m)
        s, e = g["start_size"], g["end_size"]
        return s + e <= L * (1 - m)

    @staticmethod
    def _one_cell_start(L: float, g: dict) -> bool:
        """the input class of the known finding: one cell requested together with a start size other than the length"""
        return (
            len(g) == 2 and "start_size" in g and "count" in g and max(int(g["count"]), 1) == 1
            and L > 0 and 0 < g["start_size"] < L and abs(g["start_size"] - L) / L >= LIB_TOL
        )

    def _oracle_history(self, case: dict, impl: dict) -> List[dict]:
        """One Chop object through a sequence of calculate / invert calls.  Every calculate must answer for the parameters
        the object holds at that moment (computed here from the constructor arguments and the number of inversions, not
        read from the object), on the length it is given; two consecutive evaluations on the same length give the same
        answer when the parameters are the same, and count / reciprocal expansion when one inversion lies between."""
        out: List[dict] = []
        if "ctor" in impl:
            return out
        cur = _effective(case["given"])
        prev = None  # (length, parameters, run, number of inversions so far)
        flips = 0
        for i, (op, st) in enumerate(zip(case["ops"], impl["steps"])):
            if op[0] == "copy":
                # the reversed (or plain) copy is a new chop; asking for it must leave the chop itself alone
                if st["err"]:
                    continue
                if st["orig_before"] != st["orig_after"]:
                    out.append({"site": "Chop.copy_preserving:changes-the-chop-it-is-called-on",
                                "what": f"steps {case['ops'][: i + 1]} on one Chop({case['given']}): fields {st['orig_before']} -> {st['orig_after']}"
                                        f"{' (the same object is returned)' if st['same_object'] else ''}"})
                    return out
                crun = st["run"]
                cf = {k: (int(Fraction(v)) if k == "count" else float(Fraction(v))) for k, v in st["copy_fields"].items()
                      if isinstance(v, str)}
                if len(cf) == 2:
                    single = self._oracle_chop(op[2], cf, {"run": crun}, False, reversal=False)
                    for v in single:
                        v["what"] = f"copy_preserving(inverted={bool(op[1])}) after {case['ops'][:i]} on Chop({case['given']}): " + v["what"]
                    out.extend(single)
                    if single:
                        return out
                consistent = "count" in cur or (case.get("preserve", "c2c_expansion") == "c2c_expansion" and len(cur) == 2
                                                and "c2c_expansion" in cur and "total_expansion" not in cur)
                if prev is not None and prev[3] == flips and prev[0] == op[2] and prev[2]["ok"] and crun["ok"] and consistent and len(cur) <= 2:
                    n1, n2 = prev[2]["count"], crun["count"]
                    T1, T2 = float(Fraction(prev[2]["total"])), float(Fraction(crun["total"]))
                    want = -math.log(T1) if op[1] else math.log(T1)
                    if n1 != n2 or not (T2 > 0 and abs(math.log(T2) - want) <= 2e-5):
                        out.append({"site": f"Chop.copy_preserving[{self._pairname(cur)}]:copy-does-not-reproduce-the-chop" + ("-reversed" if op[1] else ""),
                                    "what": f"steps {case['ops'][: i + 1]} on Chop({case['given']}): chop ({n1}, {T1}), copy ({n2}, {T2})",
                                    "observed": [n2, T2], "expected": [n1, math.exp(want)]})
                        return out
                continue
            if op[0] == "set":
                cur = dict(cur)
                cur[op[1]] = op[2]
                prev = None
                continue
            if op[0] == "invert":
                try:
                    cur = _inverted(cur)
                    flips += 1
                    if st["err"]:
                        out.append({"site": "Chop.invert:raises", "what": f"{case['given']} {case['ops'][: i + 1]}: {st['err']}"})
                        return out
                except ZeroDivisionError:
                    return out  # zero ratio: nothing more is claimed about this object
                continue
            L = op[1]
            run = st["run"]
            single = self._oracle_chop(L, cur, {"run": run}, False, reversal=False)
            for v in single:
                v["what"] = f"after {case['ops'][:i]} on one Chop({case['given']}): " + v["what"]
            out.extend(single)
            if single:
                return out
            if prev is not None and prev[0] == L and run["ok"] and prev[2]["ok"] and len(cur) <= 2:
                if (flips - prev[3]) % 2 == 1:
                    rev = self._oracle_chop(L, prev[1], {"run": prev[2], "inv_run": run}, False)
                    for v in rev:
                        v["what"] = f"steps {case['ops'][: i + 1]} on one Chop({case['given']}): " + v["what"]
                    out.extend(rev)
                else:
                    n1, n2 = prev[2]["count"], run["count"]
                    T1, T2 = float(Fraction(prev[2]["total"])), float(Fraction(run["total"]))
                    tie = False
                    if n1 != n2 and abs(n1 - n2) == 1:
                        # invert() twice returns 1/(1/r), an ulp away from r: at an exact-integer solution the real-valued
                        # count sits on the rounding boundary and either neighbour satisfies the specification
                        gf = {k: (float(v) if k != "count" else v) for k, v in cur.items()}
                        for nn, TT in ((n1, prev[2]["total"]), (n2, run["total"])):
                            _, info = self._spec_violations(L, gf, nn, TT, "tie")
                            tie = tie or info.get("tie", False)
                    if tie:
                        pass
                    elif n1 != n2 or abs(math.log(T1) - math.log(T2)) > 1e-9:
                        out.append({"site": f"Chop.calculate[{self._pairname(cur)}]:same-parameters-same-length-different-answer",
                                    "what": f"steps {case['ops'][: i + 1]} on one Chop({case['given']}): ({n1}, {T1}) then ({n2}, {T2})",
                                    "observed": [n2, T2], "expected": [n1, T1]})
                if out:
                    return out
            prev = (L, dict(cur), run, flips)
        return out

    def _oracle_chop(self, L: float, given: dict, impl: dict, boundary: bool, reversal: bool = True) -> List[dict]:
        tag = self._pairname(given)
        out: List[dict] = []
        if "ctor" in impl:
            return out
        run = impl["run"]
        g = {k: (float(v) if k != "count" else v) for k, v in given.items()}
        mr = self._must_reject(L, g)
        # the known finding is reported once, under one site, and nothing else is concluded from that case
        if run["ok"] and self._one_cell_start(L, g):
            return [{"site": FINDING_COUNT1, "what": f"L={L}, {given}: one cell cannot have start size {g['start_size']}; "
                     f"accepted as {run['count']} cell(s), total expansion {run['total']}", "observed": [run["count"], run["total"]],
                     "expected": "an exception"}]
        if run["ok"]:
            if mr:
                out.append({"site": f"Chop.calculate[{tag}]:unrealisable-accepted:{mr}", "what": f"L={L}, {given} -> ({run['count']}, {run['total']})",
                            "observed": [run["count"], run["total"]], "expected": "an exception"})
                return out
            if run["count"] is None:
                out.append({"site": f"Chop.calculate[{tag}]:count-not-an-integer>=1", "what": f"count has type {run['count_type']}"})
                return out
            vs, info = self._spec_violations(L, g, run["count"], run["total"], tag)
            out.extend(vs)
        else:
            if run["err"] not in ("ValueError", "ZeroDivisionError", "OverflowError", "TypeError"):
                out.append({"site": f"Chop.calculate[{tag}]:unexpected-exception-class", "what": f"{run['err']}: {run['msg']}"})
            if self._must_accept(L, g):
                out.append({"site": f"Chop.calculate[{tag}]:realisable-parameters-rejected", "what": f"L={L}, {given} raises {run['err']}: {run['msg']}",
                            "observed": run["err"], "expected": "a grading"})
            return out
        # reversal
        if not reversal or len(g) > 2 or self._fragile(g) or out:
            return out
        big = [g[k] for k in ("start_size", "end_size") if k in g]
        if "count" not in g and len(g) == 2 and "c2c_expansion" not in g:
            T = g.get("total_expansion") or (g["end_size"] / g["start_size"])
            s = g["start_size"] if "start_size" in g else g["end_size"] / T
            if s * (1 + T) > L * (1 - 1e-5):
                return out
        if any(b > L * (1 - 1e-5) for b in big):
            return out
        if "c2c_expansion" in g and len(g) == 2:
            for k in ("start_size", "end_size"):
                if k in g:
                    rr = g["c2c_expansion"] if k == "start_size" else 1 / g["c2c_expansion"]
                    if rr < 1 and g[k] / (1 - rr) < L * (1 + 1e-3):
                        return out  # the progression barely fits: log of a number within rounding of 0
        if "inv_run" not in impl:
            out.append({"site": f"Chop.invert[{tag}]:inverted-chop-rejected", "what": f"{given}: invert raises {impl.get('inv_err')}"})
            return out
        irun = impl["inv_run"]
        if not irun["ok"]:
            out.append({"site": f"Chop.invert[{tag}]:inverted-chop-rejected", "what": f"L={L}, {given}: ({run['count']}, {run['total']}) but the inverted chop raises {irun['err']}",
                        "observed": irun["err"], "expected": [run["count"], "1/total"]})
            return out
        n, n2 = run["count"], irun["count"]
        if n2 is None or not isinstance(irun["total"], str):
            out.append({"site": f"Chop.invert[{tag}]:inverted-result-malformed", "what": str(irun)[:200]})
            return out
        if n != n2:
            if abs(n - n2) > 1 or not info["tie"]:
                out.append({"site": f"Chop.invert[{tag}]:inverted-count-differs", "what": f"L={L}, {given}: count {n}, inverted chop {n2}",
                            "observed": n2, "expected": n})
            return out
        T, T2 = float(Fraction(run["total"])), float(Fraction(irun["total"]))
        if not (T2 > 0 and abs(math.log(T) + math.log(T2)) <= 1e-7):
            out.append({"site": f"Chop.invert[{tag}]:inverted-expansion-not-reciprocal", "what": f"L={L}, {given}: total {T}, inverted {T2}",
                        "observed": T2, "expected": 1 / T})
        return out

    def _oracle_rel(self, case: dict, impl: dict) -> List[dict]:
        """one relation called directly: guards, sign/finiteness of the result, and the identity it stands for"""
        name = case["name"]
        out, ins = name.split("<")
        a, b = ins.split("+")
        L = case["L"]
        x = {a: case["a"], b: case["b"]}
        res: List[dict] = []

        def bad(clause, what):
            res.append({"site": f"relations[{name}]:{clause}", "what": f"({L}, {case['a']}, {case['b']}): {what}"})

        if impl.get("missing"):
            bad("relation-missing", "no such function")
            return res
        invalid = None
        if L <= 0:
            invalid = "length<=0"
        for q, v in x.items():
            if q in ("c2c_expansion", "total_expansion") and v == 0:
                invalid = f"{q}=0"
            if q == "count" and v < 1:
                invalid = "count<1"
            # the two purely algebraic size conversions do not validate the size they convert
            if q in ("start_size", "end_size") and v <= 0 and name not in ("start_size<end_size+total_expansion", "end_size<start_size+total_expansion"):
                invalid = f"{q}<=0"
        if invalid:
            if impl["ok"]:
                bad(f"invalid-argument-accepted:{invalid}", f"returns {impl['ret']}")
            return res
        if not impl["ok"]:
            return res
        if any(v <= 0 for v in x.values()):
            return res  # (only the two unvalidated size conversions get here)
        if not isinstance(impl["ret"], str):
            bad("result-not-a-finite-number", str(impl["ret"]))
            return res
        y = float(Fraction(impl["ret"]))
        if out == "count":
            if impl["type"] != "int" or y < 1:
                bad("count-not-an-integer>=1", f"{impl['type']} {y}")
            return res
        if not (math.isfinite(y) and y > 0):
            bad("result-not-positive", repr(y))
            return res
        n = x.get("count")
        tolu = 1e-8
        if name == "start_size<count+c2c_expansion":
            c = x["c2c_expansion"]
            if abs(y * gsum(c, n) - L) > (tolu + n * min(abs(c - 1), 1.02 * LIB_TOL)) * L:
                bad("cells-do-not-fill-the-edge", f"start {y}: sum {y * gsum(c, n)}")
        elif name == "total_expansion<count+c2c_expansion":
            if abs(math.log(y) - (n - 1) * math.log(x["c2c_expansion"])) > 1e-9 * n:
                bad("not-c2c^(count-1)", repr(y))
        elif name == "c2c_expansion<count+total_expansion":
            if abs((n - 1) * math.log(y) - math.log(x["total_expansion"])) > 1e-9 * n:
                bad("not-the-(count-1)th-root", repr(y))
        elif name == "end_size<start_size+total_expansion":
            if abs(y - x["start_size"] * x["total_expansion"]) > 1e-12 * y:
                bad("not-start*total", repr(y))
        elif name == "start_size<end_size+total_expansion":
            if abs(y * x["total_expansion"] - x["end_size"]) > 1e-12 * x["end_size"]:
                bad("not-end/total", repr(y))
        elif name == "total_expansion<start_size+end_size":
            if abs(y * x["start_size"] - x["end_size"]) > 1e-12 * x["end_size"]:
                bad("not-end/start", repr(y))
        elif name in ("c2c_expansion<count+start_size", "c2c_expansion<count+end_size") and n >= 2:
            size = x[b]
            tol = tolu + 1.01 * LIB_TOL + 4e-12 * (n - 1) / min(1.0, y)
            total = size * gsum(y if b == "start_size" else 1 / y, n)
            if abs(total - L) > tol * L:
                bad("cells-do-not-fill-the-edge", f"c2c {y}: sum {total}")
        return res

    def oracle(self, case: dict, impl: Any) -> List[dict]:
        if case["kind"] == "rel":
            return self._oracle_rel(case, impl)
        if case["kind"] == "history":
            return self._oracle_history(case, impl)
        if case["kind"] == "chop":
            return self._oracle_chop(case["L"], case["given"], impl, bool(case.get("boundary")))
        out: List[dict] = []
        L = case["L"]
        n_ok = 0
        cur_params: List[Optional[dict]] = []  # what each chop object holds when it is added (stated here, not read back)
        for ch, row in zip(case["chops"], impl["rows"]):
            q = ch["ratio"]
            if "ctor" in row:
                break
            if "same_as" in ch and ch["same_as"] < len(cur_params):
                p0 = cur_params[ch["same_as"]]
                try:
                    p1 = None if p0 is None else (_inverted(p0) if ch.get("invert_first") else dict(p0))
                except ZeroDivisionError:
                    p1 = None
                if p1 is not None and ch.get("invert_first"):
                    cur_params[ch["same_as"]] = p1  # the shared object itself has changed
                cur_params.append(p1)
            else:
                e0 = _effective(ch["given"])
                cur_params.append({k: (float(v) if k != "count" else v) for k, v in e0.items()})
            valid_ratio = 0 < q <= 1
            if row["ok"]:
                n_ok += 1
                if not valid_ratio:
                    out.append({"site": "Grading.add_chop:invalid-length-ratio-accepted", "what": f"length_ratio {q}"})
                    continue
                if Fraction(row["ratio"]) != Fraction(q):
                    out.append({"site": "Grading.add_chop:length-ratio-not-stored", "what": f"{q} -> {row['ratio']}"})
                g = {k: (float(v) if k != "count" else v) for k, v in ch["given"].items()}
                if "same_as" in ch:
                    g = cur_params[-1]
                    if g is None:
                        continue
                if self._one_cell_start(L * q, g):
                    out.append({"site": FINDING_COUNT1, "what": f"Grading.add_chop on sub-length {L * q}, {ch['given']}: accepted as "
                                f"{row['count']} cell(s), total expansion {row['total']}", "expected": "an exception"})
                    continue
                if len(g) <= 2 and not self._must_reject(L * q, g):
                    vs, _ = self._spec_violations(L * q, g, row["count"], row["total"], "Grading.add_chop:" + self._pairname(g))
                    out.extend(vs)
            else:
                if valid_ratio and "same_as" not in ch and self._must_accept(L * q, {k: (float(v) if k != "count" else v) for k, v in ch["given"].items()}):
                    out.append({"site": "Grading.add_chop:realisable-chop-rejected", "what": f"L={L}, ratio {q}, {ch['given']}: {row['err']}"})
                break
        for row in impl["rows"]:
            if "mid_read_err" in row:
                out.append({"site": "Grading.inverted:raises", "what": f"read after an addition: {row['mid_read_err']}"})
        if impl["n_spec"] != n_ok:
            out.append({"site": "Grading.add_chop:number-of-divisions", "what": f"{n_ok} chops accepted, {impl['n_spec']} divisions"})
        # the written grading (what blockMesh reads) carries the specification to full precision
        for key, which in (("descr", impl["spec"]), ("inv_descr", impl.get("inv"))):
            d = impl.get(key)
            if d is None or which is None:
                continue
            where = "Grading.description" if key == "descr" else "Grading.inverted.description"
            if "err" in d:
                if which:
                    out.append({"site": f"{where}:raises-for-a-defined-grading", "what": d["err"]})
                continue
            if not which:
                out.append({"site": f"{where}:undefined-grading-written", "what": d["text"][:80]})
                continue
            got = self._parse_written(d["text"])
            if got is None or len(got) != len(which) or (len(which) == 1) != (got[0][1] is None):
                out.append({"site": f"{where}:malformed", "what": f"{d['text'][:160]!r} for {len(which)} division(s)"})
                continue
            for (q, n, T), row in zip(got, which):
                Ts = float(Fraction(row[2]))
                bad = not (math.isfinite(T) and T > 0) or abs(T - Ts) > 1e-12 * abs(Ts)
                if n is not None:
                    bad = bad or n != row[1] or abs(q - float(Fraction(row[0]))) > 1e-12 * abs(float(Fraction(row[0])))
                if bad:
                    out.append({"site": f"{where}:written-values-differ-from-the-specification",
                                "what": f"L={L}: written {d['text'][:200]!r}, specification {[[float(Fraction(r[0])), r[1], float(Fraction(r[2]))] for r in which]}",
                                "observed": [q, n, T], "expected": [float(Fraction(row[0])), row[1], Ts]})
                    break
        if "inv_err" in impl:
            out.append({"site": "Grading.inverted:raises", "what": impl["inv_err"]})
            return out
        spec, inv = impl["spec"], impl["inv"]
        if impl["orig_after"] != spec or impl.get("orig_after_2", spec) != spec:
            out.append({"site": "Grading.inverted:modifies-the-original", "what": f"{spec} -> {impl['orig_after']}"})
        if impl.get("inv_again", inv) != inv:
            out.append({"site": "Grading.inverted:second-read-differs", "what": f"{inv} then {impl['inv_again']}"})
        if len(inv) != len(spec):
            out.append({"site": "Grading.inverted:number-of-divisions", "what": f"{len(spec)} -> {len(inv)}"})
            return out
        for d, di in zip(spec, reversed(inv)):
            if Fraction(d[0]) != Fraction(di[0]) or d[1] != di[1]:
                out.append({"site": "Grading.inverted:division-not-mirrored", "what": f"{d} vs {di}"})
                break
            T, Ti = float(Fraction(d[2])), float(Fraction(di[2]))
            if not (Ti > 0 and abs(math.log(T) + math.log(Ti)) < 1e-12):
                out.append({"site": "Grading.inverted:expansion-not-reciprocal", "what": f"{T} vs {Ti}"})
                break
        if impl["count"] != sum(d[1] for d in spec) or impl["inv_count"] != impl["count"]:
            out.append({"site": "Grading.count:not-the-sum-or-changed-by-inversion", "what": f"{impl['count']} / {impl['inv_count']}"})
        if not spec and not impl["inv_same_object"]:
            out.append({"site": "Grading.inverted:empty-grading", "what": "an empty grading is not returned as is"})
        return out

    # ------------------------------------------------------------------ bookkeeping
    def nontrivial_key(self, case, impl):
        import json

        if case["kind"] in ("chop", "history") and "ctor" in impl:
            return None
        return json.dumps(case, sort_keys=True)

    def classify(self, case, impl):
        if case["kind"] == "rel":
            return f"rel:{case['name']}:" + ("missing" if impl.get("missing") else "ok" if impl["ok"] else impl["err"])
        if case["kind"] == "history":
            if "ctor" in impl:
                return "history:constructor-raises"
            shape = "".join({"calc": "c", "invert": "i", "set": "s", "copy": "p"}[o[0]] for o in case["ops"])
            return f"history:{self._pairname(case['given'])}:{shape[:6]}"
        if case["kind"] == "grading":
            return f"grading:{len(case['chops'])}-chops:" + ("inverted" if "inv" in impl else "error")
        if "ctor" in impl:
            return "chop:constructor-raises"
        tag = self._pairname(case["given"])
        run = impl["run"]
        if run["ok"]:
            branch = "ok"
            n = run["count"] or 0
            size = "n=1" if n == 1 else "n<=10" if n <= 10 else "n<=200" if n <= 200 else "n>200"
            return f"chop:{tag}:{branch}:{size}" + (":boundary" if case.get("boundary") else "")
        return f"chop:{tag}:{run['err']}" + (":boundary" if case.get("boundary") else "")


if __name__ == "__main__":
    sys.exit(core.main(C03()))
