"""C18 — finders are exact; view-point re-orientation canonicalises the block numbering."""

from __future__ import annotations

import itertools
import json
import math
import random
import sys
from fractions import Fraction
from typing import Any, Dict, List, Optional, Tuple

from .. import core

# ----------------------------------------------------------------------------- conventions stated independently
# blockMesh hexahedron: corner c has local coordinates (x, y, z)
BM_COORD = [(0, 0, 0), (1, 0, 0), (1, 1, 0), (0, 1, 0), (0, 0, 1), (1, 0, 1), (1, 1, 1), (0, 1, 1)]
# the six sides as corner cycles, counter-clockwise seen from outside a right-handed block
BM_CYCLE = {
    "bottom": (0, 3, 2, 1),
    "top": (4, 5, 6, 7),
    "left": (0, 4, 7, 3),
    "right": (1, 2, 6, 5),
    "front": (0, 1, 5, 4),
    "back": (2, 3, 7, 6),
}
OPPOSITE = {"bottom": "top", "top": "bottom", "left": "right", "right": "left", "front": "back", "back": "front"}
# neighbours of every corner in the order that makes the corner triple product positive in a right-handed block
BM_NB = {0: (1, 3, 4), 1: (2, 0, 5), 2: (3, 1, 6), 3: (0, 2, 7), 4: (7, 5, 0), 5: (4, 6, 1), 6: (5, 7, 2), 7: (6, 4, 3)}
_EDGES = {(a, b) for a in range(8) for b in range(8) if sum(abs(x - y) for x, y in zip(BM_COORD[a], BM_COORD[b])) == 1}
# the 48 relabellings of the hexahedron (24 rotations and their mirrored companions)
SYM48 = [p for p in itertools.permutations(range(8)) if all((p[a], p[b]) in _EDGES for a, b in _EDGES)]
_SYM48_SET = set(SYM48)
TOL = 1e-7  # the merge tolerance the property speaks of
_THEOREM_STATS = {"asked": 0, "clear": 0, "contract": 0, "contract_returned": 0}


def _report_theorem_stats():
    if _THEOREM_STATS["asked"]:
        import sys

        print(
            f"[c18] T_C18_clear_view: hypotheses hold (exactly) for {_THEOREM_STATS['clear']} of "
            f"{_THEOREM_STATS['asked']} re-orientations sent to the model; hull contract of T_C18_returns_relabelling holds for "
            f"{_THEOREM_STATS['contract']} ({_THEOREM_STATS['contract_returned']} of them returned)",
            file=sys.stderr,
        )


import atexit

atexit.register(_report_theorem_stats)

def _clear_asked(impl) -> list:
    """the numberings of a case for which the hypotheses of T_C18_clear_view are decided by the model: the first, the
    last (a scramble where there is one) and the middle one of those that went to the model (same block and view,
    other numbering / other answer of scipy) — the exact check costs about as much as all other requests of the case"""
    sent = [r for r in impl["results"] if r["simplices"] is not None and r["gap"] >= TIE and len(r["simplices"]) == 12]
    n = len(sent)
    return [sent[i] for i in sorted({0, n // 2, n - 1})] if n else []


CLEAR = 1e-3  # margin (difference of unit-normal components) that makes a view "clear"
TIE = 1e-9  # below this gap (2nd vs 3rd best aligned triangle; cosine of two halves vs 0.5) float and exact arithmetic may differ


def _fr(x) -> str:
    return core.rat(x)


def _pt(p) -> str:
    return ",".join(_fr(float(c)) for c in p)


def _pts(ps) -> str:
    return ";".join(_pt(p) for p in ps) if len(ps) else "-"


def _F(p) -> List[Fraction]:
    return [Fraction(float(c)) for c in p]


def _sub(a, b):
    return [x - y for x, y in zip(a, b)]


def _dot(a, b):
    return sum(x * y for x, y in zip(a, b))


def _cross(a, b):
    return [a[1] * b[2] - a[2] * b[1], a[2] * b[0] - a[0] * b[2], a[0] * b[1] - a[1] * b[0]]


def _unit(a):
    n = math.sqrt(float(_dot(a, a)))
    return [float(x) / n for x in a]


def _rot(p, angle, axis, origin):
    """Rodrigues rotation (own implementation, for the oracle)."""
    k = _unit(axis)
    v = [float(a) - float(b) for a, b in zip(p, origin)]
    c, s = math.cos(angle), math.sin(angle)
    kv = _cross(k, v)
    kd = _dot(k, v)
    return [float(origin[i]) + v[i] * c + kv[i] * s + k[i] * kd * (1 - c) for i in range(3)]


# ----------------------------------------------------------------------------- generators
def _dy(rng: random.Random, lo: float, hi: float, den: int = 64) -> float:
    """a dyadic rational in [lo, hi] (exact as a float)"""
    return rng.randint(int(lo * den), int(hi * den)) / den


def _mesh_spec(rng: random.Random) -> dict:
    nx, ny, nz = rng.randint(1, 3), rng.randint(1, 2), rng.randint(1, 2)
    far = rng.random() < 0.3  # plant / georeferenced coordinates: nothing may depend on the distance from the origin
    def axis(n):
        xs = [_dy(rng, -2, 2) + (rng.choice([-1, 1]) * _dy(rng, 400, 1500, 1) if far else 0.0)]
        for _ in range(n):
            xs.append(xs[-1] + _dy(rng, 0.5, 1.5))
        return xs
    xs, ys, zs = axis(nx), axis(ny), axis(nz)
    cells = [(i, j, k) for i in range(nx) for j in range(ny) for k in range(nz)]
    keep = [c for c in cells if rng.random() < 0.8] or [cells[0]]
    spec: Dict[str, Any] = {"xs": xs, "ys": ys, "zs": zs, "cells": [list(c) for c in keep]}
    pairs = [(a, b) for a in keep for b in keep if (a[0] + 1, a[1], a[2]) == b]
    if pairs and rng.random() < 0.4:  # a merged patch pair: the vertices of the common face exist twice
        a, b = rng.choice(pairs)
        spec["merged"] = [list(a), list(b)]
    if rng.random() < 0.5:
        spec["round"] = _round_spec(rng, rng.choice(["Cylinder", "SemiCylinder", "Frustum"]), [10.0, 0.0, 0.0])
    return spec


_AXES = [(0, 0, 1), (1, 0, 0), (0, 1, 0), (2, 3, 6), (1, 4, 8), (2, -6, 3), (-4, 4, 7), (3, 4, 0), (0, -3, 4)]


def _round_spec(rng: random.Random, typ: str, origin: List[float], small: bool = False) -> dict:
    """`small`: a thin pipe far from the origin (cross-section of 1/64 .. 1/32 at coordinates of 400 .. 1500), so that
    the spacing of the sketch points is far below 1e-5 of the coordinates."""
    a = rng.choice(_AXES)
    n = math.sqrt(sum(x * x for x in a))
    axis = [x / n for x in a]
    helper = [1.0, 0.0, 0.0] if abs(axis[0]) < 0.9 else [0.0, 1.0, 0.0]
    u = _unit(_cross(axis, helper))
    w = _cross(axis, u)
    ang = rng.uniform(0, 2 * math.pi)
    rdir = [math.cos(ang) * u[i] + math.sin(ang) * w[i] for i in range(3)]
    r1 = _dy(rng, 0.5, 2.0, 8)
    length = _dy(rng, 0.5, 3.0, 8)
    if small:
        r1 = rng.choice([1 / 64, 1 / 128])
        length = r1 * _dy(rng, 2, 8, 8)
        origin = [rng.choice([-1, 1]) * _dy(rng, 400, 1500, 1) for _ in range(3)]
    p1 = [origin[i] + _dy(rng, -1, 1, 8) for i in range(3)]
    spec = {"type": typ, "p1": p1, "axis": axis, "rdir": rdir, "r1": r1, "length": length}
    if typ == "Frustum":
        spec["r2"] = rng.choice([0.5, 0.75, 1.25, 1.5]) * r1
    if typ == "Elbow":
        spec["r2"] = rng.choice([0.5, 0.75, 1.0, 1.25]) * r1
        spec["sweep"] = rng.choice([-1, 1]) * rng.uniform(0.3, 1.6)
        # arc centre off the axis, rotation axis perpendicular to the disk normal
        d = rng.uniform(2.5, 4.0) * r1
        spec["arc_center"] = [p1[i] + d * u[i] for i in range(3)]
        spec["rot_axis"] = w
    if typ == "ExtrudedRing":
        spec["inner"] = rng.choice([0.25, 0.5, 0.75]) * r1
        spec["n"] = rng.choice([5, 8])
    if typ in ("OneCoreDisk", "QuarterDisk"):
        pass
    spec["chain"] = typ in ("Cylinder", "Frustum", "Elbow") and rng.random() < 0.3
    return spec


def _build_round(spec: dict):
    """Builds the round shape of a spec with the real library; returns (shape, [extra entities])."""
    import numpy as np

    import classy_blocks as cb
    from classy_blocks.base import transforms as tr
    from classy_blocks.construct.flat.sketches import disk
    from classy_blocks.construct.shapes.round import RoundSolidShape

    p1 = np.array(spec["p1"], dtype=float)
    axis = np.array(spec["axis"], dtype=float)
    p2 = p1 + axis * spec["length"]
    rp = p1 + np.array(spec["rdir"], dtype=float) * spec["r1"]
    typ = spec["type"]
    if typ == "Cylinder":
        shape = cb.Cylinder(p1, p2, rp)
    elif typ == "SemiCylinder":
        shape = cb.SemiCylinder(p1, p2, rp)
    elif typ == "Frustum":
        shape = cb.Frustum(p1, p2, rp, spec["r2"])
    elif typ == "Elbow":
        shape = cb.Elbow(p1, rp, axis, spec["sweep"], spec["arc_center"], spec["rot_axis"], spec["r2"])
    elif typ == "ExtrudedRing":
        shape = cb.ExtrudedRing(p1, p2, rp, spec["inner"], spec["n"])
    elif typ == "OneCoreDisk":
        shape = RoundSolidShape(disk.OneCoreDisk(p1, rp, axis), [tr.Translation(p2 - p1)])
    elif typ == "QuarterDisk":
        shape = RoundSolidShape(disk.QuarterDisk(p1, rp, axis), [tr.Translation(p2 - p1)])
    else:
        raise ValueError(typ)
    extra = []
    if spec.get("chain"):
        extra.append(cb.Cylinder.chain(shape, 2.0 * spec["r1"]))
    return shape, extra


def _end_faces(spec: dict) -> List[Tuple[List[float], List[float], float]]:
    """(centre, unit normal, outer radius) of the start and the end face, from the construction parameters alone."""
    p1 = [float(x) for x in spec["p1"]]
    axis = [float(x) for x in spec["axis"]]
    p2 = [p1[i] + axis[i] * spec["length"] for i in range(3)]
    r1 = float(spec["r1"])
    typ = spec["type"]
    if typ == "Elbow":
        c2 = _rot(p1, spec["sweep"], spec["rot_axis"], spec["arc_center"])
        n2 = _rot(axis, spec["sweep"], spec["rot_axis"], [0.0, 0.0, 0.0])
        return [(p1, axis, r1), (c2, _unit(n2), float(spec["r2"]))]
    if typ == "Frustum":
        return [(p1, axis, r1), (p2, axis, float(spec["r2"]))]
    return [(p1, axis, r1), (p2, axis, r1)]


def _build_mesh(spec: dict):
    import classy_blocks as cb

    mesh = cb.Mesh()
    xs, ys, zs = spec["xs"], spec["ys"], spec["zs"]
    merged = spec.get("merged")
    for i, j, k in spec["cells"]:
        box = cb.Box([xs[i], ys[j], zs[k]], [xs[i + 1], ys[j + 1], zs[k + 1]])
        if merged and [i, j, k] == merged[0]:
            box.set_patch("right", "master")
        if merged and [i, j, k] == merged[1]:
            box.set_patch("left", "slave")
        mesh.add(box)
    if merged:
        mesh.merge_patches("master", "slave")
    shape = None
    if spec.get("round"):
        shape, extra = _build_round(spec["round"])
        mesh.add(shape)
        for e in extra:
            mesh.add(e)
    mesh.assemble()
    return mesh, shape


def _hex(rng: random.Random, kind: str) -> List[List[float]]:
    """Eight points of a convex hexahedron in blockMesh numbering (right-handed), dyadic coordinates."""
    import numpy as np

    base = np.array(BM_COORD, dtype=float) - 0.5
    dims = np.array([_dy(rng, 0.5, 2, 8), _dy(rng, 0.5, 2, 8), _dy(rng, 0.5, 2, 8)])
    pts = base * dims
    if kind == "box":
        pass
    elif kind == "warped":
        jit = rng.choice([0.03, 0.06, 0.12])
        pts = pts + np.array([[_dy(rng, -jit, jit, 1024) for _ in range(3)] for _ in range(8)]) * dims.min()
    elif kind == "par":
        while True:
            m = np.array([[rng.randint(-4, 4) / 8 for _ in range(3)] for _ in range(3)]) + np.eye(3)
            if np.linalg.det(m) > 0.3:
                break
        pts = pts @ m.T
    elif kind == "frustum":
        s = rng.choice([0.5, 0.75, 1.5])
        pts[4:, :2] *= s
        pts[4:, :2] += [rng.randint(-2, 2) / 8, rng.randint(-2, 2) / 8]
    elif kind == "rotated":
        q = np.array([rng.randint(-4, 4) for _ in range(4)], dtype=float)
        if np.linalg.norm(q) == 0:
            q[0] = 1
        q /= np.linalg.norm(q)
        w, x, y, z = q
        r = np.array(
            [
                [1 - 2 * (y * y + z * z), 2 * (x * y - z * w), 2 * (x * z + y * w)],
                [2 * (x * y + z * w), 1 - 2 * (x * x + z * z), 2 * (y * z - x * w)],
                [2 * (x * z - y * w), 2 * (y * z + x * w), 1 - 2 * (x * x + y * y)],
            ]
        )
        sub = rng.choice(["box", "frustum", "par"])
        pts = np.array(_hex(rng, sub)) @ r.T
        pts = np.round(pts * 2**20) / 2**20
    off = np.array([_dy(rng, -3, 3, 8) for _ in range(3)])
    return (pts + off).tolist()


def _viewpoint(rng: random.Random, pts: List[List[float]], mode: str) -> Tuple[List[float], List[float]]:
    import numpy as np

    p = np.array(pts)
    c = p.mean(axis=0)

    def direction(near):
        while True:
            v = np.array([rng.uniform(-1, 1) for _ in range(3)])
            if 0.1 < np.linalg.norm(v) <= 1:
                v /= np.linalg.norm(v)
                break
        if near is not None:
            v = near + 0.35 * v
            v /= np.linalg.norm(v)
        return v

    normals = []
    for cyc in BM_CYCLE.values():
        a, b, cc, d = (p[i] for i in cyc)
        n = np.cross(cc - a, d - b)
        normals.append(n / np.linalg.norm(n))
    if mode == "face-on":
        i = rng.randrange(6)
        o = direction(normals[i])
        j = rng.choice([k for k in range(6) if abs(float(np.dot(normals[k], normals[i]))) < 0.7] or [0])
        t = direction(normals[j])
    elif mode == "edge-on":  # between two sides: the dubious views
        i = rng.randrange(6)
        j = rng.choice([k for k in range(6) if abs(float(np.dot(normals[k], normals[i]))) < 0.7] or [0])
        o = normals[i] + rng.uniform(0.85, 1.15) * normals[j] + 0.1 * direction(None)
        o /= np.linalg.norm(o)
        t = direction(None)
    else:
        o, t = direction(None), direction(None)
    dist = rng.choice([4.0, 10.0, 100.0])
    obs = np.round((c + o * dist) * 64) / 64
    ceil = np.round((c + t * rng.choice([4.0, 10.0, 100.0])) * 64) / 64
    return obs.tolist(), ceil.tolist()


def _ring(rng: random.Random) -> dict:
    """A history case: ONE re-orienter (observer in the middle, ceiling point far away) used for several blocks that
    the observer sees in clearly different directions."""
    import numpy as np

    obs = np.array([_dy(rng, -1, 1, 8) for _ in range(3)])
    up = rng.choice([[0, 0, 1], [0, 0, 1], [0, 1, 0], [1, 0, 0], [0, 0, -1]])
    ceil = obs + 128.0 * np.array(up, dtype=float) + np.array([_dy(rng, -8, 8, 8) for _ in range(3)])
    # two directions perpendicular to `up` span the ring
    a = np.array([up[1], up[2], up[0]], dtype=float)
    b = np.cross(np.array(up, dtype=float), a)
    n = rng.randint(2, 5)
    start = rng.uniform(0, 2 * math.pi)
    blocks = []
    for k in range(n):
        theta = start + k * 2 * math.pi / n + rng.uniform(-0.2, 0.2)
        dist = rng.choice([3.0, 4.0, 6.0])
        centre = obs + dist * (math.cos(theta) * a + math.sin(theta) * b) + _dy(rng, -0.5, 0.5, 8) * np.array(up, dtype=float)
        kind = rng.choice(["box", "warped", "frustum", "rotated", "par"])
        pts = np.array(_hex(rng, kind))
        pts = (pts - pts.mean(axis=0)) * rng.choice([1.0, 1.0, 2.0**-8, 2.0**-10]) + np.round(centre * 64) / 64
        pts = np.round(pts * 2**30) / 2**30
        blocks.append({"hex": kind, "pts": pts.tolist(), "num": list(rng.choice(SYM48))})
    return {"kind": "reorient-seq", "obs": obs.tolist(), "ceil": ceil.tolist(), "blocks": blocks}


# ----------------------------------------------------------------------------- geometry of the oracle (floats with margins)
def _tri_normals(p, cyc):
    """unit outward normals of the four triangles a side can be split into, and of the side's area vector
    (so that in a clear view every notion of 'the side's normal' gives the same answer)"""
    import numpy as np

    a, b, c, d = (p[i] for i in cyc)
    out = []
    for t in ((a, b, c), (a, c, d), (a, b, d), (b, c, d)):
        n = np.cross(t[1] - t[0], t[2] - t[0])
        out.append(n / np.linalg.norm(n))
    n = np.cross(c - a, d - b)
    out.append(n / np.linalg.norm(n))
    return out


def _view_dirs(p, obs, ceil):
    import numpy as np

    c = p.mean(axis=0)
    o = np.array(obs) - c
    cd = np.array(ceil) - c
    o = o / np.linalg.norm(o)
    t = cd - np.dot(cd, o) * o
    t = t / np.linalg.norm(t)
    return o, t, np.cross(o, t)


def _clear_view(pts, obs, ceil) -> Optional[Dict[str, str]]:
    """For a valid block in blockMesh numbering: the assignment direction -> side when every step of the view is
    clear by the margin CLEAR for every possible triangulation of the sides, else None."""
    import numpy as np

    p = np.array(pts, dtype=float)
    o, t, l = _view_dirs(p, obs, ceil)
    tri = {s: _tri_normals(p, cyc) for s, cyc in BM_CYCLE.items()}
    for n in tri.values():  # the halves of every side well within the 60 degree limit, whichever diagonal splits it
        if float(np.dot(n[0], n[1])) < 0.6 or float(np.dot(n[2], n[3])) < 0.6:
            return None
    remaining = list(BM_CYCLE)
    chosen: Dict[str, str] = {}
    for name, d in (("front", o), ("back", -o), ("top", t), ("bottom", -t), ("left", l), ("right", -l)):
        best = None
        for s in remaining:
            lo = min(float(np.dot(n, d)) for n in tri[s])
            others = [float(np.dot(n, d)) for s2 in remaining if s2 != s for n in tri[s2]]
            if not others or lo > max(others) + CLEAR:
                best = s
                break
        if best is None:
            return None
        chosen[name] = best
        remaining.remove(best)
    if chosen["back"] != OPPOSITE[chosen["front"]] or chosen["bottom"] != OPPOSITE[chosen["top"]]:
        return None
    return chosen


def _corner_triples(P: List[List[Fraction]]) -> List[Fraction]:
    out = []
    for i in range(8):
        a, b, c = (_sub(P[j], P[i]) for j in BM_NB[i])
        out.append(_dot(_cross(a, b), c))
    return out


def _canonical_problems(P, obs, ceil) -> List[str]:
    """front/top clauses of the property on a numbered block (floats; only used for clear views)."""
    import numpy as np

    p = np.array(P, dtype=float)
    o, t, _ = _view_dirs(p, obs, ceil)
    c = p.mean(axis=0)
    unit = {}
    for s, cyc in BM_CYCLE.items():
        a, b, cc, d = (p[i] for i in cyc)
        n = np.cross(cc - a, d - b)
        if np.dot(n, (a + b + cc + d) / 4 - c) < 0:  # outward with respect to the block's centre
            n = -n
        unit[s] = n / np.linalg.norm(n)
    bad = []
    if max(unit, key=lambda s: float(np.dot(unit[s], o))) != "front":
        bad.append("front")
    around = ["top", "bottom", "left", "right"]
    if max(around, key=lambda s: float(np.dot(unit[s], t))) != "top":
        bad.append("top")
    return bad


class C18(core.Check):
    pid = "C18"
    props_module = "CBV.Props.C18"
    workers = 8
    rule = (
        "find cases: a mesh of 1..12 boxes on a jittered lattice (random omissions, 40% with a merged patch pair that "
        "duplicates four vertices), half of them with a cylinder / "
        "semi-cylinder / frustum, 10 queries each: spheres centred at or near a vertex or anywhere, radius default TOL, "
        "a multiple (0.9 .. 2) of the distance to another vertex, zero or negative; planes through a vertex with axis, "
        "random or vertex-spanned normals of any length, zero normal included; sphere queries closer than 1e-3 relative "
        "to the radius and plane queries with a vertex between TOL/3 and 3 TOL from the plane are skipped; the same queries "
        "are repeated on the same finder object after two vertices have been moved, after Mesh.backport() and after deleting "
        "a box and clear()/assemble() (history; results are identified by object identity among the CURRENT mesh.vertices). shape cases: Cylinder, SemiCylinder, Frustum, Elbow, ExtrudedRing (5/8 segments), "
        "RoundSolidShape over OneCoreDisk/QuarterDisk, random axis/radius/length, optionally chained, find_core and "
        "find_shell on both end faces, repeated on the same finder object after Mesh.backport(). reorient cases: box / warped (corner jitter up to 12%) / sheared parallelepiped / "
        "frustum-like / rotated hexahedra with dyadic coordinates, a viewpoint (40% roughly face-on, 40% anywhere, 20% between two sides), all 48 "
        "initial numberings plus 8 arbitrary scrambles of the eight points (quick tier: all 48 for every fourth block, "
        "13 of them and 4 scrambles for the others); non-convex blocks as malformed stream. history cases: ONE ViewpointReorienter object (observer in the middle, "
        "ceiling far away along an axis) re-used for a ring of 2..5 blocks seen in clearly different directions, every block "
        "judged from its own centre and against a fresh object. "
        "Non-trivial = at least one vertex found or a re-orientation that returns; distinct = different geometry/query."
    )
    assumptions = [
        "float64 evaluation of norms / dot products agrees with exact arithmetic away from the thresholds "
        "(queries within 1e-3 relative of a threshold and views whose 2nd/3rd best triangle differ by < 1e-9 are skipped)",
        "scipy.spatial.ConvexHull is an oracle: the model receives the simplices the implementation obtained; a Lean "
        "validator checks on every case that they form a closed convex triangulation of the eight points (relative 1e-9)",
        "observer different from the block centre and ceiling off the observer axis (the code computes with nan otherwise)",
        "finder histories (moves, backport, delete/clear/assemble) are sent to the model as one session (request c18.session); "
        "what a re-assembly puts into mesh.vertices is an argument of the session, not modelled here",
        "python list / set / sorted semantics of the finders and of ViewpointReorienter are modelled by hand and validated "
        "by correspondence",
    ]
    partial_note = (
        "Theorems: filter exactness of the sphere / plane / round-shape finders, geometric characterisation of the plane "
        "test (incl. redundancy of the coincident-origin shortcut), core/rim partition from the generated sketch tables, "
        "the re-orienter model returns the same eight points (each once), its corners lie in the quads the blockMesh "
        "convention names and those quads are made of the best aligned remaining hull triangles, independence from the "
        "initial numbering given the same hull, the 48 relabellings map sides onto sides, and uniqueness of the canonical "
        "numbering among them; round 6: in every view in which each pass of the loop has a clear winner (hypotheses "
        "decided exactly per case by the request c18.clear) the model returns the predicted numbering for every input "
        "numbering, triangle order and choice of diagonals (T_C18_clear_view, T_C18_canonicalises), it is one of the 48 "
        "relabellings of the input and right-handed; guards/constants/recipes of the source are regenerated with ast and "
        "tied to the model (T_C18_tie_*); round 6b: for planar-sided right-handed blocks a clear view implies Canonical "
        "(T_C18_clear_view_canonical), vertex objects at one position (merged patches) are returned together "
        "(T_C18_duplicates_together), get_common_point rejects with DegenerateGeometryError only (repair 70219c0); round 6c: "
        "under the hull contract (validator c18.contract, no view involved) every returning run, ties and dubious views "
        "included, is one of the 48 relabellings and right-handed (T_C18_returns_relabelling); round 6d: the finder points of "
        "the four fan disk classes are the rim / non-rim positions in every placement (T_C18_disk_finder_points, "
        "T_C18_disk_find), every rejection is a DegenerateGeometryError (T_C18_rejects_documented); round 6e: the finder on "
        "float positions equals the exact finder under an explicit rounding hypothesis (T_C18_finder_stable), whose gap part is "
        "proved for the fan disk classes (round 6f: T_C18_disk_gap, T_C18_finder_stable_pv); round 6g: WrappedDisk in every "
        "placement — shell finder = the four corners of the square, core finder = the inner square, circle points in "
        "neither (T_C18_wrapped_finder_points). Only "
        "validator/oracle-checked: that the returned numbering of a block with warped sides satisfies Canonical "
        "as stated on the side area vectors (the theorem is stated on the hull triangles), that views without a clear winner on blocks whose adjacent sides are less than 60 degrees apart give one of the 48 relabellings, and that scipy's hull is a "
        "triangulation of the six sides (hypothesis of the theorem, decided per case)."
    )

    # ------------------------------------------------------------------ generators
    def gen_cases(self, rng: random.Random, tier: str) -> List[dict]:
        quick = tier == "quick"
        cases: List[dict] = []
        for _ in range(24 if quick else 300):
            spec = _mesh_spec(rng)
            queries = []
            for _ in range(10):
                queries.append(self._query(rng))
            if spec.get("merged"):
                # merged patches: every vertex of the common face exists twice (master copy, slave copy).  'Exact' there
                # means both copies (T_C18_duplicates_together): aim one default-radius sphere and one plane at such a pair
                zero = [0.0, 0.0, 0.0]
                queries.append({"type": "sphere", "at": rng.randrange(1000), "off": zero, "radius": None, "dup": True})
                queries.append({"type": "plane", "at": rng.randrange(1000), "off": zero, "normal": [1.0, 0.0, 0.0], "dup": True})
            moved = [[rng.randrange(1000), [rng.choice([-1, 1]) * _dy(rng, 0.25, 0.75) for _ in range(3)]] for _ in range(2)]
            cases.append(
                {"kind": "find", "mesh": spec, "queries": queries, "moved": moved, "reassemble": True, "delete": rng.randrange(1000)}
            )
        types = ["Cylinder", "SemiCylinder", "Frustum", "Elbow", "ExtrudedRing", "OneCoreDisk", "QuarterDisk"]
        for n in range(21 if quick else 280):
            small = n % 3 == 2
            cases.append({"kind": "shape", "round": _round_spec(rng, types[(n // 3 if small else n) % len(types)], [0.0, 0.0, 0.0], small)})
        kinds = ["box", "warped", "par", "frustum", "rotated", "warped"]
        for n in range(28 if quick else 400):
            kind = kinds[n % len(kinds)]
            scale = rng.choice([1.0, 1.0, 1.0, 2.0**-8, 2.0**-10, 2.0**5])  # millimetre-sized blocks in metres, and big ones
            pts = [[c * scale for c in p] for p in _hex(rng, kind)]
            obs, ceil = _viewpoint(rng, pts, rng.choice(["face-on", "face-on", "anywhere", "anywhere", "edge-on"]))
            if quick and n % 4:  # a sample of the 48 (identity, a mirrored one, 10 others) and 4 scrambles
                nums = [list(SYM48[0]), list(rng.choice(SYM48[1:]))] + [list(p) for p in rng.sample(SYM48, 10)]
                nums.append([1, 0, 3, 2, 5, 4, 7, 6])
                nums += [rng.sample(range(8), 8) for _ in range(4)]
            else:  # all 48 initial numberings and 8 arbitrary scrambles of the eight points
                nums = [list(p) for p in SYM48] + [rng.sample(range(8), 8) for _ in range(8)]
            cases.append(
                {"kind": "reorient", "hex": kind, "pts": pts, "obs": obs, "ceil": ceil, "numberings": nums, "scale": scale}
            )
        # histories: one re-orienter instance for a ring of blocks around the observer
        for _ in range(8 if quick else 120):
            cases.append(_ring(rng))
        # malformed stream: one corner pulled into the block (not convex)
        for _ in range(3 if quick else 30):
            import numpy as np

            pts = _hex(rng, "box")
            c = np.array(pts).mean(axis=0)
            k = rng.randrange(8)
            pts[k] = (np.round((c + 0.25 * (np.array(pts[k]) - c)) * 64) / 64).tolist()
            obs, ceil = _viewpoint(rng, pts, "anywhere")
            nums = [list(p) for p in SYM48[::6]]
            cases.append({"kind": "reorient", "hex": "nonconvex", "pts": pts, "obs": obs, "ceil": ceil, "numberings": nums})
        return cases

    @staticmethod
    def _query(rng: random.Random) -> dict:
        r = rng.random()
        off = [0.0, 0.0, 0.0]
        if rng.random() < 0.3:
            off = [rng.choice([-1, 1]) * rng.choice([1e-9, 1e-8, 3e-6, 1e-5, 0.125]) for _ in range(3)]
        if r < 0.5:
            q: Dict[str, Any] = {"type": "sphere"}
            if rng.random() < 0.75:
                q["at"] = rng.randrange(1000)
                q["off"] = off
            else:
                q["free"] = [_dy(rng, -3, 5), _dy(rng, -3, 3), _dy(rng, -3, 3)]
            rr = rng.random()
            if rr < 0.3:
                q["radius"] = None
            elif rr < 0.85:
                q["radius"] = ["to", rng.randrange(1000), rng.choice([0.9, 0.99, 1.01, 1.1, 2.0])]
            else:
                q["radius"] = ["abs", rng.choice([0.0, -1.0, 1e-7, 0.5, 100.0])]
            return q
        q = {"type": "plane", "at": rng.randrange(1000), "off": off}
        rr = rng.random()
        if rr < 0.35:
            n = [0.0, 0.0, 0.0]
            n[rng.randrange(3)] = rng.choice([1.0, -2.0, 1e-3, 1e3])
            q["normal"] = n
        elif rr < 0.6:
            q["normal"] = [_dy(rng, -2, 2) for _ in range(3)]
        elif rr < 0.95:
            q["span"] = [rng.randrange(1000), rng.randrange(1000)]  # normal = (v_a - v_at) x (v_b - v_at)
        else:
            q["normal"] = [0.0, 0.0, 0.0]
        return q

    # ------------------------------------------------------------------ implementation
    def run_impl(self, case: dict) -> Any:
        if case["kind"] == "find":
            return self._impl_find(case)
        if case["kind"] == "shape":
            return self._impl_shape(case)
        if case["kind"] == "reorient-seq":
            return self._impl_reorient_seq(case)
        return self._impl_reorient(case)

    def _impl_find(self, case: dict) -> Any:
        import warnings

        import numpy as np

        import classy_blocks as cb

        from classy_blocks.util import constants

        tol = float(constants.TOL)
        mesh, _ = _build_mesh(case["mesh"])
        verts = [np.array(v.position, dtype=float) for v in mesh.vertices]
        index = {id(v): i for i, v in enumerate(mesh.vertices)}
        finder = cb.GeometricFinder(mesh)
        n = len(verts)
        phases = []
        for phase in range(4):
          if phase == 1:
              # history: the same finder object after some vertices have been moved (nothing may be cached)
              if not case.get("moved"):
                  break
              for k, d in case["moved"]:
                  vertex = mesh.vertices[k % n]
                  vertex.move_to(vertex.position + np.array(d, dtype=float))
          if phase == 2:
              # ... after the mesh has been re-assembled from the modified vertices (new Vertex objects)
              if not case.get("reassemble"):
                  break
              with warnings.catch_warnings():
                  warnings.simplefilter("ignore")  # arcs of a round shape whose vertices were moved get re-centred
                  mesh.backport()
          if phase == 3:
              # ... after a block has been deleted and the mesh assembled once more
              boxes = [e for e in mesh.depot if isinstance(e, cb.Box)]
              if case.get("delete") is None or len(boxes) < 2:
                  break
              mesh.delete(boxes[case["delete"] % len(boxes)])
              mesh.clear()
              with warnings.catch_warnings():
                  warnings.simplefilter("ignore")
                  mesh.assemble()
          # always judged against the vertices the mesh has NOW (positions and object identity)
          verts = [np.array(v.position, dtype=float) for v in mesh.vertices]
          index = {id(v): i for i, v in enumerate(mesh.vertices)}
          n = len(verts)
          out = []
          for q in case["queries"]:
              res: Dict[str, Any] = {"type": q["type"]}
              if "free" in q:
                  centre = np.array(q["free"], dtype=float)
              else:
                  at = q["at"] % n
                  if q.get("dup"):  # a vertex whose position is shared by another vertex object (if there is one now)
                      dups = [i for i in range(n) if any(j != i and np.array_equal(verts[i], verts[j]) for j in range(n))]
                      if dups:
                          at = dups[q["at"] % len(dups)]
                          res["twins"] = [j for j in range(n) if np.array_equal(verts[at], verts[j])]
                  centre = verts[at] + np.array(q["off"], dtype=float)
              res["centre"] = centre.tolist()
              if q["type"] == "sphere":
                  rad = q["radius"]
                  if rad is None:
                      radius = None
                  elif rad[0] == "to":
                      radius = float(np.linalg.norm(verts[rad[1] % n] - centre)) * rad[2]
                  else:
                      radius = float(rad[1])
                  res["radius"] = radius
                  found = finder.find_in_sphere(centre, radius)
                  reff = tol if radius is None else radius
                  dist = [float(np.linalg.norm(v - centre)) for v in verts]
                  res["boundary"] = any(abs(d - reff) < 1e-3 * abs(reff) + 1e-12 for d in dist) and reff > 0
              else:
                  if "span" in q:
                      a, b = (verts[k % n] - verts[q["at"] % n] for k in q["span"])
                      normal = np.cross(a, b)
                  else:
                      normal = np.array(q["normal"], dtype=float)
                  res["normal"] = normal.tolist()
                  with np.errstate(all="ignore"):
                      found = finder.find_on_plane(centre, normal)
                  nn = float(np.linalg.norm(normal))
                  if nn == 0:
                      dist = [float(np.linalg.norm(v - centre)) for v in verts]
                  else:
                      dist = [abs(float(np.dot(v - centre, normal))) / nn for v in verts]
                      # a span normal can be (nearly) zero: treat tiny normals as boundary
                      res["boundary"] = nn < 1e-6
                  res["boundary"] = res.get("boundary", False) or any(tol / 3 <= d <= tol * 3 for d in dist)
              res["found"] = sorted(index.get(id(v), -1) for v in found)  # -1: not a vertex of the mesh
              res["is_set"] = isinstance(found, set)
              out.append(res)
          phases.append({"verts": [v.tolist() for v in verts], "queries": out})
        return {"phases": phases, "tol": tol}

    def _impl_shape(self, case: dict) -> Any:
        import numpy as np

        import classy_blocks as cb

        from ..tables.c18 import sketch_points

        shape, extra = _build_round(case["round"])
        mesh = cb.Mesh()
        mesh.add(shape)
        for e in extra:
            mesh.add(e)
        mesh.assemble()
        verts = [np.array(v.position, dtype=float) for v in mesh.vertices]
        index = {id(v): i for i, v in enumerate(mesh.vertices)}
        finder = cb.RoundSolidFinder(mesh, shape)
        import warnings

        phases = []
        for phase in range(2):
            if phase == 1:
                # history: the same finder object after the mesh has been re-assembled (new Vertex objects)
                with warnings.catch_warnings():
                    warnings.simplefilter("ignore")
                    mesh.backport()
                verts = [np.array(v.position, dtype=float) for v in mesh.vertices]
                index = {id(v): i for i, v in enumerate(mesh.vertices)}
            res: Dict[str, Any] = {"verts": [v.tolist() for v in verts], "ends": []}
            for end in (False, True):
                sketch = shape.sketch_2 if end else shape.sketch_1
                name = type(sketch).__name__
                if name == "Annulus":
                    name += str(sketch.n_segments)
                positions, _ = sketch_points(sketch)
                entry: Dict[str, Any] = {"sketch": name, "points": [p.tolist() for p in positions]}
                for part in ("core", "shell"):
                    found = getattr(finder, "find_" + part)(end)
                    entry[part] = sorted(index.get(id(v), -1) for v in found)  # -1: not a vertex of the mesh
                res["ends"].append(entry)
            phases.append(res)
        return {"phases": phases}

    def _impl_reorient(self, case: dict) -> Any:
        import numpy as np

        import classy_blocks as cb
        from classy_blocks.modify.reorient import viewpoint as vp

        base = np.array(case["pts"], dtype=float)
        numberings = case.get("numberings") or [list(p) for p in SYM48]
        record: Dict[str, Any] = {}
        real_hull = vp.ConvexHull
        real_aligned = vp.ViewpointReorienter._get_aligned

        def hull(points):  # records what scipy answered, changes nothing
            h = real_hull(points)
            record["simplices"] = [[int(i) for i in s] for s in h.simplices]
            return h

        def aligned(self, triangles, vector):
            keys = sorted(float(np.dot(t.normal, vector)) for t in triangles)
            if len(keys) >= 3:
                record["gap"] = min(record.get("gap", 1.0), keys[-2] - keys[-3])
            res = real_aligned(self, triangles, vector)
            if len(res) == 2:  # distance of the two halves' angle from the 60 degree limit of Quadrangle
                record["gap"] = min(record.get("gap", 1.0), abs(float(np.dot(res[0].normal, res[1].normal)) - 0.5))
            return res

        results = []
        vp.ConvexHull = hull
        vp.ViewpointReorienter._get_aligned = aligned
        try:
            for num in numberings:
                q = base[num]
                record.clear()
                op = cb.Loft(cb.Face(q[:4]), cb.Face(q[4:]))
                r: Dict[str, Any] = {"num": num}
                try:
                    with np.errstate(all="ignore"):
                        vp.ViewpointReorienter(case["obs"], case["ceil"]).reorient(op)
                    out = op.point_array
                    idx = []
                    for o in out:
                        hits = [i for i in range(8) if np.array_equal(base[i], o)]
                        idx.append(hits[0] if hits else -1)
                    r["out"] = idx
                except Exception as e:  # rejection (class name is the observation)
                    r["err"] = type(e).__name__
                r["simplices"] = record.get("simplices")
                r["gap"] = record.get("gap", 1.0)
                results.append(r)
        finally:
            vp.ConvexHull = real_hull
            vp.ViewpointReorienter._get_aligned = real_aligned
        return {"results": results}

    def _impl_reorient_seq(self, case: dict) -> Any:
        """One ViewpointReorienter object, re-used for every block of the case in turn (and, for comparison, a fresh
        object per block)."""
        import numpy as np

        import classy_blocks as cb
        from classy_blocks.modify.reorient import viewpoint as vp

        record: Dict[str, Any] = {}
        real_hull = vp.ConvexHull
        real_aligned = vp.ViewpointReorienter._get_aligned

        def hull(points):
            h = real_hull(points)
            record["simplices"] = [[int(i) for i in s] for s in h.simplices]
            return h

        def aligned(self, triangles, vector):
            keys = sorted(float(np.dot(t.normal, vector)) for t in triangles)
            if len(keys) >= 3:
                record["gap"] = min(record.get("gap", 1.0), keys[-2] - keys[-3])
            res = real_aligned(self, triangles, vector)
            if len(res) == 2:
                record["gap"] = min(record.get("gap", 1.0), abs(float(np.dot(res[0].normal, res[1].normal)) - 0.5))
            return res

        def one(reorienter, base, num):
            q = base[num]
            record.clear()
            op = cb.Loft(cb.Face(q[:4]), cb.Face(q[4:]))
            r: Dict[str, Any] = {"num": num}
            try:
                with np.errstate(all="ignore"):
                    reorienter.reorient(op)
                out = op.point_array
                idx = []
                for o in out:
                    hits = [i for i in range(8) if np.array_equal(base[i], o)]
                    idx.append(hits[0] if hits else -1)
                r["out"] = idx
            except Exception as e:
                r["err"] = type(e).__name__
            r["simplices"] = record.get("simplices")
            r["gap"] = record.get("gap", 1.0)
            return r

        results, fresh = [], []
        vp.ConvexHull = hull
        vp.ViewpointReorienter._get_aligned = aligned
        try:
            shared = vp.ViewpointReorienter(case["obs"], case["ceil"])
            for b in case["blocks"]:
                base = np.array(b["pts"], dtype=float)
                results.append(one(shared, base, b["num"]))
            for b in case["blocks"]:
                base = np.array(b["pts"], dtype=float)
                f = one(vp.ViewpointReorienter(case["obs"], case["ceil"]), base, b["num"])
                fresh.append(f.get("out", f.get("err")))
        finally:
            vp.ConvexHull = real_hull
            vp.ViewpointReorienter._get_aligned = real_aligned
        return {"results": results, "fresh": fresh}

    # ------------------------------------------------------------------ model
    def requests(self, case: dict, impl: Any) -> List[str]:
        reqs: List[str] = []
        if case["kind"] == "find":
            # the whole history of the one finder object goes to the model's session in ONE request
            ops: List[str] = []
            nq = 0
            for k, ph in enumerate(impl["phases"]):
                if k == 1 and len(ph["verts"]) == len(impl["phases"][0]["verts"]):
                    for i, (a, b) in enumerate(zip(impl["phases"][0]["verts"], ph["verts"])):
                        if a != b:
                            ops.append(f"m:{i}:{_pt(b)}")  # moved in place
                elif k >= 1:
                    ops.append("r:" + _pts(ph["verts"]))  # a new assembly
                for q in ph["queries"]:
                    if q["boundary"]:
                        continue
                    nq += 1
                    if q["type"] == "sphere":
                        r = "tol" if q["radius"] is None else _fr(q["radius"])
                        ops.append(f"s:{_pt(q['centre'])}:{r}")
                    else:
                        ops.append(f"p:{_pt(q['centre'])}:{_pt(q['normal'])}")
            if nq:
                reqs.append("c18.session " + _pts(impl["phases"][0]["verts"]) + " " + " ".join(ops))
        elif case["kind"] == "shape":
            ops = []
            for k, ph in enumerate(impl["phases"]):
                if k:
                    ops.append("r:" + _pts(ph["verts"]))
                for e in ph["ends"]:
                    ops.append(f"c:{e['sketch']}:{_pts(e['points'])}")
                    ops.append(f"h:{e['sketch']}:{_pts(e['points'])}")
            reqs.append("c18.session " + _pts(impl["phases"][0]["verts"]) + " " + " ".join(ops))
        elif case["kind"] == "reorient-seq":
            import numpy as np

            if all(r["simplices"] is not None and r["gap"] >= TIE for r in impl["results"]):
                parts = []
                for b, r in zip(case["blocks"], impl["results"]):
                    base = np.array(b["pts"], dtype=float)
                    tris = ";".join("-".join(map(str, s)) for s in r["simplices"]) or "-"
                    parts.append(_pts(base[r["num"]]) + "|" + tris)
                reqs.append(f"c18.seq {_pt(case['obs'])} {_pt(case['ceil'])} " + " ".join(parts))
        else:
            import numpy as np

            base = np.array(case["pts"], dtype=float)
            for r in impl["results"]:
                if r["simplices"] is None or r["gap"] < TIE:
                    continue
                tris = ";".join("-".join(map(str, s)) for s in r["simplices"]) or "-"
                reqs.append(f"c18.reorient {_pt(case['obs'])} {_pt(case['ceil'])} {_pts(base[r['num']])} {tris}")
            r0 = impl["results"][0] if impl["results"] else None
            if r0 and r0["simplices"] is not None and len(r0["simplices"]) == 12:  # the hull oracle's answer, validated
                tris = ";".join("-".join(map(str, s)) for s in r0["simplices"])
                reqs.append(f"c18.hull 1/1000000000 {_pts(base[r0['num']])} {tris}")
            ok = [r for r in impl["results"] if "out" in r and -1 not in r["out"]]
            if ok and case["hex"] != "nonconvex" and _clear_view(case["pts"], case["obs"], case["ceil"]):
                reqs.append(f"c18.canon {_pt(case['obs'])} {_pt(case['ceil'])} {_pts(base[ok[0]['out']])}")
            # hypotheses of T_C18_clear_view, decided exactly for every numbering that went to the model (the last requests)
            for r in _clear_asked(impl):
                tris = ";".join("-".join(map(str, s)) for s in r["simplices"])
                reqs.append(f"c18.clear {_pt(case['obs'])} {_pt(case['ceil'])} {_pts(base[r['num']])} {tris}")
                reqs.append(f"c18.contract {_pts(base[r['num']])} {tris}")  # hull contract of T_C18_returns_relabelling
        return reqs

    def compare(self, case: dict, impl: Any, model: List[str]) -> Optional[str]:
        pos = 0
        if case["kind"] in ("find", "shape"):
            if not model:
                return None
            model = model[0].split("|")  # the answers of the session, one per query
        if case["kind"] == "find":
            for k, ph in enumerate(impl["phases"]):
                for q in ph["queries"]:
                    if q["boundary"]:
                        continue
                    want = "[" + ",".join(map(str, q["found"])) + "]"
                    if pos >= len(model):
                        return f"the model's session gives {len(model)} answers, fewer than the queries asked"
                    if model[pos] != want:
                        when = ["", " (after vertices were moved)", " (after backport)", " (after delete/clear/assemble)"][k]
                        return f"{q['type']} query{when} {q}: implementation finds {want}, model {model[pos]}"
                    pos += 1
            return None
        if case["kind"] == "shape":
            for k, ph in enumerate(impl["phases"]):
                for e in ph["ends"]:
                    for part in ("core", "shell"):
                        want = "[" + ",".join(map(str, e[part])) + "]"
                        if pos >= len(model):
                            return f"the model's session gives {len(model)} answers, fewer than the queries asked"
                        if model[pos] != want:
                            when = " (after backport)" if k else ""
                            return f"find_{part} on {e['sketch']}{when}: implementation {want}, model {model[pos]}"
                        pos += 1
            return None
        cls = {"err notconvex": "DegenerateGeometryError", "err degenerate": "DegenerateGeometryError", "err index": "IndexError"}
        if case["kind"] == "reorient-seq":
            if not model:
                return None
            answers = model[0].split("|")
            if len(answers) != len(impl["results"]):
                return f"history of {len(impl['results'])} blocks: model answers {model[0]}"
            for k, (r, ans) in enumerate(zip(impl["results"], answers)):
                if "out" in r:
                    want = "ok [" + ",".join(str(r["num"].index(i)) if i in r["num"] else "8" for i in r["out"]) + "]"
                    if ans != want:
                        return f"block {k} of a re-used re-orienter: implementation {want}, model {ans}"
                elif cls.get(ans) != r["err"]:
                    return f"block {k} of a re-used re-orienter: implementation raises {r['err']}, model {ans}"
            return None
        for r in impl["results"]:
            if r["simplices"] is None or r["gap"] < TIE:
                continue
            ans = model[pos]
            pos += 1
            if "out" in r:
                want = "ok [" + ",".join(str(r["num"].index(i)) if i in r["num"] else "8" for i in r["out"]) + "]"
                if ans != want:
                    return f"numbering {r['num']}: implementation {want}, model {ans}"
            else:
                cls = {"err notconvex": "DegenerateGeometryError", "err degenerate": "DegenerateGeometryError", "err index": "IndexError"}
                if cls.get(ans) != r["err"]:
                    return f"numbering {r['num']}: implementation raises {r['err']}, model {ans}"
        r0 = impl["results"][0] if impl["results"] else None
        if r0 and r0["simplices"] is not None and len(r0["simplices"]) == 12:
            if model[pos] != "ok":
                return f"validator: what scipy.spatial.ConvexHull answered is not a closed convex triangulation: {model[pos]}"
            pos += 1
        asked = _clear_asked(impl)
        if len(model) - pos - 2 * len(asked) == 1:  # the validator request
            if model[pos] != "ok":
                return f"validator Canonical rejects the implementation's result in a clear view: {model[pos]}"
            pos += 1
        # T_C18_clear_view: where its hypotheses hold (decided exactly by the model) the theorem names the numbering
        margin_clear = case["hex"] != "nonconvex" and _clear_view(case["pts"], case["obs"], case["ceil"])
        predicted = set()
        for r in asked:
            ans = model[pos]
            pos += 1
            _THEOREM_STATS["asked"] += 1
            if ans.startswith("clear "):
                _THEOREM_STATS["clear"] += 1
                if "out" not in r:
                    return f"numbering {r['num']}: T_C18_clear_view applies ({ans}) but the implementation raises {r['err']}"
                want = "clear [" + ",".join(str(r["num"].index(i)) if i in r["num"] else "8" for i in r["out"]) + "]"
                if ans != want:
                    return f"numbering {r['num']}: T_C18_clear_view predicts {ans}, implementation {want}"
                idx = [int(x) for x in ans[len("clear ["):-1].split(",")]
                predicted.add(tuple(r["num"][i] for i in idx))
            elif ans != "unclear":
                return f"numbering {r['num']}: c18.clear answers {ans}"
            elif margin_clear and r0 and model and "ok" in model:
                # guards against a vacuous theorem: a view that is clear by the margin 1e-3 for every triangulation
                # must satisfy the exact hypotheses
                return f"numbering {r['num']}: the view is clear by the margin {CLEAR} but the hypotheses of T_C18_clear_view are not met"
            # T_C18_returns_relabelling: under the hull contract (decided exactly by the model's validator, no view
            # involved) every run that returns is one of the 48 relabellings of the input numbering
            con = model[pos]
            pos += 1
            valid_numbering = tuple(r["num"]) in _SYM48_SET
            if con == "contract":
                _THEOREM_STATS["contract"] += 1
                if "out" in r:
                    _THEOREM_STATS["contract_returned"] += 1
                    idx = tuple(r["num"].index(i) if i in r["num"] else 8 for i in r["out"])
                    if idx not in _SYM48_SET:
                        return (f"numbering {r['num']}: the hull contract holds (T_C18_returns_relabelling) but the "
                                f"implementation returns {list(idx)}, not one of the 48 relabellings of its input")
            elif con != "nocontract":
                return f"numbering {r['num']}: c18.contract answers {con}"
            elif valid_numbering and case["hex"] == "box" and len(r["simplices"]) == 12:
                # guards against a vacuous theorem: a box (sides 90 degrees apart) numbered like a block satisfies the contract
                return f"numbering {r['num']}: a {case['hex']} block does not satisfy the hull contract of T_C18_returns_relabelling"
        if len(predicted) > 1:
            return f"T_C18_canonicalises: different numberings predicted for one block and view: {sorted(predicted)}"
        return None

    # ------------------------------------------------------------------ oracle: the property on the implementation
    def oracle(self, case: dict, impl: Any) -> List[dict]:
        if case["kind"] == "find":
            return self._oracle_find(case, impl)
        if case["kind"] == "shape":
            return self._oracle_shape(case, impl)
        if case["kind"] == "reorient-seq":
            return self._oracle_reorient_seq(case, impl)
        return self._oracle_reorient(case, impl)

    def _oracle_reorient_seq(self, case: dict, impl: Any) -> List[dict]:
        """Every block of the history is judged from ITS OWN centre, exactly like a block re-oriented alone; and what a
        re-used re-orienter returns must be what a fresh one returns."""
        out: List[dict] = []
        for k, (b, r) in enumerate(zip(case["blocks"], impl["results"])):
            sub = {"kind": "reorient", "hex": b["hex"], "pts": b["pts"], "obs": case["obs"], "ceil": case["ceil"]}
            for v in self._oracle_reorient(sub, {"results": [r]}):
                v = dict(v)
                v["what"] = f"block {k} of {len(case['blocks'])} re-oriented by one re-used ViewpointReorienter: " + v["what"]
                out.append(v)
            if out:
                break
            fresh = impl["fresh"][k]
            if r["gap"] >= TIE and r.get("out", r.get("err")) != fresh:
                out.append(
                    {
                        "site": "ViewpointReorienter.reorient:result-depends-on-earlier-blocks",
                        "what": f"block {k}: the re-used re-orienter gives {r.get('out', r.get('err'))}, a fresh one {fresh}",
                        "observed": r.get("out", r.get("err")),
                        "expected": fresh,
                    }
                )
                break
        return out

    def _oracle_find(self, case: dict, impl: Any) -> List[dict]:
        out: List[dict] = []
        suffix = ["", ":after-vertices-moved", ":after-reassembly", ":after-reassembly"]
        for k, ph in enumerate(impl["phases"]):
            out += self._oracle_find_phase(ph, Fraction(impl["tol"]), suffix[k])
        return out

    def _oracle_find_phase(self, ph: dict, tol: Fraction, suffix: str) -> List[dict]:
        out: List[dict] = []
        verts = [_F(v) for v in ph["verts"]]  # tol: the library's merge tolerance (constants.TOL), read at run time
        tol2 = tol**2
        for q in ph["queries"]:
            if q["boundary"]:
                continue
            c = _F(q["centre"])
            if q["type"] == "sphere":
                r = tol if q["radius"] is None else Fraction(float(q["radius"]))
                exp = [i for i, v in enumerate(verts) if r > 0 and _dot(_sub(v, c), _sub(v, c)) < r * r]
                fn = "find_in_sphere"
            else:
                n = _F(q["normal"])
                nn = _dot(n, n)
                if nn == 0:
                    continue  # no plane given; covered by the correspondence only
                exp = [i for i, v in enumerate(verts) if _dot(_sub(v, c), n) ** 2 < tol2 * nn]
                fn = "find_on_plane"
            if -1 in q["found"]:
                out.append(
                    {
                        "site": f"GeometricFinder.{fn}:not-a-vertex-of-the-mesh{suffix}",
                        "what": f"{q}: {q['found'].count(-1)} of the returned objects are not among mesh.vertices "
                        "(vertices of an earlier assembly)",
                        "observed": q["found"],
                        "expected": exp,
                    }
                )
                continue
            twins = q.get("twins") or []
            if len(twins) > 1 and 0 < len(set(twins) & set(q["found"])) < len(twins):
                # merged patches: the copies of one position are different vertex objects; exact = all of them or none
                out.append(
                    {
                        "site": f"GeometricFinder.{fn}:duplicate-copy-missed{suffix}",
                        "what": f"{q}: of the vertex objects {twins} at one position only {sorted(set(twins) & set(q['found']))} are returned",
                        "observed": q["found"],
                        "expected": exp,
                    }
                )
            missed = sorted(set(exp) - set(q["found"]))
            extra = sorted(set(q["found"]) - set(exp))
            if missed:
                out.append({"site": f"GeometricFinder.{fn}:vertex-missed{suffix}", "what": f"{q}: vertices {missed} not returned", "observed": q["found"], "expected": exp})
            if extra:
                out.append({"site": f"GeometricFinder.{fn}:extra-vertex{suffix}", "what": f"{q}: vertices {extra} are outside", "observed": q["found"], "expected": exp})
            if not q["is_set"]:
                out.append({"site": f"GeometricFinder.{fn}:not-a-set", "what": "result is not a set of vertices"})
        return out

    def _oracle_shape(self, case: dict, impl: Any) -> List[dict]:
        import numpy as np

        out: List[dict] = []
        for k, ph in enumerate(impl["phases"]):
            out += self._oracle_shape_phase(case, ph, ":after-reassembly" if k else "")
        return out

    def _oracle_shape_phase(self, case: dict, impl: Any, suffix: str) -> List[dict]:
        import numpy as np

        out: List[dict] = []
        spec = case["round"]
        verts = [np.array(v) for v in impl["verts"]]
        for end, (centre, normal, radius) in enumerate(_end_faces(spec)):
            centre, normal = np.array(centre), np.array(_unit(normal))
            on_face = []
            for i, v in enumerate(verts):
                d = v - centre
                h = float(np.dot(d, normal))
                rho = float(np.linalg.norm(d - h * normal))
                if abs(h) < 1e-6 * max(1.0, radius) and rho < radius * (1 + 1e-6):
                    on_face.append((i, rho))
            rim = sorted(i for i, rho in on_face if abs(rho - radius) < 1e-6 * radius)
            inner = sorted(i for i, rho in on_face if rho < radius * (1 - 1e-3))
            if spec["type"] == "ExtrudedRing":
                core_exp: List[int] = []  # a ring has no core
            else:
                core_exp = inner
            e = impl["ends"][end]
            name = "end" if end else "start"
            if -1 in e["shell"] + e["core"]:
                out.append(
                    {
                        "site": "RoundSolidFinder:not-a-vertex-of-the-mesh" + suffix,
                        "what": f"{spec['type']} {name} face: the finder returns objects that are not among mesh.vertices "
                        f"(core {e['core']}, shell {e['shell']})",
                    }
                )
                continue
            if e["shell"] != rim:
                out.append(
                    {
                        "site": "RoundSolidFinder.find_shell:not-the-outer-rim" + suffix,
                        "what": f"{spec['type']} {name} face: find_shell returns vertices {e['shell']}, the outer rim is {rim}",
                        "observed": e["shell"],
                        "expected": rim,
                    }
                )
            if e["core"] != core_exp:
                out.append(
                    {
                        "site": "RoundSolidFinder.find_core:not-the-core" + suffix,
                        "what": f"{spec['type']} {name} face: find_core returns vertices {e['core']}, the core is {core_exp}",
                        "observed": e["core"],
                        "expected": core_exp,
                    }
                )
        return out

    def _oracle_reorient(self, case: dict, impl: Any) -> List[dict]:
        out: List[dict] = []
        site = "ViewpointReorienter.reorient:"
        results = impl["results"]
        if case["hex"] == "nonconvex":
            for r in results:
                if r.get("err") != "DegenerateGeometryError":
                    out.append({"site": site + "non-convex-block-accepted", "what": f"numbering {r['num']}: {r.get('out', r.get('err'))}"})
                    break
            return out
        P = [_F(p) for p in case["pts"]]
        clear = _clear_view(case["pts"], case["obs"], case["ceil"])
        gap = min(r["gap"] for r in results)
        for r in results:
            if "out" not in r:
                if r["err"] == "IndexError":  # the documented rejection is DegenerateGeometryError (repair 70219c0)
                    out.append(
                        {
                            "site": site + "bare-IndexError-instead-of-DegenerateGeometryError",
                            "what": f"numbering {r['num']}: a view the re-orienter cannot sort is rejected with {r['err']}",
                            "observed": r["err"],
                            "expected": "DegenerateGeometryError",
                        }
                    )
                    break
                if r["err"] != "DegenerateGeometryError":
                    out.append({"site": site + "unexpected-exception", "what": f"numbering {r['num']}: {r['err']}"})
                    break
                if clear:
                    out.append(
                        {
                            "site": site + "clear-view-rejected",
                            "what": f"numbering {r['num']}: {r['err']} although every side is clearly aligned ({clear})",
                        }
                    )
                    break
                continue
            idx = r["out"]
            if sorted(idx) != list(range(8)):
                out.append(
                    {
                        "site": site + "points-lost-or-duplicated",
                        "what": f"numbering {r['num']}: the result takes the original points {idx} (-1: not an original point)",
                        "observed": idx,
                        "expected": "a permutation of 0..7",
                    }
                )
                break
            Q = [P[i] for i in idx]
            if tuple(idx) in SYM48:
                tps = _corner_triples(Q)
                if all(t > 0 for t in _corner_triples(P)) and not all(t > 0 for t in tps):
                    out.append(
                        {
                            "site": site + "left-handed-result",
                            "what": f"numbering {r['num']}: corner triple products {[float(t) for t in tps]} of the result {idx}",
                            "observed": idx,
                        }
                    )
                    break
            else:
                # same points, but the sides of the result are not the sides of the block (e.g. top turned by 90 degrees
                # against bottom; repaired by the 60 degree limit between the halves of a face)
                out.append(
                    {
                        "site": site + ("block-restructured-in-clear-view" if clear else "block-restructured"),
                        "what": f"numbering {r['num']}: result {idx} is not one of the 48 relabellings of the block "
                        "(its sides are not the sides of the block)",
                        "observed": idx,
                    }
                )
                break
            if clear:
                bad = _canonical_problems([[float(c) for c in p] for p in Q], case["obs"], case["ceil"])
                if bad:
                    out.append(
                        {
                            "site": site + "front-or-top-not-facing",
                            "what": f"numbering {r['num']}: result {idx}: the {bad} side does not face the observer/ceiling; clear view {clear}",
                            "observed": idx,
                        }
                    )
                    break
        if not out and gap >= TIE:
            kinds = {json.dumps(r["out"]) if "out" in r else "rejected" for r in results}
            if len(kinds) > 1:
                out.append(
                    {
                        "site": site + "result-depends-on-numbering",
                        "what": f"the initial numberings give {len(kinds)} different outcomes: {sorted(kinds)[:4]}",
                    }
                )
        return out

    # ------------------------------------------------------------------ bookkeeping
    def nontrivial_key(self, case, impl):
        if case["kind"] == "find":
            if not any(q["found"] for ph in impl["phases"] for q in ph["queries"] if not q["boundary"]):
                return None
        elif case["kind"] == "reorient-seq":
            if not any("out" in r for r in impl["results"]):
                return None
        elif case["kind"] == "reorient":
            if not any("out" in r for r in impl["results"]) and case["hex"] != "nonconvex":
                return None
        return json.dumps(case, sort_keys=True)

    def classify(self, case, impl):
        if case["kind"] == "find":
            b = sum(1 for ph in impl["phases"] for q in ph["queries"] if q["boundary"])
            return (
                "find:"
                + ("round+boxes" if case["mesh"].get("round") else "boxes")
                + (":duplicated-vertices" if case["mesh"].get("merged") else "")
                + (":some-boundary-skipped" if b else "")
            )
        if case["kind"] == "shape":
            far = ":thin-far-from-origin" if case["round"]["r1"] < 0.1 else ""
            return "shape:" + case["round"]["type"] + far + (":chained" if case["round"].get("chain") else "")
        if case["kind"] == "reorient-seq":
            res = impl["results"]
            nclear = sum(1 for b in case["blocks"] if _clear_view(b["pts"], case["obs"], case["ceil"]))
            ret = sum(1 for r in res if "out" in r)
            return f"history:{len(res)}-blocks:{nclear}-clear:{ret}-returned"
        res = impl["results"]
        state = "returned" if all("out" in r for r in res) else ("rejected" if not any("out" in r for r in res) else "mixed")
        if case["hex"] == "nonconvex":
            return "reorient:nonconvex:" + state
        clear = "clear" if _clear_view(case["pts"], case["obs"], case["ceil"]) else "dubious"
        tie = ":near-tie" if min(r["gap"] for r in res) < TIE else ""
        other = ":restructured" if any("out" in r and tuple(r["out"]) not in SYM48 for r in res) else ""
        size = ":tiny" if case.get("scale", 1.0) < 1e-2 else (":big" if case.get("scale", 1.0) > 2 else "")
        return f"reorient:{case['hex']}{size}:{clear}:{state}{tie}{other}"


if __name__ == "__main__":
    sys.exit(core.main(C18()))
