"""C08 — alternative arc specifications equal the analytic circle; every edge is at least as long as its chord."""

from __future__ import annotations

import json
import math
import random
import struct
import sys
import warnings
from fractions import Fraction
from typing import Any, List, Optional

from .. import core

EPS_WIT = Fraction(1, 10**12)  # tolerance of the square-root witnesses inside the model
EPS_VALID = Fraction(1, 10**9)  # tolerance of the validator clauses (relative to the squared radius)
TOL_POINT = 1e-9  # model/oracle point vs. implementation point, relative to the scale of the case
EPS_ANGLE = Fraction(1, 10**7)  # clauses of the acos-step validator (cosine of length/radius vs. r1.r3/|r1|^2)
TOL_LEN = 1e-6  # lengths (the acos step is ill-conditioned near 0, pi, 2*pi)
TWO_PI = 2 * math.pi
EPS_DOUBLE = 2.220446049250313e-16


def _len_tol(case: dict, expected: float) -> float:
    """tolerance of a reported length.  Near the origin: TOL_LEN (absolute for lengths below 1).  For an arc placed far from the
    origin (`far` = offset / radius) the radius vectors are differences of coordinates that carry eps*offset each, so the length
    carries about eps * far relative (measured on 1200 far placements: at most 1.25 * eps * far); 16 * eps * far is demanded —
    still below 6e-8 relative for the farthest placements, i.e. far tighter than TOL_LEN."""
    if "far" in case:
        return (1e-12 + 16 * EPS_DOUBLE * case["far"]) * expected
    return TOL_LEN * max(1.0, expected)


# ----------------------------------------------------------------------------- small vector helpers (floats)
def _sub(a, b):
    return [x - y for x, y in zip(a, b)]


def _add(a, b):
    return [x + y for x, y in zip(a, b)]


def _mul(k, a):
    return [k * x for x in a]


def _dot(a, b):
    return sum(x * y for x, y in zip(a, b))


def _cross(a, b):
    return [a[1] * b[2] - a[2] * b[1], a[2] * b[0] - a[0] * b[2], a[0] * b[1] - a[1] * b[0]]


def _norm(a):
    return math.sqrt(_dot(a, a))


def _unit(a):
    n = _norm(a)
    return [x / n for x in a]


def _frame(rng: random.Random):
    """a random right-handed orthonormal frame (e1, e2, n)"""
    while True:
        n = [rng.gauss(0, 1) for _ in range(3)]
        t = [rng.gauss(0, 1) for _ in range(3)]
        if _norm(n) > 0.3 and _norm(_cross(n, t)) > 0.3:
            break
    if rng.random() < 0.15:  # axis-aligned sometimes
        n = [[1.0, 0, 0], [0, 1.0, 0], [0, 0, 1.0], [0, 0, -1.0]][rng.randrange(4)]
        if _norm(_cross(n, t)) < 0.3:
            t = [0.3, 0.5, 0.7]
    n = _unit(n)
    e1 = _unit(_cross(n, t))
    e2 = _cross(n, e1)
    return e1, e2, n


def _vec(p) -> str:
    return ",".join(core.rat(float(x)) for x in p)


def _fvec(p) -> List[Fraction]:
    return [Fraction(float(x)) for x in p]


def _parse_vec(s: str) -> List[float]:
    return [float(core.parse_rat(x)) for x in s.split(",")]


def _bits(s: str) -> float:
    return struct.unpack("<d", struct.pack("<Q", int(s)))[0]


def _scale(*pts) -> float:
    return max([1.0] + [abs(float(x)) for p in pts for x in p])


def _half_angle(theta: float):
    """exact (cos, sin) of an angle within 1e-16 of theta/2, from u = tan(theta/4) as a rational"""
    u = Fraction(math.tan(theta / 4))
    return (1 - u * u) / (1 + u * u), 2 * u / (1 + u * u)


def arc_through(ps, pb, pe):
    """Independent statement of 'the arc from ps through pb to pe': (centre, radius, swept angle).
    Circumcentre in the plane of the three points, angles by atan2 in that plane."""
    a, b = _sub(pb, ps), _sub(pe, ps)
    n = _cross(a, b)
    nn = _dot(n, n)
    # circumcentre: ps + ((|a|^2 b - |b|^2 a) x n) / (2 |n|^2)
    w = _sub(_mul(_dot(a, a), b), _mul(_dot(b, b), a))
    c = _add(ps, _mul(1 / (2 * nn), _cross(w, n)))
    r1, r2, r3 = _sub(ps, c), _sub(pb, c), _sub(pe, c)
    nh = _unit(n)
    ang = lambda r: math.atan2(_dot(_cross(r1, r), nh), _dot(r1, r)) % TWO_PI
    t2, t3 = ang(r2), ang(r3)
    swept = t3 if t2 < t3 else TWO_PI - t3
    return c, _norm(r1), swept


class C08(core.Check):
    pid = "C08"
    props_module = "CBV.Props.C08"
    rule = (
        "theta: end points with a chord of 0.05..50 orthogonal to a randomly oriented (also non-unit) axis, sector angle "
        "in +-(0.02, 2*pi-0.05) incl. pi, pi/2, 3pi/2 and pi+-1e-3 (radii 0.025..1000); origin: end points on a circle of "
        "radius 0.03..30 in a random plane, included angle (0.02, pi-0.05), flatness 1; origin_adj: flatness != 1 or a "
        "non-equidistant origin; arc3: three points on a circle with the third point strictly inside the arc, swept angle "
        "(0.05, 2*pi-0.05) away from pi; arc3_beyond: third point between the end and the antipode of the start (known "
        "finding); nearly full turns (end vertices 1.2e-4..3e-4 apart, radius 0.01..3) as Angle and as classic arcs; OnCurve edges "
        "on unevenly spaced linear curves with inner end vertices; flat arcs (radius 100..4000, sector angle 2e-4..1.5e-3, chord*rise >= 10 TOL) in the theta/origin/mesh streams; "
        "arc_hist / mesh_hist: one Origin/Angle edge object (also inside an assembled Mesh) observed, its end vertices moved to "
        "other valid positions, observed again; curve_tf: OnCurve edges over linear/spline/discrete curves placed by translate/rotate/scale/mirror as method "
        "calls or as a transformation list; mesh: origin/angle arcs on the 12 edge positions of one or two stacked lofts in "
        "general position, observed in the assembled mesh's edges section; poly/curve/simple: spline, polyLine, curve, line and project edges over random point sets; far-from-origin: Angle / Origin / classic arcs of radius 0.3..10 "
        "placed at UTM-like coordinates (offset/radius 1e2..1.6e7, |sin angle| >= 0.25), length within 16*eps*(offset/radius) of radius x angle; reject: "
        "angles outside (0, 2*pi), collinear arc points, a one-point polyline. Non-trivial = every case; distinct = "
        "different input."
    )
    assumptions = [
        "square roots enter the model as witnesses; the driver obtains them from a double-precision sqrt and re-checks "
        "|w^2-x| <= 1e-12 (1+x) exactly",
        "1/tan(theta/2) is modelled as cos/sin of the half angle; the harness supplies an exact rational point of the unit "
        "circle within 1e-16 of (cos, sin)(theta/2)",
        "acos and the final products of arc_length_3point are an opaque Float step of the model (compared at 1e-6)",
        "the axis of an Angle edge is orthogonal to the chord (otherwise the specification describes a helix, which a "
        "three-point arc cannot represent); the origin of an Origin edge is not on the chord (half circle is ambiguous)",
    ]
    partial_note = (
        "Theorems: mid point / centre / uniqueness / three-point centre / side test on bisector / polyline >= chord. "
        "Over the reals (round 6): arc_length_3point as modelled = radius x angle incl. the arccos step, exactly outside the known "
        "finding's region; the three specifications agree. Validator-checked only: float rounding of the implementation (its acos step is "
        "validated through a rational (cos, sin) witness of length/radius), (arc length >= chord is a theorem for every three-point arc over the reals; the length theorem holds for every accepted triple, frame and angles derived from coordinates). "
        "Known finding: the interior/exterior decision of arc_length_3point for a third point between the far end and the "
        "antipode (identical to blockMesh's arcEdge)."
    )

    # ------------------------------------------------------------------ generators
    def _theta_case(self, rng: random.Random, flat: bool = False, nearfull: bool = False) -> dict:
        e1, e2, n = _frame(rng)
        chord = 10 ** rng.uniform(-1.3, 1.7)
        off = [rng.uniform(-10, 10) for _ in range(3)]
        r = rng.random()
        if nearfull:
            # almost a full turn: the two end vertices are 1.2e-4..3e-4 apart (a thousand times the merging tolerance: two
            # clearly distinct vertices) while the arc is long; radius 0.01..3; chord*diameter >= 20*TOL keeps the arc valid
            while True:
                R_ = 10 ** rng.uniform(-2, 0.5)
                chord = rng.uniform(1.2e-4, 3e-4)
                if chord * 2 * R_ >= 2e-6:
                    break
            theta = TWO_PI - 2 * math.asin(chord / (2 * R_))
        elif flat:
            # a flat arc: block-sized chord, radius 100..4000, sector angle below 1.5e-3; the rise (1e-5..1e-3) is far above
            # the written precision and chord*rise is at least 10*TOL, so the arc must be kept as an arc
            while True:
                chord = rng.uniform(0.15, 1.5)
                theta = rng.uniform(2e-4, 1.5e-3)
                if chord * chord * theta / 8 >= 1e-6:
                    break
        elif r < 0.2:
            theta = rng.choice([math.pi, math.pi / 2, 1.5 * math.pi, math.pi - 1e-3, math.pi + 1e-3, 3.0, 3.3])
        elif r < 0.6:
            theta = rng.uniform(math.pi, TWO_PI - 0.05)
        else:
            theta = rng.uniform(0.02, math.pi)
        if rng.random() < 0.5:
            theta = -theta
        ax_scale = rng.choice([1.0, 1.0, 0.5, 2.0, rng.uniform(0.1, 5)])
        p1 = off
        p2 = _add(off, _mul(chord, e1))
        return {"kind": "theta", "p1": p1, "p2": p2, "axis": _mul(ax_scale, n), "theta": theta}

    def _origin_case(self, rng: random.Random, adjust: bool, flat: bool = False) -> dict:
        while True:
            e1, e2, n = _frame(rng)
            R = 10 ** rng.uniform(-1.5, 1.5)
            C = [rng.uniform(-10, 10) for _ in range(3)]
            a0 = rng.uniform(0, TWO_PI)
            phi = rng.uniform(0.02, math.pi - 0.05) * rng.choice([1, -1])
            if flat:  # large radius, small included angle (see _theta_case)
                R = 10 ** rng.uniform(2, 3.3)
                phi = rng.uniform(2e-4, 1.5e-3) * rng.choice([1, -1])
            pt = lambda a, rad: _add(C, _add(_mul(rad * math.cos(a), e1), _mul(rad * math.sin(a), e2)))
            mult = 1.0
            R2 = R
            if adjust:
                if rng.random() < 0.5:
                    mult = rng.choice([0.5, 0.8, 1.2, 2.0, 3.0])
                if mult == 1.0 or rng.random() < 0.5:
                    R2 = R * rng.uniform(1.05, 1.5)
            p1, p2 = pt(a0, R), pt(a0 + phi, R2)
            ch = _norm(_sub(p2, p1))
            sag = R * (1 - math.cos(phi / 2))
            if (ch * sag > 1e-5 and ch > 1e-3) or (flat and ch * sag >= 1e-6 and ch <= 3.0):
                return {"kind": "origin_adj" if adjust else "origin", "p1": p1, "p2": p2, "origin": C, "flatness": mult}

    def _arc3_case(self, rng: random.Random, beyond: bool, nearfull: bool = False) -> dict:
        e1, e2, n = _frame(rng)
        R = 10 ** rng.uniform(-1.5, 1.5)
        C = [rng.uniform(-10, 10) for _ in range(3)]
        a0 = rng.uniform(0, TWO_PI)
        sgn = rng.choice([1, -1])
        if nearfull:
            # a classic arc around the far side of a short chord (end points 1.2e-4..3e-4 apart)
            R = 10 ** rng.uniform(-2, 0.5)
            while True:
                chord = rng.uniform(1.2e-4, 3e-4)
                if chord * 2 * R >= 2e-6:
                    break
            phi = TWO_PI - 2 * math.asin(chord / (2 * R))
            psi = rng.uniform(0.3, math.pi - 0.3)
        elif beyond:
            phi = rng.uniform(math.pi + 0.3, TWO_PI - 0.1)
            psi = rng.uniform(math.pi + 0.05, phi - 0.05)
        else:
            while True:
                phi = rng.uniform(0.05, TWO_PI - 0.05)
                if abs(phi - math.pi) > 0.05:
                    break
            hi = phi if phi < math.pi else math.pi - 0.05
            psi = rng.uniform(0.1 * hi, 0.9 * hi)
        pt = lambda a: _add(C, _add(_mul(R * math.cos(a0 + sgn * a), e1), _mul(R * math.sin(a0 + sgn * a), e2)))
        return {"kind": "arc3_beyond" if beyond else "arc3", "p1": pt(0), "pb": pt(psi), "p2": pt(phi)}

    def _far_case(self, rng: random.Random, which: str) -> dict:
        """round 6b — an arc of block size (radius 0.3..10) placed far from the origin of the coordinate system (UTM-like
        easting / northing / height: offset/radius 1e2..1.6e7): the reported length does not depend on where the arc is.
        The sector / included angles keep |sin| >= 0.25 (the acos step loses accuracy like 1/sin next to 0, pi, 2 pi)."""
        e1, e2, n = _frame(rng)
        R = 10 ** rng.uniform(-0.5, 1)
        off = [
            rng.choice([1, -1]) * 10 ** rng.uniform(3, 6.7),
            rng.choice([1, -1]) * 10 ** rng.uniform(3, 6.7),
            rng.choice([1, -1]) * 10 ** rng.uniform(1, 3.5),
        ]
        rng.shuffle(off)
        far = max(abs(x) for x in off) / R
        ang = rng.choice([rng.uniform(0.4, 2.7), rng.uniform(3.6, 5.9)])
        sgn = rng.choice([1, -1])
        a0 = rng.uniform(0, TWO_PI)
        C = _add(off, [rng.uniform(-5, 5) for _ in range(3)])
        pt = lambda a: _add(C, _add(_mul(R * math.cos(a0 + sgn * a), e1), _mul(R * math.sin(a0 + sgn * a), e2)))
        if which == "theta":
            return {"kind": "theta", "p1": pt(0), "p2": pt(ang), "axis": _mul(rng.choice([1.0, 0.5, 2.0]), n), "theta": sgn * ang, "far": far}
        if which == "origin":
            ang = rng.uniform(0.4, 2.7)
            return {"kind": "origin", "p1": pt(0), "p2": pt(ang), "origin": C, "flatness": 1.0, "far": far}
        hi = ang if ang < math.pi else math.pi - 0.05
        return {"kind": "arc3", "p1": pt(0), "pb": pt(rng.uniform(0.1 * hi, 0.9 * hi)), "p2": pt(ang), "far": far}

    def _poly_case(self, rng: random.Random) -> dict:
        n = rng.randint(2, 8)  # Spline/PolyLine data need at least two inner points
        step = 10 ** rng.uniform(-1.5, 1)
        p = [rng.uniform(-5, 5) for _ in range(3)]
        pts = [p]
        for _ in range(n + 1):
            p = [x + rng.uniform(-step, step) for x in p]
            pts.append(p)
        if _norm(_sub(pts[0], pts[-1])) < 1e-3:
            pts[-1] = _add(pts[-1], [step, 0.0, 0.0])
        return {"kind": "poly", "edge": rng.choice(["spline", "polyLine"]), "points": pts}

    def _curve_case(self, rng: random.Random) -> dict:
        which = rng.choice(["discrete", "linear", "linear_inner", "linear_inner", "circle", "line"])
        if which == "linear_inner":
            # unevenly spaced interpolation points (steps over two decades), end vertices inside the curve
            d = _unit([rng.gauss(0, 1) for _ in range(3)])
            p = [rng.uniform(-5, 5) for _ in range(3)]
            pts = [p]
            for _ in range(rng.randint(3, 7)):
                step = 10 ** rng.uniform(-1, 1)
                p = _add(_add(p, _mul(step, d)), [rng.uniform(-0.4, 0.4) * step for _ in range(3)])
                pts.append(p)
            t1, t2 = rng.uniform(0.03, 0.45), rng.uniform(0.55, 0.97)
            return {"kind": "curve", "curve": "linear_inner", "points": pts, "t": [t1, t2] if rng.random() < 0.7 else [t2, t1]}
        if which in ("discrete", "linear"):
            c = self._poly_case(rng)
            pts = c["points"]
            # strictly advancing polyline so that closest-point queries at its ends are unambiguous
            d = _unit([rng.gauss(0, 1) for _ in range(3)])
            pts = [_add(p, _mul(3.0 * i, d)) for i, p in enumerate(pts)]
            return {"kind": "curve", "curve": which, "points": pts}
        if which == "circle":
            e1, e2, n = _frame(rng)
            R = 10 ** rng.uniform(-1, 1)
            C = [rng.uniform(-5, 5) for _ in range(3)]
            t1 = rng.uniform(0.3, 2.5)
            t2 = t1 + rng.uniform(0.3, 3.0)
            return {"kind": "curve", "curve": "circle", "origin": C, "rim": _add(C, _mul(R, e1)), "normal": n, "t": [t1, t2]}
        p, q = [rng.uniform(-5, 5) for _ in range(3)], [rng.uniform(-5, 5) for _ in range(3)]
        return {"kind": "curve", "curve": "line", "points": [p, q], "t": sorted([rng.uniform(0, 0.45), rng.uniform(0.55, 1)])}

    def _tf_ops(self, rng: random.Random) -> list:
        """a short sequence of placements with explicit origins"""
        ops = []
        for _ in range(rng.randint(1, 3)):
            name = rng.choice(["translate", "rotate", "scale", "scale", "mirror"])
            if name == "translate":
                ops.append(["translate", [rng.uniform(-10, 10) for _ in range(3)]])
            elif name == "rotate":
                ops.append(["rotate", rng.uniform(-3, 3), _unit([rng.gauss(0, 1) + 0.01 for _ in range(3)]), [rng.uniform(-2, 2) for _ in range(3)]])
            elif name == "scale":
                ops.append(["scale", rng.choice([0.2, 0.5, 2.5, 4.0, rng.uniform(1.5, 6)]), [rng.uniform(-2, 2) for _ in range(3)]])
            else:
                ops.append(["mirror", _unit([rng.gauss(0, 1) + 0.01 for _ in range(3)]), [rng.uniform(-2, 2) for _ in range(3)]])
        return ops

    def _curve_tf_case(self, rng: random.Random) -> dict:
        """an OnCurve edge over a whole point curve that was put in place by method calls or by a transformation list"""
        c = self._poly_case(rng)
        d = _unit([rng.gauss(0, 1) for _ in range(3)])
        pts = [_add(p, _mul(0.4 * i, d)) for i, p in enumerate(c["points"])]
        return {
            "kind": "curve_tf",
            "curve": rng.choice(["linear", "spline", "discrete"]),
            "points": pts,
            "ops": self._tf_ops(rng),
            "mode": rng.choice(["method", "list", "list"]),
        }

    def _mesh_case(self, rng: random.Random, n_lofts: int) -> dict:
        """one or two stacked lofts in general position; origin / angle arcs on (nearly) all 12 edge positions"""
        e1, e2, n = _frame(rng)
        size = 10 ** rng.uniform(-0.5, 0.8)
        off = [rng.uniform(-5, 5) for _ in range(3)]
        base = [(0, 0), (1, 0), (1, 1), (0, 1)]
        levels = []
        for k in range(n_lofts + 1):
            quad = []
            for x, y in base:
                x, y, z = x + rng.uniform(-0.15, 0.15), y + rng.uniform(-0.15, 0.15), 1.1 * k + rng.uniform(-0.15, 0.15)
                quad.append(_add(off, _add(_add(_mul(size * x, e1), _mul(size * y, e2)), _mul(size * z, n))))
            levels.append(quad)

        def spec(p, q):
            r = rng.random()
            if r < 0.1:
                return None
            dp = _sub(q, p)
            ch = _norm(dp)
            while True:
                t = [rng.gauss(0, 1) for _ in range(3)]
                perp = _cross(dp, t)
                if _norm(perp) > 0.3 * ch:
                    perp = _unit(perp)
                    break
            if r < 0.65:
                theta = rng.uniform(0.3, 2.8) if rng.random() < 0.8 else rng.uniform(3.4, 4.5)
                if rng.random() < 0.12 and ch * ch * 2e-4 / 8 >= 1e-6:
                    theta = rng.uniform(max(2e-4, 8e-6 / (ch * ch)), 1.5e-3)  # a flat arc that must still be written
                theta *= rng.choice([1, -1])
                return {"type": "angle", "theta": theta, "axis": _mul(rng.choice([1.0, 0.5, 3.0]), perp)}
            phi = rng.uniform(0.3, 2.8)
            h = ch / 2 / math.tan(phi / 2)
            return {"type": "origin", "origin": _add(_mul(0.5, _add(p, q)), _mul(h, perp))}

        lofts = []
        for k in range(n_lofts):
            b, t = levels[k], levels[k + 1]
            lofts.append(
                {
                    "bottom": b,
                    "top": t,
                    # the bottom face of an upper loft is the top face of the one below: defined there
                    "bottom_edges": [spec(b[i], b[(i + 1) % 4]) if k == 0 else None for i in range(4)],
                    "top_edges": [spec(t[i], t[(i + 1) % 4]) for i in range(4)],
                    "side_edges": [spec(b[i], t[i]) for i in range(4)],
                }
            )
        return {"kind": "mesh", "lofts": lofts}

    def _arc_hist_case(self, rng: random.Random) -> dict:
        """one Origin / Angle edge object; its end vertices are moved (to positions that are valid for the same
        specification) between observations"""
        steps = []
        if rng.random() < 0.5:
            base = self._theta_case(rng)
            a = _unit(base["axis"])
            for _ in range(rng.randint(2, 3)):
                while True:
                    t = [rng.gauss(0, 1) for _ in range(3)]
                    d = _cross(a, t)
                    if _norm(d) > 0.3:
                        break
                chord = 10 ** rng.uniform(-1, 1.3)
                p1 = [rng.uniform(-10, 10) for _ in range(3)]
                steps.append(dict(base, p1=p1, p2=_add(p1, _mul(chord, _unit(d)))))
            return {"kind": "arc_hist", "spec": "theta", "steps": steps}
        base = self._origin_case(rng, False)
        C = base["origin"]
        for _ in range(rng.randint(2, 3)):
            c = self._origin_case(rng, False)
            shift = _sub(C, c["origin"])  # same origin, other end points
            steps.append(dict(base, p1=_add(c["p1"], shift), p2=_add(c["p2"], shift)))
        return {"kind": "arc_hist", "spec": "origin", "steps": steps}

    def _mesh_hist_case(self, rng: random.Random) -> dict:
        """a loft with arcs on its four side edges, assembled; then the top vertices are moved (each to a position that is
        valid for the specification of its side edge) and the edges section is read again"""
        m = self._mesh_case(rng, 1)
        lf = m["lofts"][0]
        lf["bottom_edges"] = [None] * 4
        lf["top_edges"] = [None] * 4
        top2 = []
        for i in range(4):
            b, t = lf["bottom"][i], lf["top"][i]
            dp = _sub(t, b)
            L = _norm(dp)
            c = _unit(dp)
            while True:
                u = [rng.gauss(0, 1) for _ in range(3)]
                perp = _cross(dp, u)
                if _norm(perp) > 0.3 * L:
                    perp = _unit(perp)
                    break
            if rng.random() < 0.5:
                theta = rng.uniform(0.3, 2.8) * rng.choice([1, -1])
                lf["side_edges"][i] = {"type": "angle", "theta": theta, "axis": perp}
                beta = rng.uniform(-0.4, 0.4)
                w = _cross(perp, c)
                top2.append(_add(b, _mul(L * rng.uniform(0.7, 1.4), _add(_mul(math.cos(beta), c), _mul(math.sin(beta), w)))))
            else:
                phi = rng.uniform(0.5, 2.2)
                h = L / 2 / math.tan(phi / 2)
                C = _add(_mul(0.5, _add(b, t)), _mul(h, perp))
                lf["side_edges"][i] = {"type": "origin", "origin": C}
                R = _norm(_sub(b, C))
                u1 = _unit(_sub(b, C))
                tt = _sub(t, C)
                w = _unit(_sub(tt, _mul(_dot(tt, u1), u1)))
                phi2 = phi + rng.uniform(-0.25, 0.25)
                top2.append(_add(C, _add(_mul(R * math.cos(phi2), u1), _mul(R * math.sin(phi2), w))))
        return {"kind": "mesh_hist", "lofts": [lf], "top2": top2}

    def gen_cases(self, rng: random.Random, tier: str) -> List[dict]:
        n = 160 if tier == "quick" else 1600
        cases: List[dict] = []
        for _ in range(n):
            cases.append(self._theta_case(rng))
        for _ in range(n // 2):
            cases.append(self._origin_case(rng, False))
            cases.append(self._origin_case(rng, True))
            cases.append(self._arc3_case(rng, False))
            cases.append(self._poly_case(rng))
        for _ in range(n // 4):
            cases.append(self._curve_case(rng))
            p, q = [rng.uniform(-5, 5) for _ in range(3)], [rng.uniform(-5, 5) for _ in range(3)]
            cases.append({"kind": "simple", "edge": rng.choice(["line", "project"]), "points": [p, q]})
        for _ in range(max(3, n // 20)):
            cases.append(self._arc3_case(rng, True))
        for _ in range(max(8, n // 8)):
            cases.append(self._theta_case(rng, flat=True))
            cases.append(self._origin_case(rng, False, flat=True))
        for _ in range(max(6, n // 16)):
            cases.append(self._theta_case(rng, nearfull=True))
            cases.append(self._arc3_case(rng, False, nearfull=True))
        for _ in range(n // 5):
            cases.append(self._arc_hist_case(rng))
        for _ in range(max(6, n // 16)):
            cases.append(self._mesh_hist_case(rng))
        for _ in range(n // 4):
            cases.append(self._curve_tf_case(rng))
        for i in range(max(10, n // 10)):
            cases.append(self._mesh_case(rng, 1 + i % 2))
        for _ in range(max(10, n // 12)):
            for which in ("theta", "origin", "arc3"):
                cases.append(self._far_case(rng, which))
        # malformed / boundary stream
        for th in [0.0, TWO_PI, -TWO_PI, 7.0, -6.5, TWO_PI + 1e-9]:
            c = self._theta_case(rng)
            c.update(kind="theta_bad", theta=th)
            cases.append(c)
        for k in range(3):
            p = [rng.randint(-4, 4) * 1.0 for _ in range(3)]
            d = [rng.randint(1, 3) * 1.0, rng.randint(-2, 2) * 1.0, rng.randint(-2, 2) * 1.0]
            cases.append({"kind": "arc3_bad", "p1": p, "pb": _add(p, d), "p2": _add(p, _mul(k + 2.0, d))})
        cases.append({"kind": "poly_bad", "points": [[rng.uniform(-1, 1) for _ in range(3)]]})
        return cases

    # ------------------------------------------------------------------ implementation
    def run_impl(self, case: dict) -> Any:
        import numpy as np

        from classy_blocks.construct import edges
        from classy_blocks.items.edges.factory import factory
        from classy_blocks.items.vertex import Vertex
        from classy_blocks.util import functions as f

        warnings.simplefilter("ignore")
        kind = case["kind"]

        def observe(edge) -> dict:
            out = {"valid": bool(edge.is_valid), "length": float(edge.length), "desc": edge.description}
            if hasattr(edge, "third_point"):
                out["third"] = [float(x) for x in edge.third_point.position]
            return out

        def mk(p1, p2, data):
            return factory.create(Vertex(p1, 0), Vertex(p2, 1), data)

        try:
            if kind in ("theta", "theta_bad"):
                return observe(mk(case["p1"], case["p2"], edges.Angle(case["theta"], case["axis"])))
            if kind in ("origin", "origin_adj"):
                return observe(mk(case["p1"], case["p2"], edges.Origin(case["origin"], case["flatness"])))
            if kind in ("arc3", "arc3_beyond"):
                out = observe(mk(case["p1"], case["p2"], edges.Arc(case["pb"])))
                out["direct"] = float(
                    f.arc_length_3point(np.array(case["p1"]), np.array(case["pb"]), np.array(case["p2"]))
                )
                return out
            if kind == "arc3_bad":
                edge = mk(case["p1"], case["p2"], edges.Arc(case["pb"]))
                out = {"valid": bool(edge.is_valid), "length": float(edge.length)}
                try:
                    f.arc_length_3point(np.array(case["p1"]), np.array(case["pb"]), np.array(case["p2"]))
                    out["direct"] = "accepted"
                except ValueError:
                    out["direct"] = "ValueError"
                return out
            if kind == "poly":
                pts = case["points"]
                data = edges.Spline(pts[1:-1]) if case["edge"] == "spline" else edges.PolyLine(pts[1:-1])
                out = observe(mk(pts[0], pts[-1], data))
                out["n_written"] = len(out["desc"].split("(")) - 2
                return out
            if kind == "poly_bad":
                try:
                    return {"length": float(f.polyline_length(np.array(case["points"])))}
                except ValueError:
                    return {"reject": "ValueError"}
            if kind == "simple":
                data = edges.Line() if case["edge"] == "line" else edges.Project("geo")
                pts = case["points"]
                return observe(mk(pts[0], pts[1], data))
            if kind == "arc_hist":
                st0 = case["steps"][0]
                data = edges.Angle(st0["theta"], st0["axis"]) if case["spec"] == "theta" else edges.Origin(st0["origin"], st0["flatness"])
                v1, v2 = Vertex(st0["p1"], 0), Vertex(st0["p2"], 1)
                edge = factory.create(v1, v2, data)
                obs = []
                for k, st in enumerate(case["steps"]):
                    if k > 0:
                        v1.move_to(st["p1"])
                        v2.move_to(st["p2"])
                    obs.append(observe(edge))
                return {"steps": obs}
            if kind == "mesh_hist":
                import classy_blocks as cb

                def data(sp):
                    return edges.Angle(sp["theta"], sp["axis"]) if sp["type"] == "angle" else edges.Origin(sp["origin"])

                lf = case["lofts"][0]
                loft = cb.Loft(cb.Face(lf["bottom"]), cb.Face(lf["top"]))
                for i, sp in enumerate(lf["side_edges"]):
                    loft.add_side_edge(i, data(sp))
                mesh = cb.Mesh()
                mesh.add(loft)
                mesh.assemble()

                def snap():
                    return {
                        "vertices": [[float(x) for x in v.position] for v in mesh.vertex_list.vertices],
                        "indexes": [int(v.index) for v in mesh.vertex_list.vertices],
                        "text": mesh.edge_list.description,
                        "edges": [
                            [int(e.vertex_1.index), int(e.vertex_2.index), e.kind, float(e.length)] for e in mesh.edge_list.edges
                        ],
                    }

                first = snap()
                for t, t2 in zip(lf["top"], case["top2"]):
                    for v in mesh.vertex_list.vertices:
                        if max(abs(float(a) - b) for a, b in zip(v.position, t)) < 1e-12:
                            v.move_to(t2)
                return {"steps": [first, snap()]}
            if kind == "curve_tf":
                import classy_blocks as cb

                cls = {"linear": cb.LinearInterpolatedCurve, "spline": cb.SplineInterpolatedCurve, "discrete": cb.DiscreteCurve}
                curve = cls[case["curve"]](case["points"])
                if case["mode"] == "method":
                    for op in case["ops"]:
                        if op[0] == "translate":
                            curve.translate(op[1])
                        elif op[0] == "rotate":
                            curve.rotate(op[1], op[2], op[3])
                        elif op[0] == "scale":
                            curve.scale(op[1], op[2])
                        else:
                            curve.mirror(op[1], op[2])
                else:
                    tfs = []
                    for op in case["ops"]:
                        if op[0] == "translate":
                            tfs.append(cb.Translation(op[1]))
                        elif op[0] == "rotate":
                            tfs.append(cb.Rotation(op[2], op[1], op[3]))
                        elif op[0] == "scale":
                            tfs.append(cb.Scaling(op[1], op[2]))
                        else:
                            tfs.append(cb.Mirror(op[1], op[2]))
                    curve.transform(tfs)
                moved = [[float(x) for x in p] for p in curve.array.points]
                edge = mk(moved[0], moved[-1], edges.OnCurve(curve, n_points=8))
                out = observe(edge)
                out["moved"] = moved
                out["pts"] = [[float(x) for x in p] for p in edge.point_array]
                return out
            if kind == "mesh":
                import classy_blocks as cb

                def data(sp):
                    if sp is None:
                        return None
                    if sp["type"] == "angle":
                        return edges.Angle(sp["theta"], sp["axis"])
                    return edges.Origin(sp["origin"])

                mesh = cb.Mesh()
                for lf in case["lofts"]:
                    loft = cb.Loft(
                        cb.Face(lf["bottom"], [data(x) for x in lf["bottom_edges"]]),
                        cb.Face(lf["top"], [data(x) for x in lf["top_edges"]]),
                    )
                    for i, sp in enumerate(lf["side_edges"]):
                        if sp is not None:
                            loft.add_side_edge(i, data(sp))
                    mesh.add(loft)
                mesh.assemble()
                return {
                    "vertices": [[float(x) for x in v.position] for v in mesh.vertex_list.vertices],
                    "indexes": [int(v.index) for v in mesh.vertex_list.vertices],
                    "text": mesh.edge_list.description,
                    "edges": [
                        [int(e.vertex_1.index), int(e.vertex_2.index), e.kind, float(e.length)] for e in mesh.edge_list.edges
                    ],
                }
            if kind == "curve":
                import classy_blocks as cb

                which = case["curve"]
                if which == "discrete":
                    curve = cb.DiscreteCurve(case["points"])
                    ends = (case["points"][0], case["points"][-1])
                elif which == "linear":
                    curve = cb.LinearInterpolatedCurve(case["points"])
                    ends = (case["points"][0], case["points"][-1])
                elif which == "linear_inner":
                    curve = cb.LinearInterpolatedCurve(case["points"])
                    ends = tuple(curve.get_point(t) for t in case["t"])
                elif which == "circle":
                    curve = cb.CircleCurve(case["origin"], case["rim"], case["normal"])
                    ends = tuple(curve.get_point(t) for t in case["t"])
                else:
                    curve = cb.LineCurve(case["points"][0], case["points"][1])
                    ends = tuple(curve.get_point(t) for t in case["t"])
                edge = mk(ends[0], ends[1], edges.OnCurve(curve))
                out = observe(edge)
                out["ends"] = [[float(x) for x in e] for e in ends]
                out["pts"] = [[float(x) for x in p] for p in edge.point_array]
                return out
        except ValueError as e:
            return {"reject": "ValueError", "msg": str(e)[:80]}
        raise AssertionError("unknown kind " + kind)

    # ------------------------------------------------------------------ model
    @staticmethod
    def _hist_steps(case: dict, impl: Any):
        """(sub-case, sub-observation) of every step of a history case"""
        if case["kind"] == "arc_hist":
            return list(zip(case["steps"], impl["steps"]))
        lf = case["lofts"][0]
        moved = dict(lf, top=case["top2"])
        return [({"kind": "mesh", "lofts": [lf]}, impl["steps"][0]), ({"kind": "mesh", "lofts": [moved]}, impl["steps"][1])]

    def requests(self, case: dict, impl: Any) -> List[str]:
        kind = case["kind"]
        if kind in ("arc_hist", "mesh_hist"):
            return [r for sub, obs in self._hist_steps(case, impl) for r in self.requests(sub, obs)]
        eps = core.rat(EPS_WIT)
        if kind in ("theta", "theta_bad"):
            th = case["theta"]
            if kind == "theta":
                c, s = _half_angle(th)
            else:
                c, s = Fraction(1), Fraction(0)
            reqs = [
                f"c08.theta {core.rat(th)} {_vec(case['p1'])} {_vec(case['p2'])} {_vec(case['axis'])} "
                f"{core.rat(c)} {core.rat(s)} {eps}"
            ]
            if kind == "theta" and "third" in impl:
                p1, p2 = _fvec(case["p1"]), _fvec(case["p2"])
                au = _fvec(_unit(case["axis"]))
                dp = [b - a for a, b in zip(p1, p2)]
                k = [dp[1] * au[2] - dp[2] * au[1], dp[2] * au[0] - dp[0] * au[2], dp[0] * au[1] - dp[1] * au[0]]
                q = c / (2 * s)
                cstar = [(a + b) / 2 - q * kk for a, b, kk in zip(p1, p2, k)]
                g = [s * kk for kk in k]
                fv = lambda v: ",".join(core.rat(x) for x in v)
                reqs.append(
                    f"c08.vmid {fv(p1)} {fv(p2)} {fv(cstar)} {fv(au)} {fv(g)} {_vec(impl['third'])} {core.rat(EPS_VALID + Fraction(64 * EPS_DOUBLE * case.get("far", 0.0)))}"
                )
                # ArcEdgeBase.is_valid of the model for the implementation's third point
                reqs.append(f"c08.valid {_vec(case['p1'])} {_vec(case['p2'])} {_vec(impl['third'])}")
                # radius x sector angle from the model's centre (round 6; T_C08_specs_real)
                reqs.append(
                    f"c08.thetalen {core.rat(th)} {_vec(case['p1'])} {_vec(case['p2'])} {_vec(case['axis'])} "
                    f"{core.rat(c)} {core.rat(s)} {eps}"
                )
                # ArcEdgeBase.length (valid -> three-point arc length, else chord) for the implementation's third point (round 6d)
                reqs.append(f"c08.elen {_vec(case['p1'])} {_vec(case['p2'])} {_vec(impl['third'])}")
            return reqs
        if kind in ("origin", "origin_adj"):
            reqs = [
                f"c08.origin {_vec(case['p1'])} {_vec(case['p2'])} {_vec(case['origin'])} "
                f"{core.rat(case['flatness'])} {eps}"
            ]
            if kind == "origin" and "third" in impl:
                p1, p2, C = _fvec(case["p1"]), _fvec(case["p2"]), _fvec(case["origin"])
                r1, r3 = [a - b for a, b in zip(p1, C)], [a - b for a, b in zip(p2, C)]
                nrm = [r1[1] * r3[2] - r1[2] * r3[1], r1[2] * r3[0] - r1[0] * r3[2], r1[0] * r3[1] - r1[1] * r3[0]]
                g = [(a + b) / 2 - cc for a, b, cc in zip(p1, p2, C)]
                fv = lambda v: ",".join(core.rat(x) for x in v)
                reqs.append(
                    f"c08.vmid {fv(p1)} {fv(p2)} {fv(C)} {fv(nrm)} {fv(g)} {_vec(impl['third'])} {core.rat(EPS_VALID + Fraction(64 * EPS_DOUBLE * case.get("far", 0.0)))}"
                )
                reqs.append(f"c08.valid {_vec(case['p1'])} {_vec(case['p2'])} {_vec(impl['third'])}")
                reqs.append(f"c08.elen {_vec(case['p1'])} {_vec(case['p2'])} {_vec(impl['third'])}")
            return reqs
        if kind in ("arc3", "arc3_beyond", "arc3_bad"):
            reqs = [f"c08.arc3 {_vec(case['p1'])} {_vec(case['pb'])} {_vec(case['p2'])}"]
            if kind != "arc3_bad" and isinstance(impl.get("direct"), float) and math.isfinite(impl["direct"]):
                # the acos step with a witness (round 6): (cos, sin) of length/radius as an exact rational point of the unit
                # circle; the model checks it against its exact centre, radius vectors and side decision
                _, R, _ = arc_through(case["p1"], case["pb"], case["p2"])
                u = Fraction(math.tan(impl["direct"] / R / 2))
                cth, sth = (1 - u * u) / (1 + u * u), 2 * u / (1 + u * u)
                reqs.append(
                    f"c08.varc3 {_vec(case['p1'])} {_vec(case['pb'])} {_vec(case['p2'])} {core.rat(cth)} {core.rat(sth)} "
                    f"{core.rat(EPS_ANGLE)}"
                )
            if isinstance(impl.get("length"), float):
                reqs.append(f"c08.elen {_vec(case['p1'])} {_vec(case['p2'])} {_vec(case['pb'])}")
            return reqs
        if kind in ("poly", "poly_bad"):
            return ["c08.poly " + ";".join(_vec(p) for p in case["points"]) + " " + eps]
        if kind == "curve" and "pts" in impl:
            pts = [impl["ends"][0], *impl["pts"], impl["ends"][1]]
            return ["c08.poly " + ";".join(_vec(p) for p in pts) + " " + eps]
        if kind == "simple":
            return ["c08.poly " + ";".join(_vec(p) for p in case["points"]) + " " + eps]
        if kind == "curve_tf" and case["curve"] != "spline" and "moved" in impl:
            return ["c08.poly " + ";".join(_vec(p) for p in impl["moved"]) + " " + eps]
        if kind == "mesh":
            reqs = []
            for p, q, sp in self._mesh_specs(case):
                if sp["type"] == "angle":
                    c, s = _half_angle(sp["theta"])
                    reqs.append(
                        f"c08.theta {core.rat(sp['theta'])} {_vec(p)} {_vec(q)} {_vec(sp['axis'])} {core.rat(c)} {core.rat(s)} {eps}"
                    )
                else:
                    reqs.append(f"c08.origin {_vec(p)} {_vec(q)} {_vec(sp['origin'])} 1/1 {eps}")
            return reqs
        return []

    @staticmethod
    def _mesh_specs(case: dict):
        """(start point, end point, specification) of every curved edge, in the direction the user gave it"""
        out = []
        for lf in case["lofts"]:
            b, t = lf["bottom"], lf["top"]
            for i in range(4):
                for pts, sp in ((b, lf["bottom_edges"][i]), (t, lf["top_edges"][i])):
                    if sp is not None:
                        out.append((pts[i], pts[(i + 1) % 4], sp))
                if lf["side_edges"][i] is not None:
                    out.append((b[i], t[i], lf["side_edges"][i]))
        return out

    @staticmethod
    def _written_arcs(impl: dict):
        """the `arc a b (x y z)` entries of the edges section -> [(a, b, point)]"""
        import re

        arcs = []
        for m in re.finditer(r"^\s*arc\s+(\d+)\s+(\d+)\s+\(([^)]*)\)", impl["text"], flags=re.M):
            arcs.append((int(m.group(1)), int(m.group(2)), [float(x) for x in m.group(3).split()]))
        return arcs

    @staticmethod
    def _find_arc(impl: dict, arcs, p, q):
        """the written arc between the vertices at positions p and q (either order)"""
        pos = dict(zip(impl["indexes"], impl["vertices"]))
        found = []
        for a, b, m in arcs:
            if a in pos and b in pos:
                for x, y in ((a, b), (b, a)):
                    if max(abs(u - v) for u, v in zip(pos[x], p)) < 1e-9 and max(abs(u - v) for u, v in zip(pos[y], q)) < 1e-9:
                        found.append((a, b, m))
        return found

    @staticmethod
    def _cmp_elen(ans: str, impl: dict) -> Optional[str]:
        """ArcEdgeBase.length / is_valid of the model (c08.elen) against the implementation"""
        a = ans.split()
        if a[0] != "ok":
            return f"ArcEdgeBase.length: implementation {impl['length']}, model answers {ans[:60]}"
        if (a[1] == "1") != bool(impl["valid"]):
            return f"ArcEdgeBase.is_valid: implementation {impl['valid']}, model {a[1]}"
        ml = _bits(a[2])
        if not abs(ml - impl["length"]) <= TOL_LEN * max(1.0, ml):
            which = "three-point arc" if a[1] == "1" else "chord (dropped arc)"
            return f"ArcEdgeBase.length: implementation {impl['length']}, model {ml} ({which})"
        return None

    def compare(self, case: dict, impl: Any, model: List[str]) -> Optional[str]:
        kind = case["kind"]
        if kind in ("arc_hist", "mesh_hist"):
            pos = 0
            for k, (sub, obs) in enumerate(self._hist_steps(case, impl)):
                n = len(self.requests(sub, obs))
                why = self.compare(sub, obs, model[pos : pos + n]) if n else None
                pos += n
                if why:
                    return f"step {k}" + (" (after moving the end vertices)" if k else "") + ": " + why
            return None
        ans = model[0].split()
        if ans[0].startswith("bad"):
            return f"model answers {model[0]}"
        if kind in ("theta", "theta_bad", "origin", "origin_adj"):
            if "reject" in impl:
                return None if ans[0] in ("reject", "nan") else f"implementation rejects, model answers {model[0][:80]}"
            if ans[0] == "reject":
                return f"model rejects, implementation returns {impl['third']}"
            if ans[0] == "nan":
                return None if any(math.isnan(x) for x in impl["third"]) else "model: nan, implementation returns a point"
            m = _parse_vec(ans[-1])
            sc = _scale(case["p1"], case["p2"], m)
            d = max(abs(a - b) for a, b in zip(m, impl["third"]))
            if not d <= TOL_POINT * sc * 10:
                return f"written point: implementation {impl['third']}, model {m} (diff {d:.3g})"
            if len(model) > 1 and model[1] != "ok":
                return f"validator on the implementation's point: {model[1]}"
            if len(model) > 2 and model[2] in ("0", "1") and (model[2] == "1") != bool(impl["valid"]):
                return f"ArcEdgeBase.is_valid: implementation {impl['valid']}, model {model[2]} (collinearity measure chord x rise vs TOL)"
            if len(model) > 3 and kind == "theta" and impl.get("valid"):
                a3 = model[3].split()
                if a3[0] != "ok":
                    return f"model answers {model[3]} for the arc length"
                ml = float(core.parse_rat(a3[1]))
                if not abs(ml - impl["length"]) <= TOL_LEN * max(1.0, ml):
                    return f"AngleEdge.length: implementation {impl['length']}, model radius x angle {ml}"
            if model[-1].startswith("ok ") and len(model[-1].split()) == 3 and len(model) in (4, 5) and "valid" in impl:
                return self._cmp_elen(model[-1], impl)
            return None
        if kind in ("arc3", "arc3_beyond"):
            if ans[0] != "ok":
                return f"model answers {model[0]}"
            ml = _bits(ans[4])
            if not abs(ml - impl["direct"]) <= TOL_LEN * max(1.0, ml):
                return f"arc_length_3point: implementation {impl['direct']}, model {ml}"
            if impl["valid"] and not abs(ml - impl["length"]) <= TOL_LEN * max(1.0, ml):
                return f"ArcEdge.length: implementation {impl['length']}, model {ml}"
            if len(model) > 1 and model[1] != "ok":
                return (
                    f"arc_length_3point: length/radius = {impl['direct']} / R is not the included angle on the side the "
                    f"code decided (validator: {model[1]})"
                )
            if len(model) > 2:
                return self._cmp_elen(model[-1], impl)
            return None
        if kind == "arc3_bad":
            want = "reject" if impl["direct"] == "ValueError" else "ok"
            if ans[0] != want:
                return f"arc_length_3point guard: implementation {impl['direct']}, model {ans[0]}"
            if len(model) > 1:
                return self._cmp_elen(model[-1], impl)
            return None
        if kind == "poly_bad":
            if ("reject" in impl) != (ans[0] == "reject"):
                return f"polyline_length guard: implementation {impl}, model {ans[0]}"
            return None
        if kind == "mesh":
            arcs = self._written_arcs(impl)
            for (p, q, sp), m in zip(self._mesh_specs(case), model):
                a = m.split()
                if a[0] != "ok":
                    return f"model answers {m[:80]} for {sp}"
                mm = _parse_vec(a[-1])
                found = self._find_arc(impl, arcs, p, q)
                if len(found) != 1:
                    return f"{len(found)} arc entries written between {p} and {q}"
                sc = _scale(p, q, mm)
                if not max(abs(x - y) for x, y in zip(mm, found[0][2])) <= 2e-8 + TOL_POINT * sc * 10:
                    return f"written arc {found[0][0]} {found[0][1]}: point {found[0][2]}, model {mm} ({sp['type']})"
            return None
        if kind == "curve_tf":
            if ans[0] != "ok":
                return f"model answers {model[0]}"
            ml = float(core.parse_rat(ans[1]))
            if not abs(ml - impl["length"]) <= 1e-6 * max(1.0, ml):
                return f"curve edge over the transformed curve: implementation {impl['length']}, model polyline {ml}"
            return None
        if kind in ("poly", "curve", "simple"):
            if ans[0] != "ok":
                return f"model answers {model[0]}"
            ml = float(core.parse_rat(ans[1]))
            if kind == "curve" and case["curve"] in ("circle",):
                return None  # analytic curve: length is a 100-point polyline, compared by C16, not here
            if kind == "curve" and case["curve"] in ("linear", "linear_inner"):
                return None  # break points are not necessarily among the written points (C16)
            # curve edges: the end parameters come out of a numerical minimiser (accuracy about 1e-8)
            tol = 1e-6 if kind == "curve" else 1e-9
            if not abs(ml - impl["length"]) <= tol * max(1.0, ml):
                return f"polyline length: implementation {impl['length']}, model {ml}"
            return None
        return None

    # ------------------------------------------------------------------ oracle (property stated on the implementation)
    def oracle(self, case: dict, impl: Any) -> List[dict]:
        out: List[dict] = []
        kind = case["kind"]
        if kind in ("arc_hist", "mesh_hist"):
            for k, (sub, obs) in enumerate(self._hist_steps(case, impl)):
                for v in self.oracle(sub, obs):
                    if k > 0:
                        v = dict(v, site=v["site"] + ":after-moving-vertices", what=f"step {k}: " + str(v["what"]))
                    out.append(v)
            return out

        def bad(site, what, observed=None, expected=None):
            out.append({"site": site, "what": what, "observed": observed, "expected": expected})

        def check_desc(site, expected_pt, sc):
            lines = [l for l in impl["desc"].split("\n") if not l.strip().startswith("//")]
            ok = len(lines) == 1 and lines[0].startswith("\tarc 0 1 (") and lines[0].rstrip().endswith(")")
            nums = []
            if ok:
                try:
                    nums = [float(x) for x in lines[0].split("(")[1].rstrip(") ").split()]
                except ValueError:
                    ok = False
            if not ok or len(nums) != 3 or max(abs(a - b) for a, b in zip(nums, expected_pt)) > 1e-8 + TOL_POINT * sc * 10:
                bad(site, f"arc line {impl['desc']!r} does not show the middle point", impl["desc"], expected_pt)

        far_tag = ":far-from-origin" if "far" in case else ""
        far_txt = (
            f" (placed {case['far']:.3g} radii from the origin of the coordinate system; tolerance 16*eps*{case['far']:.3g} relative)"
            if "far" in case
            else ""
        )

        def chord_bound(p1, p2, name, rel=1e-9):
            ch = _norm(_sub(p1, p2))
            if not impl["length"] >= ch * (1 - rel):
                bad(f"Edge.length:shorter-than-chord:{name}", f"length {impl['length']} < chord {ch}", impl["length"], ch)

        if kind == "theta":
            if "reject" in impl:
                bad("arc_from_theta:valid-angle-rejected", f"theta={case['theta']}: {impl}")
                return out
            p1, p2, th = case["p1"], case["p2"], case["theta"]
            a = _unit(case["axis"])
            dp = _sub(p2, p1)
            k = _cross(dp, a)
            pm = _mul(0.5, _add(p1, p2))
            exp_m = _add(pm, _mul(math.tan(th / 4) / 2, k))  # sagitta = chord/2 * tan(theta/4), on the side of sign(theta)
            R = _norm(dp) / (2 * abs(math.sin(th / 2)))
            sc = _scale(p1, p2, exp_m)
            d = max(abs(x - y) for x, y in zip(exp_m, impl["third"]))
            if not d <= TOL_POINT * sc * 10:
                big = "major" if abs(th) > math.pi else ("half" if abs(abs(th) - math.pi) < 1e-12 else "minor")
                bad(
                    f"arc_from_theta:middle-point:{big}-arc",
                    f"theta={th}: written point is {d:.3g} away from the middle of the arc",
                    impl["third"],
                    exp_m,
                )
            if not impl["valid"]:
                bad("ArcEdgeBase.is_valid:proper-arc-dropped", f"theta={th}")
            elif not abs(impl["length"] - R * abs(th)) <= _len_tol(case, R * abs(th)):
                bad(
                    "AngleEdge.length" + far_tag,
                    f"theta={th}: length {impl['length']}, radius*angle {R * abs(th)}" + far_txt,
                    impl["length"],
                    R * abs(th),
                )
            check_desc("AngleEdge.description", exp_m, sc)
            # acos of a cosine rounded at 1e-16 carries a relative error of about 1e-16/theta^2 into the length of a flat arc
            chord_bound(p1, p2, "angle", rel=1e-9 + 4e-15 / (th * th) + 16 * EPS_DOUBLE * case.get("far", 0.0))
            return out
        if kind == "theta_bad":
            if "reject" not in impl:
                bad("arc_from_theta:invalid-angle-accepted", f"theta={case['theta']} -> {impl.get('third')}")
            return out
        if kind == "origin":
            if "reject" in impl:
                bad("arc_from_origin:valid-input-rejected", str(impl))
                return out
            p1, p2, C, M = case["p1"], case["p2"], case["origin"], impl["third"]
            r1, r3, w = _sub(p1, C), _sub(p2, C), _sub(M, C)
            R = 0.5 * (_norm(r1) + _norm(r3))
            pm = _mul(0.5, _add(p1, p2))
            sc = _scale(p1, p2, M)
            tol = TOL_POINT * sc * 100
            nrm = _unit(_cross(r1, r3))
            problems = []
            if abs(_norm(w) - R) > tol:
                problems.append(f"not on the circle (|M-C|={_norm(w)}, R={R})")
            if abs(_norm(_sub(M, p1)) - _norm(_sub(M, p2))) > tol:
                problems.append("not half-way between the end points")
            if abs(_dot(w, nrm)) > tol:
                problems.append("not in the plane of the arc")
            if not _dot(w, _sub(pm, C)) > 0:
                problems.append("on the far side of the centre")
            if problems:
                bad("arc_from_origin:middle-point", "; ".join(problems), M)
            ang = math.atan2(_norm(_cross(r1, r3)), _dot(r1, r3))
            if not impl["valid"]:
                bad("ArcEdgeBase.is_valid:proper-arc-dropped", "origin edge")
            elif not abs(impl["length"] - R * ang) <= _len_tol(case, R * ang):
                bad("OriginEdge.length" + far_tag, f"length {impl['length']}, radius*angle {R * ang}" + far_txt, impl["length"], R * ang)
            check_desc("OriginEdge.description", M, sc)
            chord_bound(p1, p2, "origin", rel=1e-9 + 4e-15 / (ang * ang) + 16 * EPS_DOUBLE * case.get("far", 0.0))
            return out
        if kind == "origin_adj":
            if "reject" in impl or any(math.isnan(x) for x in impl.get("third", [0.0])):
                return out  # outside the property's statement (flatness 1, equidistant origin)
            p1, p2, C, M = case["p1"], case["p2"], case["origin"], impl["third"]
            r1, r3 = _sub(p1, C), _sub(p2, C)
            ch = _norm(_sub(p2, p1))
            radius = 0.5 * (_norm(r1) + _norm(r3))
            if case["flatness"] != 1:
                radius = max(radius * case["flatness"], 1.001 * 0.5 * ch)
            pm = _mul(0.5, _add(p1, p2))
            sc = _scale(p1, p2, M)
            tol = 1e-7 * sc
            sag = radius - math.sqrt(max(radius * radius - ch * ch / 4, 0.0))
            problems = []
            if abs(_norm(_sub(M, p1)) - _norm(_sub(M, p2))) > tol:
                problems.append("not half-way between the end points")
            if abs(_dot(_sub(M, pm), _unit(_cross(r1, r3)))) > tol:
                problems.append("not in the plane of the arc")
            if abs(_norm(_sub(M, pm)) - sag) > tol:
                problems.append(f"sagitta {_norm(_sub(M, pm))} instead of {sag} (radius {radius})")
            if not _dot(_sub(M, pm), _sub(pm, C)) > 0:
                problems.append("bulges towards the origin")
            if problems:
                bad("arc_from_origin:adjusted-centre", "; ".join(problems), M)
            chord_bound(p1, p2, "origin")
            return out
        if kind in ("arc3", "arc3_beyond"):
            c, R, swept = arc_through(case["p1"], case["pb"], case["p2"])
            exp = R * swept
            site = (
                "arc_length_3point:third-point-between-end-and-antipode"
                if kind == "arc3_beyond"
                else "arc_length_3point:length"
            )
            if not abs(impl["direct"] - exp) <= _len_tol(case, exp):
                bad(site + far_tag, f"length {impl['direct']}, arc through the three points {exp}" + far_txt, impl["direct"], exp)
            elif impl["valid"] and not abs(impl["length"] - exp) <= _len_tol(case, exp):
                bad("ArcEdge.length" + far_tag, f"length {impl['length']}, arc through the three points {exp}" + far_txt, impl["length"], exp)
            if kind == "arc3":
                check_desc("ArcEdge.description", case["pb"], _scale(case["pb"]))
                area2 = _norm(_cross(_sub(case["p1"], case["pb"]), _sub(case["p2"], case["pb"])))
                if not impl["valid"] and area2 >= 1e-6 and _norm(_sub(case["p1"], case["p2"])) >= 1e-4:
                    bad("ArcEdgeBase.is_valid:proper-arc-dropped", f"three-point arc, end points {_norm(_sub(case['p1'], case['p2'])):.3g} apart")
            chord_bound(case["p1"], case["p2"], "arc", rel=1e-9 + 16 * EPS_DOUBLE * case.get("far", 0.0))
            return out
        if kind == "arc3_bad":
            if impl["direct"] != "ValueError":
                bad("arc_length_3point:collinear-points-accepted", str(case))
            if impl["valid"]:
                bad("ArcEdgeBase.is_valid:collinear-arc-kept", str(case))
            return out
        if kind == "poly_bad":
            if "reject" not in impl:
                bad("polyline_length:single-point-accepted", str(impl))
            return out
        if kind in ("poly", "simple"):
            pts = case["points"]
            exp = sum(_norm(_sub(a, b)) for a, b in zip(pts[:-1], pts[1:]))
            name = case["edge"]
            if not abs(impl["length"] - exp) <= 1e-9 * max(1.0, exp):
                bad(f"Edge.length:{name}", f"length {impl['length']}, polyline {exp}", impl["length"], exp)
            chord_bound(pts[0], pts[-1], name)
            return out
        if kind == "curve_tf":
            if "reject" in impl:
                bad("OnCurveEdge:valid-input-rejected", str(impl))
                return out
            moved = impl["moved"]
            how = "method" if case["mode"] == "method" else "transform-list"
            chord_bound(moved[0], moved[-1], f"curve-{case['curve']}:placed-by-{how}", rel=1e-6)
            exp = sum(_norm(_sub(a, b)) for a, b in zip(moved[:-1], moved[1:]))
            if not abs(impl["length"] - exp) <= 1e-6 * max(1.0, exp):
                bad(
                    f"OnCurveEdge.length:curve-{case['curve']}:placed-by-{how}",
                    f"length {impl['length']}, polyline through the placed curve points {exp}",
                    impl["length"],
                    exp,
                )
            if case["curve"] != "spline":
                # every written point lies on the placed polyline
                sc = _scale(*moved)

                def seg_dist(x, a, b):
                    ab, ax = _sub(b, a), _sub(x, a)
                    t = max(0.0, min(1.0, _dot(ax, ab) / max(_dot(ab, ab), 1e-300)))
                    return _norm(_sub(x, _add(a, _mul(t, ab))))

                for x in impl["pts"]:
                    dmin = min(seg_dist(x, a, b) for a, b in zip(moved[:-1], moved[1:]))
                    if not dmin <= 1e-6 * sc:
                        bad(
                            f"OnCurveEdge.point_array:curve-{case['curve']}:placed-by-{how}",
                            f"written point {x} is {dmin:.3g} away from the placed curve",
                        )
                        break
            return out
        if kind == "mesh":
            arcs = self._written_arcs(impl)
            pos = dict(zip(impl["indexes"], impl["vertices"]))
            n_spec = 0
            for p, q, sp in self._mesh_specs(case):
                n_spec += 1
                dp = _sub(q, p)
                pm = _mul(0.5, _add(p, q))
                if sp["type"] == "angle":
                    a = _unit(sp["axis"])
                    th = sp["theta"]
                    exp_m = _add(pm, _mul(math.tan(th / 4) / 2, _cross(dp, a)))
                    R = _norm(dp) / (2 * abs(math.sin(th / 2)))
                    centre = _sub(pm, _mul(1 / math.tan(th / 2) / 2, _cross(dp, a)))
                    ang = abs(th)
                else:
                    centre = sp["origin"]
                    r1, r3 = _sub(p, centre), _sub(q, centre)
                    R = 0.5 * (_norm(r1) + _norm(r3))
                    exp_m = _add(centre, _mul(R, _unit(_sub(pm, centre))))
                    ang = math.atan2(_norm(_cross(r1, r3)), _dot(r1, r3))
                found = self._find_arc(impl, arcs, p, q)
                site = f"Mesh.edges:{sp['type']}-arc"
                if len(found) != 1:
                    bad(site + ":entry-count", f"{len(found)} arc entries written between {p} and {q}", impl["text"])
                    continue
                a_, b_, m = found[0]
                sc = _scale(p, q, exp_m)
                tol = 2e-8 + TOL_POINT * sc * 10
                problems = []
                if not abs(_norm(_sub(m, centre)) - R) <= tol:
                    problems.append(f"{_norm(_sub(m, centre)):.6g} from the centre, radius {R:.6g}")
                if not abs(_norm(_sub(m, p)) - _norm(_sub(m, q))) <= tol:
                    problems.append("not half-way between the end points")
                if not max(abs(x - y) for x, y in zip(m, exp_m)) <= tol:
                    problems.append("not the middle of the specified arc (wrong side?)")
                if problems:
                    bad(site + ":written-point", f"arc {a_} {b_} ({m}): " + "; ".join(problems), m, exp_m)
                lens = [e[3] for e in impl["edges"] if {e[0], e[1]} == {a_, b_}]
                if len(lens) != 1 or not abs(lens[0] - R * ang) <= TOL_LEN * max(1.0, R * ang):
                    bad(site + ":length", f"edge {a_} {b_}: length {lens}, radius*angle {R * ang}", lens, R * ang)
                elif not lens[0] >= _norm(dp) * (1 - 1e-9 - 4e-15 / (ang * ang)):
                    bad(f"Edge.length:shorter-than-chord:mesh-{sp['type']}", f"length {lens[0]} < chord {_norm(dp)}")
            if len(arcs) != n_spec:
                bad("Mesh.edges:arc-entries", f"{len(arcs)} arc entries written for {n_spec} specified arcs", impl["text"])
            return out
        if kind == "curve":
            if "reject" in impl:
                bad("OnCurveEdge:valid-input-rejected", str(impl))
                return out
            # the end parameters of a curve edge come out of scipy's minimiser (accuracy about 1e-8 in the parameter)
            chord_bound(impl["ends"][0], impl["ends"][1], "curve-" + case["curve"], rel=1e-6)
            if case["curve"] == "linear_inner":
                # chord-length parameters: the piece between two parameters is |t2 - t1| of the whole polyline
                pts = case["points"]
                total = sum(_norm(_sub(a, b)) for a, b in zip(pts[:-1], pts[1:]))
                exp = abs(case["t"][1] - case["t"][0]) * total
                if not abs(impl["length"] - exp) <= 1e-6 * max(1.0, exp):
                    bad(
                        "OnCurveEdge.length:curve-linear:inner-vertices",
                        f"length {impl['length']}, polyline between the two vertices {exp}",
                        impl["length"],
                        exp,
                    )
                # the written points run from vertex 1 to vertex 2 along the polyline: the chain is as long as the edge
                chain = [impl["ends"][0], *impl["pts"], impl["ends"][1]]
                got = sum(_norm(_sub(a, b)) for a, b in zip(chain[:-1], chain[1:]))
                if not got <= exp * (1 + 1e-6) + 1e-9:
                    bad(
                        "OnCurveEdge.point_array:curve-linear:inner-vertices",
                        f"the written points stop short of / run past the end vertex: chain {got}, curve between the vertices {exp}",
                        got,
                        exp,
                    )
            return out
        return out

    def nontrivial_key(self, case, impl):
        return json.dumps(case, sort_keys=True)

    def classify(self, case, impl):
        k = case["kind"]
        if "far" in case:
            return f"{k}:far-from-origin"
        if k == "theta":
            th = case["theta"]
            return f"theta:{'major' if abs(th) > math.pi else 'minor'}:{'+' if th > 0 else '-'}"
        if k in ("poly", "simple"):
            return f"{k}:{case['edge']}"
        if k == "curve":
            return f"curve:{case['curve']}"
        if k == "arc_hist":
            return f"arc_hist:{case['spec']}"
        if isinstance(impl, dict) and "reject" in impl:
            return f"{k}:rejected"
        return k


if __name__ == "__main__":
    sys.exit(core.main(C08()))
