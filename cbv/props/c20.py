"""C20 — construction and life-cycle preconditions are enforced symmetrically.

A *call* is (name, rational arguments, string arguments); the same triple drives
  * the real classy_blocks (`impl_call`: outcome = "accepted" or the exception class),
  * the Lean model through the line protocol (`c20.call name [rats] [strs]` -> guard outcome and `pre`),
  * the oracle (`py_pre`: the documented two-sided precondition, written here once more, independently of
    the Lean model and of the repository's tables).
Two state machines (clamps/links on the optimiser's grid; the assembled flag of `Mesh`) get whole histories.
"""

from __future__ import annotations

import json
import math
import os
import random
import sys
import warnings
from fractions import Fraction as Fr
from typing import Any, Dict, List, Optional, Tuple

from .. import core

for _v in ("OMP_NUM_THREADS", "OPENBLAS_NUM_THREADS", "MKL_NUM_THREADS"):  # the cases are tiny: no BLAS thread pools
    os.environ.setdefault(_v, "1")

TOL = Fr(1, 10**7)  # the documented tolerance, hard-coded (the model reads constants.TOL through the tables)
TWO_PI = Fr(2 * math.pi)  # the float the code compares the sector angle with, exactly
MARGIN = Fr(1, 10**11)  # the oracle abstains closer than this to a tolerance threshold (float vs. exact)

# exception classes the property allows for a rejection (creation errors, value / key / runtime errors and the
# optimiser's own classes); anything else still counts as a rejection but is reported in the evidence
LISTED = {
    "ShapeCreationError", "PointCreationError", "ArrayCreationError", "AnnulusCreationError", "EdgeCreationError",
    "SideCreationError", "FaceCreationError", "CylinderCreationError", "ElbowCreationError", "FrustumCreationError",
    "ExtrudedRingCreationError", "ValueError", "KeyError", "RuntimeError", "ClampExistsError", "NoJunctionError",
    "InvalidLinkError", "CornerPairError",
}  # fmt: skip

# blockMesh's hexahedron: local coordinates of the 8 corners (stated here, not read from the repository)
BM_COORD = {0: (0, 0, 0), 1: (1, 0, 0), 2: (1, 1, 0), 3: (0, 1, 0), 4: (0, 0, 1), 5: (1, 0, 1), 6: (1, 1, 1), 7: (0, 1, 1)}
BM_SIDES = ("bottom", "top", "left", "right", "front", "back")

P4 = [[0.0, 0.0, 0.0], [1.0, 0.0, 0.0], [1.0, 1.0, 0.0], [0.0, 1.0, 0.0]]
HEX = [[0, 0, 0], [1, 0, 0], [1, 1, 0], [0, 1, 0], [0, 0, 1], [1, 0, 1], [1, 1, 1], [0, 1, 1]]


def fr(x: Any) -> Fr:
    return x if isinstance(x, Fr) else Fr(x)


def fl(x: Any) -> float:
    return float(fr(x))


def _outcome(fn) -> str:
    try:
        fn()
    except Exception as e:  # every exception is a rejection; the class is the observation
        return type(e).__name__
    return "accepted"


def _same(outs: Dict[str, str]) -> str:
    """Several entry points share one guard: they must agree, otherwise the disagreement is the observation."""
    vals = set(outs.values())
    if len(vals) == 1:
        return vals.pop()
    return "|".join(f"{k}={v}" for k, v in sorted(outs.items()))


_stack_cache: Dict[Tuple[int, int, int], Any] = {}
_shape_cache: Dict[Any, Any] = {}


def _cached(key, make):
    """source shapes of chain / contract / fill are only read by those calls: build each once per process"""
    if key not in _shape_cache:
        _shape_cache[key] = make()
    return _shape_cache[key]


# ------------------------------------------------------------------------------------------- implementation
def _quiet(fn):
    """runs `fn` with numpy's floating point errors and python warnings silenced, restoring both afterwards"""
    import functools

    @functools.wraps(fn)
    def wrapped(*a, **kw):
        import numpy as np

        with warnings.catch_warnings(), np.errstate(all="ignore"):
            warnings.simplefilter("ignore")
            return fn(*a, **kw)

    return wrapped


def _digest(obj: Any, depth: int = 0) -> Any:
    """a structural digest of an entity, deep enough to see every piece of state the covered mutators write"""
    import numpy as np

    if depth > 6:
        return "..."
    if obj is None or isinstance(obj, (bool, int, float, str)):
        return obj
    if isinstance(obj, np.ndarray):
        return [float(x) for x in obj.ravel()]
    if isinstance(obj, (list, tuple)):
        return [_digest(x, depth + 1) for x in obj]
    if isinstance(obj, (set, frozenset)):
        return sorted(repr(_digest(x, depth + 1)) for x in obj)
    if isinstance(obj, dict):
        return {repr(k): _digest(v, depth + 1) for k, v in obj.items()}
    if hasattr(obj, "__dict__"):
        return [type(obj).__name__, {k: _digest(v, depth + 1) for k, v in sorted(vars(obj).items()) if not k.startswith("__")}]
    return type(obj).__name__


def impl_state_after_reject(name: str, r: List[Fr], s: List[str]) -> Optional[bool]:
    """For the mutators of the catalogue: runs the call on a fresh entity; when it raises, says whether the entity is
    still what it was before the call (None: not a mutator / the call was accepted)."""
    import classy_blocks as cb
    from classy_blocks.grading.chop import Chop
    from classy_blocks.grading.grading import Grading
    from classy_blocks.items.block import Block
    from classy_blocks.items.edges.factory import factory
    from classy_blocks.items.vertex import Vertex
    from classy_blocks.util.frame import Frame

    i = [int(x) if fr(x).denominator == 1 else None for x in r]
    box = lambda: cb.Box([0, 0, 0], [1, 1, 1])
    arc = lambda: cb.Arc([0.5, -0.2, 0.0])
    if name == "faceAddEdge":
        ent = cb.Face(P4)
        fn = lambda: ent.add_edge(i[0], arc())
    elif name == "faceProjectEdge":
        ent = cb.Face(P4)
        fn = lambda: ent.project_edge(i[0], "g")
    elif name == "faceRemoveEdges":
        ent = cb.Face(P4, [arc(), arc(), arc(), arc()])
        fn = lambda: ent.remove_edges(list(i))
    elif name == "opAddSideEdge":
        ent = box()
        fn = lambda: ent.add_side_edge(i[0], cb.Arc([-0.1, -0.1, 0.5]))
    elif name == "opProjectCorner":
        ent = box()
        fn = lambda: ent.project_corner(i[0], "g")
    elif name == "opProjectEdge":
        ent = box()
        fn = lambda: ent.project_edge(i[0], i[1], "g")
    elif name == "opUnchop":
        ent = box()
        ent.chop(0, count=2)
        fn = lambda: ent.unchop(i[0])
    elif name == "opChop":
        ent = box()
        fn = lambda: ent.chop(i[0], count=2)
    elif name == "opSide":
        ent = box()
        fn = lambda: ent.project_side(s[0], "g", True, True)
    elif name == "blockAddEdge":
        ent = Block(0, [Vertex(p, k) for k, p in enumerate(HEX)])
        edge = factory.create(ent.vertices[0], ent.vertices[1], cb.Arc([0.5, 0.1, 0]))
        fn = lambda: ent.add_edge(i[0], i[1], edge)
    elif name == "frameAddBeam":
        ent = Frame()
        fn = lambda: ent.add_beam(i[0], i[1], 1)
    elif name == "projectAddLabel":
        nh, labels = i[0], [f"l{k}" for k in i[1:]]
        ent = cb.Project(list(labels[:nh]))
        fn = lambda: ent.add_label(list(labels[nh:]))
    elif name == "lengthRatio":
        ent = Grading(1.0)
        fn = lambda: ent.add_chop(Chop(count=3, length_ratio=fl(r[0])))
    else:
        return None
    before = _digest(ent)
    if _outcome(fn) == "accepted":
        return None
    return _digest(ent) == before


@_quiet
def impl_call(name: str, r: List[Fr], s: List[str], light: bool = False) -> str:
    """Runs the real classy_blocks; returns "accepted" or the class name of the exception.
    `light`: only the primary entry point of a guard (used for the generated probe table, which must be cheap)."""
    import numpy as np

    import classy_blocks as cb
    from classy_blocks.construct.array import Array
    from classy_blocks.construct.flat.sketches.annulus import Annulus
    from classy_blocks.construct.point import Point
    from classy_blocks.grading.chop import Chop
    from classy_blocks.grading.grading import Grading
    from classy_blocks.items.block import Block
    from classy_blocks.items.edges.factory import factory
    from classy_blocks.items.side import Side
    from classy_blocks.items.vertex import Vertex
    from classy_blocks.util.frame import Frame

    i = [int(x) if fr(x).denominator == 1 else None for x in r]
    f = [fl(x) for x in r]
    box = lambda: cb.Box([0, 0, 0], [1, 1, 1])
    arc = lambda: cb.Arc([0.5, -0.2, 0.0])
    v3 = lambda k: [f[k], f[k + 1], f[k + 2]]

    if name == "faceShape":
        n, m = i
        pts = [[float(a + b * b) for b in range(m)] for a in range(n)]
        return _outcome(lambda: cb.Face(P4 if (n, m) == (4, 3) else pts))
    if name == "faceEdges":
        return _outcome(lambda: cb.Face(P4, [None] * i[0]))
    if name == "faceCoplanar":
        return _outcome(lambda: cb.Face([v3(0), v3(3), v3(6), v3(9)], check_coplanar=True))
    if name == "faceAddEdge":
        return _same(
            {
                "arc": _outcome(lambda: cb.Face(P4).add_edge(i[0], arc())),
                "none": _outcome(lambda: cb.Face(P4, [arc(), arc(), arc(), arc()]).add_edge(i[0], None)),
            }
        )
    if name == "faceProjectEdge":
        return _same(
            {
                "new": _outcome(lambda: cb.Face(P4).project_edge(i[0], "g")),
                "add": _outcome(lambda: cb.Face(P4, [cb.Project("h") for _ in range(4)]).project_edge(i[0], "g")),
            }
        )
    if name == "faceRemoveEdges":
        return _outcome(lambda: cb.Face(P4, [arc(), arc(), arc(), arc()]).remove_edges(list(i)))
    if name == "pointShape":
        return _outcome(lambda: Point(np.zeros(tuple(i)).tolist()))
    if name == "arrayShape":
        n, m = i
        return _outcome(lambda: Array([[float(a + b) for b in range(m)] for a in range(n)]))
    if name == "sideVertices":
        return _outcome(lambda: Side("top", [Vertex([k, 0, 0], k) for k in range(i[0])]))
    if name == "opAddSideEdge":
        return _outcome(lambda: box().add_side_edge(i[0], cb.Arc([-0.1, -0.1, 0.5])))
    if name == "opProjectCorner":
        return _outcome(lambda: box().project_corner(i[0], "g"))
    if name == "opProjectEdge":
        return _outcome(lambda: box().project_edge(i[0], i[1], "g"))
    if name == "opChop":
        return _outcome(lambda: box().chop(i[0], count=2))
    if name == "opUnchop":
        return _outcome(lambda: box().unchop(i[0]))
    if name == "opSide":
        return _same(
            {
                "set_patch": _outcome(lambda: box().set_patch(s[0], "p")),
                "project_side": _outcome(lambda: box().project_side(s[0], "g", True, True)),
            }
        )
    if name == "fromSeries":
        faces = lambda: [cb.Face([[x, y, float(k)] for x, y, _ in P4]) for k in range(i[0])]
        return _outcome(lambda: cb.Loft.from_series(faces()))
    if name == "blockAddEdge":
        blk = Block(0, [Vertex(p, k) for k, p in enumerate(HEX)])
        edge = factory.create(blk.vertices[0], blk.vertices[1], cb.Arc([0.5, 0.1, 0]))
        return _outcome(lambda: blk.add_edge(i[0], i[1], edge))
    if name == "frameAddBeam":
        return _outcome(lambda: Frame().add_beam(i[0], i[1], 1))
    if name == "projectLabels":
        return _outcome(lambda: cb.Project([f"l{k}" for k in range(i[0])]))
    if name == "projectAddLabel":
        nh, labels = i[0], [f"l{k}" for k in i[1:]]
        have, new = labels[:nh], labels[nh:]

        def go(as_str: bool):
            p = cb.Project(list(have))
            if as_str:
                for lab in new:
                    p.add_label(lab)  # one string at a time: the same final label set when everything is accepted
            else:
                p.add_label(list(new))

        if light:
            return _outcome(lambda: go(False))
        return _same({"list": _outcome(lambda: go(False)), "one-by-one": _outcome(lambda: go(True))})
    if name == "lengthRatio":
        return _outcome(lambda: Grading(1.0).add_chop(Chop(count=3, length_ratio=f[0])))
    if name == "annulus":
        c, p, n, rin, nseg = np.array(v3(0)), np.array(v3(3)), np.array(v3(6)), f[9], i[10]
        if light:
            return _outcome(lambda: Annulus(c, p, n, rin, nseg))
        return _same(
            {
                "Annulus": _outcome(lambda: Annulus(c, p, n, rin, nseg)),
                "ExtrudedRing": _outcome(lambda: cb.ExtrudedRing(c, c + n, p, rin, nseg)),
            }
        )
    if name == "cylinder":
        if light:
            return _outcome(lambda: cb.Cylinder(v3(0), v3(3), v3(6)))
        return _same(
            {
                "Cylinder": _outcome(lambda: cb.Cylinder(v3(0), v3(3), v3(6))),
                "SemiCylinder": _outcome(lambda: cb.SemiCylinder(v3(0), v3(3), v3(6))),
            }
        )
    if name == "frustum":
        return _outcome(lambda: cb.Frustum(v3(0), v3(3), v3(6), 0.3))
    if name == "chain":
        kind, length = i[0], f[1]
        outs = {}
        for start in (False,) if light else (False, True):
            if kind == 0:
                src = _cached("cyl", lambda: cb.Cylinder([0, 0, 0], [0, 0, 1], [1, 0, 0]))
                outs[str(start)] = _outcome(lambda: cb.Cylinder.chain(src, length, start))
            elif kind == 1:
                src = _cached("cyl", lambda: cb.Cylinder([0, 0, 0], [0, 0, 1], [1, 0, 0]))
                outs[str(start)] = _outcome(lambda: cb.Frustum.chain(src, length, 0.4, start))
            else:
                src = _cached("ring", lambda: cb.ExtrudedRing([0, 0, 0], [0, 0, 1], [1, 0, 0], 0.5))
                outs[str(start)] = _outcome(lambda: cb.ExtrudedRing.chain(src, length, start))
        return _same(outs)
    if name == "ringContract":
        rnew, rsrc = f
        ring = _cached(("ring", rsrc), lambda: cb.ExtrudedRing([0, 0, 0], [0, 0, 1], [rsrc + 1.0, 0, 0], rsrc))
        return _outcome(lambda: cb.ExtrudedRing.contract(ring, rnew))
    if name == "cylinderFill":
        ring = _cached(("ringn", i[0]), lambda: cb.ExtrudedRing([0, 0, 0], [0, 0, 1], [1, 0, 0], 0.5, i[0]))
        return _outcome(lambda: cb.Cylinder.fill(ring))
    if name == "loftedShape":
        grid = lambda n, z: cb.Grid([0, 0, 0], [float(n), 1, 0], n, 1).translate([0, 0, z])
        n1, n2, mids = i[0], i[1], i[2:]
        mk_mid = lambda: [grid(m, (k + 1) / (len(mids) + 1)) for k, m in enumerate(mids)]
        outs = {"list": _outcome(lambda: cb.LoftedShape(grid(n1, 0), grid(n2, 1), mk_mid() or None))}
        if len(mids) == 1:  # a single middle sketch may be passed without a list
            outs["single"] = _outcome(lambda: cb.LoftedShape(grid(n1, 0), grid(n2, 1), mk_mid()[0]))
        return _same(outs)
    if name == "stackSlice":
        axis, idx, n0, n1, n2 = i
        key = (n0, n1, n2)
        if key not in _stack_cache:
            _stack_cache[key] = cb.ExtrudedStack(cb.Grid([0, 0, 0], [float(n0), float(n1), 0], n0, n1), float(n2), n2)
        stack = _stack_cache[key]
        return _outcome(lambda: stack.get_slice(axis, idx))
    if name == "curveParam":
        from classy_blocks.construct.curves.analytic import LineCurve
        from classy_blocks.construct.curves.discrete import DiscreteCurve

        pp, lo, hi = f
        line = LineCurve([0, 0, 0], [1, 2, 0], bounds=(lo, hi))
        outs = {"get_point": _outcome(lambda: line.get_point(pp))}
        if not light:
            outs["discretize-from"] = _outcome(lambda: line.discretize(pp, hi, 3))
            outs["discretize-to"] = _outcome(lambda: line.discretize(lo, pp, 3))
            if lo == 0 and hi == int(hi) and 1 <= hi <= 6:  # the same bounds on a curve given by hi + 1 points
                disc = DiscreteCurve([[float(k), float(k * k), 0.0] for k in range(int(hi) + 1)])
                outs["discrete"] = _outcome(lambda: disc.get_point(pp))
        return _same(outs)
    if name == "polylineShape":
        from classy_blocks.util import functions as fn

        if not i:
            pts_ = 1.0
        elif all(k > 0 for k in i):
            pts_ = np.ones(tuple(i)).cumsum(axis=0)
        else:
            pts_ = np.ones(tuple(i)).tolist()  # an empty (nested) list, as a caller would pass it
        return _outcome(lambda: fn.polyline_length(pts_))
    if name == "polarArgs":
        from classy_blocks.util import functions as fn

        outs = {"to_cartesian": _outcome(lambda: fn.to_cartesian([1.0, 0.5, 2.0], i[0], s[0]))}
        if i[0] in (-1, 1):  # to_polar has the axis argument only
            outs["to_polar"] = _outcome(lambda: fn.to_polar([1.0, 0.5, 2.0], s[0]))
        return _same(outs)
    if name == "rotationLink":
        from classy_blocks.optimize.links import RotationLink

        leader, origin, axis = v3(0), v3(3), v3(6)
        follower = [leader[0] + 1.0, leader[1] + 2.0, leader[2] - 1.0]
        return _outcome(lambda: RotationLink(leader, follower, axis, origin))
    if name == "elbowChain":
        src = (
            _cached("cyl", lambda: cb.Cylinder([0, 0, 0], [0, 0, 1], [1, 0, 0]))
            if i[0] == 1
            else _cached("ring", lambda: cb.ExtrudedRing([0, 0, 0], [0, 0, 1], [1, 0, 0], 0.5))
        )
        outs = {str(start): _outcome(lambda: cb.Elbow.chain(src, 1.0, [2, 0, 1], [0, 1, 0], 0.8, start)) for start in ((False,) if light else (False, True))}
        return _same(outs)
    if name == "arcTheta":
        from classy_blocks.items.edges.arcs.angle import arc_from_theta

        return _outcome(lambda: arc_from_theta([0.0, 0.0, 0.0], [1.0, 0.5, 0.0], f[0], [0.0, 0.0, 1.0]))
    if name == "edgeVertices":
        from classy_blocks.construct.edges import Line
        from classy_blocks.items.edges.line import LineEdge

        ends = [Vertex([float(k), 0, 0], k) if ok == 1 else Point([float(k), 0, 0]) for k, ok in enumerate(i)]
        outs = {"line": _outcome(lambda: LineEdge(ends[0], ends[1], Line()))}
        if not light:
            outs["factory-arc"] = _outcome(lambda: factory.create(ends[0], ends[1], cb.Arc([0.5, 0.2, 0])))
        return _same(outs)
    raise ValueError("unknown call " + name)


@_quiet
def impl_grid(points: List[List[Fr]], quads: List[List[int]], ops: List[list]) -> dict:
    """Clamp / link / auto_optimize histories on a SketchOptimizer.  After every call: the outcome and, per vertex, which
    call put the clamp it carries (-1: none) — so a clamp that is replaced shows up even when nothing is raised."""
    import contextlib
    import io

    import classy_blocks as cb
    from classy_blocks.construct.flat.sketches.mapped import MappedSketch
    from classy_blocks.optimize.optimizer import SketchOptimizer

    sketch = MappedSketch([[fl(c) for c in p] for p in points], [list(q) for q in quads])
    optimizer = SketchOptimizer(sketch, report=False)
    grid = optimizer.grid
    owner: Dict[int, int] = {}  # id(clamp object) -> step that first saw it
    outs, holders = [], []
    for k, op in enumerate(ops):
        if op[0] == "clamp":
            pos = [fl(c) for c in op[1]]
            outs.append(_outcome(lambda: optimizer.add_clamp(cb.FreeClamp(pos))))
        elif op[0] == "link":
            lead, foll = [fl(c) for c in op[1]], [fl(c) for c in op[2]]
            outs.append(_outcome(lambda: optimizer.add_link(cb.TranslationLink(lead, foll))))
        else:  # the clamping of auto_optimize; zero iterations: the optimisation itself is not C20's subject
            with contextlib.redirect_stdout(io.StringIO()):
                outs.append(_outcome(lambda: optimizer.auto_optimize(max_iterations=0)))
        row = []
        for j in grid.junctions:
            if j.clamp is None:
                row.append(-1)
            else:
                row.append(owner.setdefault(id(j.clamp), k))
        holders.append(row)
        _keep.append([j.clamp for j in grid.junctions])  # keep the objects alive: ids must stay unique
    del _keep[:]
    return {"outs": outs, "holders": holders}


_keep: List[Any] = []


@_quiet
def impl_mesh(ops: List[str]) -> List[str]:
    import classy_blocks as cb

    mesh = cb.Mesh()
    out = []
    n = 0
    for op in ops:
        if op == "add":
            box = cb.Box([float(n), 0, 0], [float(n) + 1, 1, 1])
            for axis in range(3):
                box.chop(axis, count=2)
            n += 1
            out.append(_outcome(lambda: mesh.add(box)))
        else:
            out.append(_outcome(getattr(mesh, op)))
    return out


# slot k of an operation <-> the pair of block corners its edge joins (bottom i, top 4+i, side 8+i)
SLOT_PAIR = [(i, (i + 1) % 4) for i in range(4)] + [(4 + i, 4 + (i + 1) % 4) for i in range(4)] + [(i, i + 4) for i in range(4)]


@_quiet
def impl_proj(ops: List[list]) -> dict:
    """A history of projection calls on one Box.  After every call: outcome and the labels on the 12 block edges,
    read through `Operation.edges` (keyed by corner pair, not by storage slot)."""
    import classy_blocks as cb

    op = cb.Box([0, 0, 0], [1, 1, 1])
    lab = lambda ls: [f"l{k}" for k in ls]

    def state():
        fr_ = op.edges
        return [sorted(int(x[1:]) for x in getattr(fr_[a][b], "label", [])) if fr_[a][b].kind == "project" else [] for a, b in SLOT_PAIR]

    steps = []
    for o in ops:
        kind = o[0]
        if kind == "pedge":
            call_ = lambda: op.project_edge(o[1], o[2], lab(o[3]) if len(o[3]) != 1 else lab(o[3])[0])
        elif kind == "addlabel":  # directly on the stored edge object when there is one
            edge = op.edges[o[1]][o[2]]
            if isinstance(edge, cb.Project):
                call_ = lambda: edge.add_label(lab(o[3]))
            else:
                call_ = lambda: op.project_edge(o[1], o[2], lab(o[3]))
        elif kind == "pside":
            call_ = lambda: op.project_side(o[1], f"l{o[2]}", bool(o[3]), False)
        elif kind == "fpedge":
            face = op.top_face if o[1] else op.bottom_face
            call_ = lambda: face.project_edge(o[2], lab(o[3]) if len(o[3]) != 1 else lab(o[3])[0])
        else:
            face = op.top_face if o[1] else op.bottom_face
            call_ = lambda: face.project(f"l{o[2]}", bool(o[3]), False)
        out = _outcome(call_)
        steps.append([out, state()])
    return {"steps": steps}


# which block edges (corner pairs) a projection call touches, by blockMesh's convention alone
def _bm_side_corners(side: str):
    idx = {"bottom": (2, 0), "top": (2, 1), "left": (0, 0), "right": (0, 1), "front": (1, 0), "back": (1, 1)}[side]
    return {c for c, xyz in BM_COORD.items() if xyz[idx[0]] == idx[1]}


def proj_touched(o: list) -> Tuple[str, List[frozenset], List[int]]:
    """(API, touched corner pairs, new labels)"""
    kind = o[0]
    if kind in ("pedge", "addlabel"):
        api = "Operation.project_edge" if kind == "pedge" else "Project.add_label(stored edge)"
        return api, [frozenset((o[1], o[2]))], list(o[3])
    if kind == "fpedge":
        base = 4 if o[1] else 0
        return "Face.project_edge", [frozenset((base + o[2], base + (o[2] + 1) % 4))], list(o[3])
    if kind == "pside":
        side = o[1]
        api = "Operation.project_side"
    else:
        side = "top" if o[1] else "bottom"
        api = "Face.project"
    if not o[3] or side not in BM_SIDES:
        return api, [], [o[2]]
    corners = _bm_side_corners(side)
    pairs = [frozenset((a, b)) for a in corners for b in corners if a < b and _is_bm_edge(a, b)]
    return api, pairs, [o[2]]


# ------------------------------------------------------------------------------------------- the documented preconditions
def _dot(a, b):
    return sum(x * y for x, y in zip(a, b))


def _sub(a, b):
    return [x - y for x, y in zip(a, b)]


def _cross(a, b):
    return [a[1] * b[2] - a[2] * b[1], a[2] * b[0] - a[0] * b[2], a[0] * b[1] - a[1] * b[0]]


def _is_bm_edge(a: int, b: int) -> bool:
    return sum(x != y for x, y in zip(BM_COORD[a], BM_COORD[b])) == 1


def _index(api: str, what: str, c: int, lo: int, hi: int):
    if c < lo:
        return False, f"{api}:{what}-below-{lo}"
    if c > hi:
        return False, f"{api}:{what}-above-{hi}"
    return True, api


def _two_sided(api: str, what: str, d: Fr, tol: Fr):
    """|d| <= tol, as a two-sided condition; abstains (None) within MARGIN of +-tol"""
    if abs(abs(d) - tol) < MARGIN:
        return None, api
    if d < -tol:
        return False, f"{api}:{what}-below-minus-TOL"
    if d > tol:
        return False, f"{api}:{what}-above-plus-TOL"
    return True, api


def _corner_pair(api: str, a: int, b: int):
    for which, c in (("first", a), ("second", b)):
        if c < 0:
            return False, f"{api}:{which}-corner-below-0"
        if c > 7:
            return False, f"{api}:{which}-corner-above-7"
    if not _is_bm_edge(a, b):
        return False, f"{api}:corners-not-joined-by-an-edge"
    return True, api


def py_pre(name: str, r: List[Fr], s: List[str]) -> Tuple[Optional[bool], str]:
    """(does the documented precondition hold? None = too close to a tolerance threshold to say,
        site: the API and, when violated, the clause that is violated)"""
    i = [int(x) if x.denominator == 1 else None for x in r]
    if name == "faceShape":
        return (i[0] == 4 and i[1] == 3), "Face.__init__:points-not-4x3"
    if name == "faceEdges":
        return i[0] == 4, "Face.__init__:" + ("fewer-than-4-edges" if i[0] < 4 else "more-than-4-edges")
    if name == "faceCoplanar":
        p = [r[0:3], r[3:6], r[6:9], r[9:12]]
        d = _dot(_sub(p[1], p[0]), _cross(_sub(p[3], p[0]), _sub(p[2], p[0])))
        return _two_sided("Face.__init__(check_coplanar)", "triple-product", d, TOL)
    if name == "faceAddEdge":
        return _index("Face.add_edge", "corner", i[0], 0, 3)
    if name == "faceProjectEdge":
        return _index("Face.project_edge", "corner", i[0], 0, 3)
    if name == "faceRemoveEdges":
        for c in i:
            ok, site = _index("Face.remove_edges", "corner", c, 0, 3)
            if not ok:
                return ok, site
        return True, "Face.remove_edges"
    if name == "pointShape":
        return list(i) == [3], "Point.__init__:shape-not-(3,)"
    if name == "arrayShape":
        if i[1] != 3:
            return False, "Array.__init__:points-not-3d"
        return i[0] >= 2, "Array.__init__:fewer-than-2-points"
    if name == "sideVertices":
        return i[0] == 8, "Side.__init__:" + ("fewer-than-8-vertices" if i[0] < 8 else "more-than-8-vertices")
    if name == "opAddSideEdge":
        return _index("Operation.add_side_edge", "corner", i[0], 0, 3)
    if name == "opProjectCorner":
        return _index("Operation.project_corner", "corner", i[0], 0, 7)
    if name == "opProjectEdge":
        return _corner_pair("Operation.project_edge", i[0], i[1])
    if name == "opChop":
        return _index("Operation.chop", "axis", i[0], 0, 2)
    if name == "opUnchop":
        return _index("Operation.unchop", "axis", i[0], 0, 2)
    if name == "opSide":
        return s[0] in BM_SIDES, "Operation.set_patch/project_side:unknown-side"
    if name == "fromSeries":
        return i[0] >= 2, "Operation.from_series:fewer-than-2-faces"
    if name == "blockAddEdge":
        return _corner_pair("Block.add_edge", i[0], i[1])
    if name == "frameAddBeam":
        return _corner_pair("Frame.add_beam", i[0], i[1])
    if name == "projectLabels":
        return 1 <= i[0] <= 2, "Project.__init__:" + ("no-label" if i[0] < 1 else "more-than-2-labels")
    if name == "projectAddLabel":
        return len(set(i[1:])) <= 2, "Project.add_label:more-than-2-labels"
    if name == "lengthRatio":
        if r[0] <= 0:
            return False, "Grading.add_chop:length-ratio-not-above-0"
        return r[0] <= 1, "Grading.add_chop:length-ratio-above-1"
    if name == "annulus":
        c, p, n, rin, nseg = r[0:3], r[3:6], r[6:9], r[9], i[10]
        api = "Annulus.__init__"
        v = _sub(p, c)
        if not any(n) or not any(v):
            return False, api + ":zero-normal-or-radius-vector"
        if nseg < 2:
            return False, api + ":fewer-than-2-segments"
        if rin < 0:
            return False, api + ":inner-radius-negative"
        # inner radius below the outer one (the radii differ by at least the merge tolerance)
        rout = Fr(math.sqrt(_dot(v, v)))
        if abs(rout - rin - TOL) < MARGIN:
            return None, api
        if rout - rin < TOL:
            return False, api + (":inner-radius-equals-outer" if abs(rout - rin) <= TOL else ":inner-radius-above-outer")
        # radius vector perpendicular to the normal, two-sided
        d = Fr(float(_dot(n, v)) / math.sqrt(_dot(n, n)))
        return _two_sided(api, "lean", d, TOL)
    if name in ("cylinder", "frustum"):
        a1, a2, rp = r[0:3], r[3:6], r[6:9]
        api = ("Cylinder" if name == "cylinder" else "Frustum") + ".__init__"
        axis, rad = _sub(a2, a1), _sub(rp, a1)
        if not any(axis) or not any(rad):
            return False, api + ":zero-axis-or-radius-vector"
        return _two_sided(api, "lean", _dot(axis, rad), TOL)
    if name == "chain":
        api = ("Cylinder", "Frustum", "ExtrudedRing")[i[0]] + ".chain"
        if r[1] < 0:
            return False, api + ":negative-length"
        return r[1] > 0, api + ":zero-length"
    if name == "ringContract":
        rnew, rsrc = r
        api = "ExtrudedRing.contract"
        if rnew <= 0:
            return False, api + ":radius-not-above-0"
        if abs(rsrc - rnew - TOL) < MARGIN:
            return None, api
        if rsrc - rnew < TOL:
            return False, api + (":radius-equals-source" if abs(rsrc - rnew) <= TOL else ":radius-above-source")
        return True, api
    if name == "cylinderFill":
        return i[0] == 8, "Cylinder.fill:ring-not-8-segments"
    if name == "loftedShape":
        if i[0] != i[1]:
            return False, "LoftedShape.__init__:end-sketches-differ"
        return all(m == i[0] for m in i[2:]), "LoftedShape.__init__:mid-sketch-differs"
    if name == "stackSlice":
        axis, idx, n0, n1, n2 = i
        ok, site = _index("Stack.get_slice", "axis", axis, 0, 2)
        if not ok:
            return ok, site
        return _index("Stack.get_slice", f"index-axis-{axis}", idx, 0, (n0, n1, n2)[axis] - 1)
    if name == "curveParam":
        pp, lo, hi = r
        if pp < lo:
            return False, "CurveBase._check_param:parameter-below-lower-bound"
        return pp <= hi, "CurveBase._check_param:parameter-above-upper-bound"
    if name == "polylineShape":
        if len(i) != 2 or i[1] != 3:
            return False, "functions.polyline_length:points-not-nx3"
        return i[0] >= 2, "functions.polyline_length:fewer-than-2-points"
    if name == "polarArgs":
        if i[0] not in (-1, 1):
            return False, "functions.to_cartesian:direction-" + ("below-minus-1" if i[0] < -1 else "above-1" if i[0] > 1 else "zero")
        return s[0] in ("x", "z"), "functions.to_cartesian/to_polar:unknown-axis"
    if name == "rotationLink":
        leader, origin, axis = r[0:3], r[3:6], r[6:9]
        d = _sub(leader, origin)
        n2 = _dot(axis, axis)
        dist = math.sqrt(max(0.0, float(_dot(d, d) - _dot(d, axis) ** 2 / n2)))
        if abs(Fr(dist) - TOL) < MARGIN:
            return None, "RotationLink.__init__"
        return Fr(dist) >= TOL, "RotationLink.__init__:leader-on-the-rotation-axis"
    if name == "elbowChain":
        return i[0] == 1, "Elbow.chain:source-sketch-not-a-disk"
    if name == "arcTheta":
        a, lim = r[0], TWO_PI
        if a == 0:
            return False, "arc_from_theta:angle-zero"
        if a <= -lim:
            return False, "arc_from_theta:angle-not-above-minus-2pi"
        return a < lim, "arc_from_theta:angle-not-below-2pi"
    if name == "edgeVertices":
        if i[0] != 1:
            return False, "Edge.__init__:first-end-not-a-vertex"
        return i[1] == 1, "Edge.__init__:second-end-not-a-vertex"
    raise ValueError("unknown call " + name)


# mutators that check before they act on the unchanged tree (Project.add_label, Face.remove_edges and the multi-edge
# projection calls do not: they are outside this clause)
ATOMIC_MUTATORS = {"faceAddEdge", "faceProjectEdge", "opAddSideEdge", "opProjectCorner", "opProjectEdge", "opUnchop", "opChop",
                   "blockAddEdge", "frameAddBeam", "lengthRatio"}  # fmt: skip


# clauses of the catalogue that the library enforces only by accident (no docstring, no guard on that argument): the
# class of the exception that happens to come out (ZeroDivisionError of `2π / n_segments`, IndexError of an empty
# list of faces, whatever scipy says about a NaN axis) is not judged
UNDOCUMENTED_CLAUSES = {
    "Annulus.__init__:fewer-than-2-segments",
    "Annulus.__init__:zero-normal-or-radius-vector",
    "Cylinder.__init__:zero-axis-or-radius-vector",
    "Frustum.__init__:zero-axis-or-radius-vector",
    "Cylinder.chain:zero-length",
    "Frustum.chain:zero-length",
    "ExtrudedRing.chain:zero-length",
}


def name_atomic(name: str) -> bool:
    return name in ATOMIC_MUTATORS


# ------------------------------------------------------------------------------------------- generators
def call(name: str, rats=(), strs=(), stream: str = "boundary") -> dict:
    return {"kind": "call", "name": name, "r": [str(fr(x)) for x in rats], "s": list(strs), "stream": stream}


def _exact(x: float) -> Fr:
    return Fr(float(x))


LEANS = [Fr(0), TOL / 2, TOL * Fr(999, 1000), TOL * Fr(1001, 1000), Fr(1, 1000), Fr(1, 2), Fr(1, 10**9), Fr(3)]

# (axis, in-plane vector 1, in-plane vector 2): integer, pairwise orthogonal
FRAMES = [
    ((0, 0, 1), (1, 0, 0), (0, 1, 0)),
    ((0, 0, 2), (0, 3, 0), (1, 0, 0)),
    ((1, 0, 0), (0, 1, 0), (0, 0, 1)),
    ((0, 3, 0), (0, 0, 1), (2, 0, 0)),
    ((1, 2, 2), (2, 1, -2), (2, -2, 1)),
    ((2, 3, 6), (3, -6, 2), (6, 2, -3)),
    ((1, 1, 0), (1, -1, 0), (0, 0, 1)),
    ((1, 1, 1), (1, -1, 0), (1, 1, -2)),
]


def _round_geom(frame, origin, radius_scale: Fr, d: Fr, unit_normal: bool):
    """axis point 1, axis vector, radius point such that  axis . (rp - a1) = d   (unit_normal: n^ . v = d).
    Everything is converted to the float that the implementation will receive, and back to its exact rational."""
    axis, e1, _ = frame
    a1 = [_exact(fl(c)) for c in origin]
    n2 = sum(c * c for c in axis)
    t = float(d) / math.sqrt(n2) if unit_normal else float(d) / n2
    rp = [_exact(fl(a1[k]) + fl(radius_scale) * e1[k] + t * axis[k]) for k in range(3)]
    return a1, [Fr(c) for c in axis], rp


def boundary_cases(nframes: int = len(FRAMES), pair_lo: int = -2, pair_hi: int = 9) -> List[dict]:
    """Arguments on both sides of every boundary of every documented precondition (deterministic)."""
    out: List[dict] = []
    frames = FRAMES[:nframes]
    for n in range(0, 7):
        for m in range(0, 5):
            if n == 0 and m != 3:
                continue
            out.append(call("faceShape", [n, m]))
    for k in (0, 1, 3, 4, 5, 8):
        out.append(call("faceEdges", [k]))
    for c in (-5, -4, -2, -1, 0, 1, 2, 3, 4, 5, 8):
        out.append(call("faceAddEdge", [c]))
        out.append(call("faceProjectEdge", [c]))
        out.append(call("opAddSideEdge", [c]))
    for cs in ([], [0], [3], [-1], [4], [0, 1, 2, 3], [0, -1], [2, 4], [-4], [1, 1]):
        out.append(call("faceRemoveEdges", cs))
    for dims in ([], [0], [1], [2], [3], [4], [1, 3], [3, 1], [3, 3], [2, 3]):
        out.append(call("pointShape", dims))
    for n in range(0, 5):
        for m in range(1, 5):
            if n == 0 and m != 3:
                continue
            out.append(call("arrayShape", [n, m]))
    for k in (0, 4, 7, 8, 9, 16):
        out.append(call("sideVertices", [k]))
    for c in (-9, -8, -4, -1, 0, 3, 4, 7, 8, 9):
        out.append(call("opProjectCorner", [c]))
    for a in range(-9, 10):
        for b in range(-9, 10):
            if pair_lo <= a <= pair_hi and pair_lo <= b <= pair_hi or (a, b) in ((-8, 1), (-4, 5), (-7, 2), (-5, -1), (1, -8), (-9, 0)):
                out.append(call("opProjectEdge", [a, b]))
                out.append(call("blockAddEdge", [a, b]))
                out.append(call("frameAddBeam", [a, b]))
    for a in (-3, -2, -1, 0, 1, 2, 3, 4, 5):
        out.append(call("opChop", [a]))
        out.append(call("opUnchop", [a]))
    for side in BM_SIDES + ("middle", "Top", "x", "inside"):
        out.append(call("opSide", [], [side]))
    for k in range(0, 6):
        out.append(call("fromSeries", [k]))
    for n in range(0, 5):
        out.append(call("projectLabels", [n]))
    for have, new in (([0], []), ([0], [0]), ([0], [1]), ([0], [1, 2]), ([0, 1], [0]), ([0, 1], [1, 0]), ([0, 1], [2]),
                      ([0, 1], [2, 3]), ([0], [1, 1]), ([0], [0, 1, 0])):  # fmt: skip
        out.append(call("projectAddLabel", [len(have), *have, *new]))
    for lr in (Fr(-1), Fr(-1, 10), Fr(0), Fr(1, 10**9), Fr(1, 2), Fr(1), _exact(1.0000001), Fr(1) + Fr(1, 10**12), Fr(2)):
        out.append(call("lengthRatio", [lr]))
    # coplanarity, perpendicularity: both signs of every deviation
    for d in LEANS:
        for sign in (1, -1):
            if d == 0 and sign == -1:
                continue
            dd = sign * d
            for perm in range(3):
                h = _exact(fl(dd))
                pts = [[Fr(1, 8), Fr(2, 8), Fr(3, 8)]] * 4
                base = [[0, 0, 0], [1, 0, 0], [Fr(5, 4), Fr(3, 4), h], [0, 1, 0]]
                pts = [[p0 + b[(k + perm) % 3] for k, p0 in enumerate(o)] for o, b in zip(pts, base)]
                out.append(call("faceCoplanar", [c for p in pts for c in p]))
            for fi, frame in enumerate(frames):
                origin = [Fr(fi, 4), Fr(-fi, 8), Fr(1, 2)]
                a1, axis, rp = _round_geom(frame, origin, Fr(3, 2), dd, unit_normal=False)
                a2 = [x + y for x, y in zip(a1, axis)]
                out.append(call("cylinder", a1 + a2 + rp))
                out.append(call("frustum", a1 + a2 + rp))
                c, n, p = _round_geom(frame, origin, Fr(3, 2), dd, unit_normal=True)
                out.append(call("annulus", c + p + n + [Fr(1, 2), 8]))
    # zero axis / zero radius vector
    z = [Fr(0)] * 3
    out.append(call("cylinder", z + z + [1, 0, 0]))
    out.append(call("cylinder", z + [0, 0, 1] + z))
    out.append(call("frustum", z + z + [1, 0, 0]))
    out.append(call("frustum", z + [0, 0, 1] + z))
    out.append(call("annulus", z + [1, 0, 0] + z + [Fr(1, 2), 8]))
    out.append(call("annulus", z + z + [0, 0, 1] + [Fr(1, 2), 8]))
    # radii of a ring: inner against outer, inner against zero, numbers of segments
    for fi, frame in enumerate(frames[:5]):
        c, n, p = _round_geom(frame, [Fr(1, 4), 0, Fr(fi, 2)], Fr(2), Fr(0), unit_normal=True)
        rout = Fr(math.sqrt(float(sum((x - y) ** 2 for x, y in zip(p, c)))))
        for rin in (Fr(-1), Fr(-1, 10**9), Fr(0), Fr(1, 10**9), rout / 2, rout - Fr(1, 1000), rout - TOL * Fr(1001, 1000),
                    rout - TOL * Fr(999, 1000), rout - TOL / 2, rout, rout + TOL / 2, rout + TOL * 2, rout + Fr(1, 1000),
                    rout * 2, -rout / 2, -rout * 2):  # fmt: skip
            out.append(call("annulus", c + p + n + [_exact(fl(rin)), 8]))
        for nseg in (-8, -1, 0, 1, 2, 3, 5, 8, 12):
            out.append(call("annulus", c + p + n + [rout / 2, nseg]))
    for kind in (0, 1, 2):
        for length in (Fr(-2), Fr(-1, 10**6), Fr(0), Fr(1, 10**6), Fr(1, 2), Fr(3)):
            out.append(call("chain", [kind, length]))
    for rsrc in (Fr(1, 2), Fr(5, 4)):
        for rnew in (Fr(-1), Fr(-1, 10**9), Fr(0), Fr(1, 10**9), rsrc / 2, rsrc - Fr(1, 1000), rsrc - TOL * Fr(1001, 1000),
                     rsrc - TOL * Fr(999, 1000), rsrc, rsrc + TOL * 2, rsrc + Fr(1, 1000), rsrc * 2):  # fmt: skip
            out.append(call("ringContract", [_exact(fl(rnew)), rsrc]))
    for nseg in (3, 4, 7, 8, 9, 12):
        out.append(call("cylinderFill", [nseg]))
    for n1, n2, mids in ((2, 2, []), (2, 3, []), (3, 2, []), (1, 1, [1]), (2, 2, [2]), (2, 2, [3]), (2, 2, [1]), (2, 3, [2]),
                         (2, 2, [2, 2]), (2, 2, [2, 3]), (2, 2, [1, 2]), (3, 3, [3, 3, 3]), (3, 3, [3, 3, 2]), (2, 1, [2, 1])):  # fmt: skip
        out.append(call("loftedShape", [n1, n2, *mids]))
    for dims in ((2, 3, 4), (1, 1, 1), (3, 1, 2)):
        for axis in (-2, -1, 0, 1, 2, 3, 4):
            for idx in (-5, -2, -1, 0, 1, 2, 3, 4, 5):
                out.append(call("stackSlice", [axis, idx, *dims]))
    # round 5: guards of functions and constructors outside the first catalogue
    for lo, hi in ((Fr(0), Fr(1)), (Fr(0), Fr(3)), (Fr(-1, 2), Fr(5, 2)), (Fr(2), Fr(2))):
        eps = Fr(1, 10**9)
        for pp in (lo - 1, lo - eps, lo, lo + eps, (lo + hi) / 2, hi - eps, hi, hi + eps, hi + 1):
            out.append(call("curveParam", [_exact(fl(pp)), lo, hi]))
    for dims in ([], [0], [3], [2], [0, 3], [1, 3], [2, 3], [3, 3], [5, 3], [2, 2], [2, 4], [3, 0], [2, 3, 1], [1, 2, 3]):
        out.append(call("polylineShape", dims))
    for d in (-3, -2, -1, 0, 1, 2, 3):
        for axis in ("x", "z", "y", "X", "xz"):
            out.append(call("polarArgs", [d], [axis]))
    for fi, frame in enumerate(frames):
        axis, e1, _ = frame
        origin = [Fr(fi, 4), Fr(1, 2), Fr(-fi, 8)]
        nn = math.sqrt(sum(c * c for c in e1))
        for dist in (Fr(0), TOL / 2, TOL * Fr(999, 1000), TOL * Fr(1001, 1000), TOL * 2, Fr(1, 1000), Fr(3, 2)):
            for along in (Fr(0), Fr(5, 4), Fr(-2)):
                for sign in (1, -1):
                    if dist == 0 and sign == -1:
                        continue
                    leader = [_exact(fl(origin[k]) + sign * float(dist) / nn * e1[k] + float(along) * axis[k]) for k in range(3)]
                    out.append(call("rotationLink", leader + [_exact(fl(c)) for c in origin] + [Fr(c) for c in axis]))
    out.append(call("elbowChain", [0]))
    out.append(call("elbowChain", [1]))
    # round 6b: the sector angle of an `Angle` edge (both signs of every value), the ends of an edge
    eps = Fr(1, 10**9)
    for a in (Fr(0), eps, Fr(1, 2), Fr(3), TWO_PI - eps, TWO_PI, TWO_PI + eps, Fr(7), Fr(13)):
        for sign in (1, -1):
            if a == 0 and sign == -1:
                continue
            out.append(call("arcTheta", [_exact(fl(sign * a)), TWO_PI]))
    for v1 in (0, 1):
        for v2 in (0, 1):
            out.append(call("edgeVertices", [v1, v2]))
    return out


# ------------------------------------------------------------------------------------------- boundary inputs built from the guards of the source
def _const(e: tuple) -> Optional[Fr]:
    """value of a closed guard expression (integers, TOL, + - * of those)"""
    tag = e[0]
    if tag == "int":
        return Fr(e[1])
    if tag == "tol":
        return TOL  # the documented tolerance; a changed constants.TOL shows up against it
    if tag == "neg":
        v = _const(e[1])
        return None if v is None else -v
    if tag in ("add", "sub", "mul"):
        a, b = _const(e[1]), _const(e[2])
        if a is None or b is None:
            return None
        return a + b if tag == "add" else a - b if tag == "sub" else a * b
    return None


def _comparisons(c: tuple) -> List[tuple]:
    if c[0] == "not":
        return _comparisons(c[1])
    if c[0] in ("and", "or"):
        return _comparisons(c[1]) + _comparisons(c[2])
    if c[0] in ("cmp", "iin", "pairin"):
        return [c]
    return []


def _has(e: Any, tag: str) -> bool:
    return isinstance(e, tuple) and (e[0] == tag or any(_has(x, tag) for x in e[1:]))


# how a value of a name that occurs in a guard becomes a call of the catalogue
_INT_MAKERS = {
    ("faceAddEdge", "corner"): lambda v: [call("faceAddEdge", [v], stream="guard")],
    ("faceProjectEdge", "corner"): lambda v: [call("faceProjectEdge", [v], stream="guard")],
    ("faceRemoveEdges", "corner"): lambda v: [call("faceRemoveEdges", [v], stream="guard"), call("faceRemoveEdges", [0, v], stream="guard")],
    ("opAddSideEdge", "corner_idx"): lambda v: [call("opAddSideEdge", [v], stream="guard")],
    ("opProjectCorner", "corner"): lambda v: [call("opProjectCorner", [v], stream="guard")],
    ("opProjectEdge", "corner_1"): lambda v: [call("opProjectEdge", [v, w], stream="guard") for w in range(-1, 10)],
    ("opProjectEdge", "corner_2"): lambda v: [call("opProjectEdge", [w, v], stream="guard") for w in range(-1, 10)],
    ("blockAddEdge", "corner_1"): lambda v: [call("blockAddEdge", [v, w], stream="guard") for w in range(-1, 10)],
    ("blockAddEdge", "corner_2"): lambda v: [call("blockAddEdge", [w, v], stream="guard") for w in range(-1, 10)],
    ("frameAddBeam", "corner_1"): lambda v: [call("frameAddBeam", [v, w], stream="guard") for w in range(-1, 10)],
    ("frameAddBeam", "corner_2"): lambda v: [call("frameAddBeam", [w, v], stream="guard") for w in range(-1, 10)],
    ("opUnchop", "axis"): lambda v: [call("opUnchop", [v], stream="guard"), call("opChop", [v], stream="guard")],
    ("opChop", "axis"): lambda v: [call("opChop", [v], stream="guard"), call("opUnchop", [v], stream="guard")],
    ("stackSlice", "axis"): lambda v: [call("stackSlice", [v, 0, 2, 3, 4], stream="guard")],
    ("stackSlice", "index"): lambda v: [call("stackSlice", [a, v, 2, 3, 4], stream="guard") for a in (0, 1, 2)],
    ("polarCartesian", "direction"): lambda v: [call("polarArgs", [v], ["z"], stream="guard")],
    ("faceEdges", "len:edges"): lambda v: [call("faceEdges", [v], stream="guard")] if v >= 0 else [],
    ("sideVertices", "len:vertices"): lambda v: [call("sideVertices", [v], stream="guard")] if v >= 0 else [],
    ("fromSeries", "len:faces"): lambda v: [call("fromSeries", [v], stream="guard")] if v >= 0 else [],
    ("projectLabels", "len:label"): lambda v: [call("projectLabels", [v], stream="guard")] if v >= 0 else [],
    ("projectAddLabel", "len:self.label"): lambda v: [call("projectAddLabel", [1, 0, *range(1, v)], stream="guard")] if v >= 1 else [],
    ("arrayShape", "dim:points:0"): lambda v: [call("arrayShape", [v, 3], stream="guard")] if v >= 0 else [],
    ("arrayShape", "dim:points:1"): lambda v: [call("arrayShape", [2, v], stream="guard")] if v >= 1 else [],
    ("polylineShape", "dim:points:0"): lambda v: [call("polylineShape", [v, 3], stream="guard")] if v >= 0 else [],
    ("polylineShape", "dim:points:1"): lambda v: [call("polylineShape", [2, v], stream="guard")] if v >= 0 else [],
    ("cylinderFill", "source.sketch_1.n_segments"): lambda v: [call("cylinderFill", [v], stream="guard")] if v >= 3 else [],
}
_RAT_MAKERS = {
    ("lengthRatio", "chop.length_ratio"): lambda v: [call("lengthRatio", [_exact(fl(v))], stream="guard")],
    ("chainCylinder", "length"): lambda v: [call("chain", [0, _exact(fl(v))], stream="guard")],
    ("chainFrustum", "length"): lambda v: [call("chain", [1, _exact(fl(v))], stream="guard")],
    ("chainRing", "length"): lambda v: [call("chain", [2, _exact(fl(v))], stream="guard")],
    ("ringContract", "inner_radius"): lambda v: [call("ringContract", [_exact(fl(v)), Fr(1, 2)], stream="guard")],
    ("annulus", "inner_radius"): lambda v: [call("annulus", [0, 0, 0, 2, 0, 0, 0, 0, 1, _exact(fl(v)), 8], stream="guard")],
}


def _deviation_cases(entry: str, thr: Fr) -> List[dict]:
    """inputs whose signed deviation / distance sits on both sides of the threshold `thr` of a tolerance guard"""
    out: List[dict] = []
    if thr <= 0:
        thr = TOL
    devs = [thr / 2, thr * Fr(999, 1000), thr * Fr(1001, 1000), thr * 2, TOL * Fr(1001, 1000), TOL * Fr(999, 1000)]
    for fi, frame in enumerate(FRAMES[:3]):
        origin = [Fr(fi, 4), Fr(-fi, 8), Fr(1, 2)]
        for d in devs:
            for sign in (1, -1):
                dd = sign * d
                if entry in ("cylinder", "frustum"):
                    a1, axis, rp = _round_geom(frame, origin, Fr(3, 2), dd, unit_normal=False)
                    out.append(call(entry, a1 + [x + y for x, y in zip(a1, axis)] + rp, stream="guard"))
                elif entry == "annulus":
                    c, n, p = _round_geom(frame, origin, Fr(3, 2), dd, unit_normal=True)
                    out.append(call("annulus", c + p + n + [Fr(1, 2), 8], stream="guard"))
                elif entry == "faceCoplanar" and fi == 0:
                    h = _exact(fl(dd))
                    base = [[0, 0, 0], [1, 0, 0], [Fr(5, 4), Fr(3, 4), h], [0, 1, 0]]
                    out.append(call("faceCoplanar", [Fr(c) for p in base for c in p], stream="guard"))
                elif entry == "rotationLink":
                    axis, e1, _ = frame
                    nn = math.sqrt(sum(c * c for c in e1))
                    leader = [_exact(fl(origin[k]) + float(dd) / nn * e1[k] + 1.25 * axis[k]) for k in range(3)]
                    out.append(call("rotationLink", leader + [_exact(fl(c)) for c in origin] + [Fr(c) for c in axis], stream="guard"))
    if entry in ("annulus", "ringContract"):  # radii: inner against outer / new against the source's
        for d in devs + [Fr(0), -thr, -TOL * 2]:
            if entry == "ringContract":
                out.append(call("ringContract", [_exact(fl(Fr(1, 2) - d)), Fr(1, 2)], stream="guard"))
            else:
                out.append(call("annulus", [0, 0, 0, 2, 0, 0, 0, 0, 1, _exact(fl(2 - d)), 8], stream="guard"))
    return out


def guard_cases() -> List[dict]:
    """Boundary inputs constructed from the guards *as they are in the source now*: for every comparison of a name
    with a constant, the values one below / at / one above the constant (integers) or 1e-9 around it (rationals); for
    every membership test, every member and the neighbours of the smallest and largest; for every comparison of a
    deviation, a norm or a difference of radii with a tolerance expression, deviations on both sides of that
    threshold (and of the documented TOL), with both signs."""
    from . import c20_guards

    out: List[dict] = []
    seen = set()

    def add(cases):
        for c in cases:
            key = (c["name"], tuple(c["r"]), tuple(c["s"]))
            if key not in seen:
                seen.add(key)
                out.append(c)

    def name_of(e):
        if e[0] == "var":
            return e[1]
        if e[0] == "len":
            return "len:" + e[1]
        if e[0] == "dim":
            return f"dim:{e[1]}:{e[2]}"
        return None

    for entry in c20_guards.ENTRIES:
        try:
            stmts = c20_guards.guards(entry)
        except Exception:
            continue  # the translator's failure is reported by the table generation
        conds = []
        for st in stmts:
            if st[0] in ("raise", "ret", "implicit"):
                conds.append(st[-1])
            elif st[0] == "each":
                conds += [x[-1] for x in st[3] if x[0] in ("raise", "ret", "implicit")]
        for cond in conds:
            for cmp_ in _comparisons(cond):
                if cmp_[0] == "iin":
                    nm_, vals = name_of(cmp_[1]), sorted(cmp_[2])
                    mk = _INT_MAKERS.get((entry, nm_))
                    if mk and vals:
                        for v in sorted(set(vals) | {vals[0] - 1, vals[-1] + 1} | {v + 1 for v in vals} | {v - 1 for v in vals}):
                            add(mk(v))
                    continue
                if cmp_[0] == "pairin":
                    for (a, b) in cmp_[3]:
                        add([call("frameAddBeam", [a, b], stream="guard"), call("frameAddBeam", [b, a], stream="guard"),
                             call("frameAddBeam", [a, a], stream="guard"), call("frameAddBeam", [a, b + 1], stream="guard")])  # fmt: skip
                    continue
                _, op, a, b = cmp_
                for x, k in ((a, b), (b, a)):
                    kv = _const(k)
                    if kv is None:
                        continue
                    nm_ = name_of(x)
                    if nm_ is not None and (entry, nm_) in _INT_MAKERS and kv.denominator == 1:
                        for v in (int(kv) - 1, int(kv), int(kv) + 1):
                            add(_INT_MAKERS[(entry, nm_)](v))
                    elif nm_ is not None and (entry, nm_) in _RAT_MAKERS:
                        for v in (kv - Fr(1, 10**9), kv, kv + Fr(1, 10**9), kv - 1, kv + 1):
                            add(_RAT_MAKERS[(entry, nm_)](v))
                    elif _has(x, "dot") or _has(x, "norm") or (x[0] == "sub" and _has(k, "tol")):
                        add(_deviation_cases(entry, kv))
    return out


def probe_cases() -> List[dict]:
    """The fixed probe set of the generated table `CBV.Gen.c20Probes` (a sub-family of the boundary stream)."""
    small = {-1, 0, 1, 2, 4, 7, 8}
    out = []
    for c in boundary_cases(nframes=1, pair_lo=-1, pair_hi=8):
        r = c["r"]
        if c["name"] in ("blockAddEdge", "frameAddBeam") and not (int(r[0]) in small and int(r[1]) in small):
            continue
        if c["name"] == "stackSlice" and not (r[2:] == ["2", "3", "4"] and -1 <= int(r[0]) <= 3 and -1 <= int(r[1]) <= 4):
            continue
        out.append(c)
    # the perpendicularity guards in a second, oblique frame
    for c in boundary_cases(nframes=5, pair_lo=0, pair_hi=-1):
        if c["name"] in ("cylinder", "frustum", "annulus") and c["r"][0] == "1" and c["r"][-1] == "8":
            out.append(c)
    return out


def random_cases(rng: random.Random, n: int) -> List[dict]:
    """A seeded, mostly valid stream with random geometry and random near-boundary arguments."""
    out: List[dict] = []
    coord = lambda: Fr(rng.randint(-24, 24), 8)
    for _ in range(n):
        k = rng.randrange(12)
        if k < 5:  # round shapes: random frame, origin, radius, lean
            frame = rng.choice(FRAMES)
            origin = [coord(), coord(), coord()]
            radius = Fr(rng.randint(2, 24), 8)
            if rng.random() < 0.55:
                d = Fr(0) if rng.random() < 0.5 else _exact(rng.uniform(-0.9, 0.9) * float(TOL))
            else:
                d = _exact(rng.choice([-1, 1]) * 10 ** rng.uniform(-6.7, 0.5))
            if abs(abs(d) - TOL) < 100 * MARGIN:
                d = Fr(0)
            which = rng.choice(["cylinder", "frustum", "annulus", "annulus"])
            a1, axis, rp = _round_geom(frame, origin, radius, d, unit_normal=(which == "annulus"))
            if which == "annulus":
                rout = math.sqrt(float(sum((x - y) ** 2 for x, y in zip(rp, a1))))
                u = rng.random()
                if u < 0.6:
                    rin = _exact(rout * rng.uniform(0.05, 0.95))
                elif u < 0.8:
                    rin = _exact(rout + rng.choice([-1, 1]) * 10 ** rng.uniform(-6.5, 0))
                else:
                    rin = _exact(rout * rng.uniform(-1.5, 2.0))
                nseg = rng.choice([3, 4, 6, 8, 8, 8, 9, 12]) if rng.random() < 0.9 else rng.randint(-2, 2)
                out.append(call("annulus", a1 + rp + axis + [rin, nseg], stream="random"))
            else:
                a2 = [x + y for x, y in zip(a1, axis)]
                out.append(call(which, a1 + a2 + rp, stream="random"))
        elif k == 5:  # coplanarity of a random parallelogram-like quad, lifted by h along its normal
            frame = rng.choice(FRAMES)
            _, e1, e2 = frame
            axis = frame[0]
            o = [coord(), coord(), coord()]
            h = Fr(0) if rng.random() < 0.4 else _exact(rng.choice([-1, 1]) * 10 ** rng.uniform(-9.5, 0))
            a, b = Fr(rng.randint(4, 16), 8), Fr(rng.randint(4, 16), 8)
            p0 = o
            p1 = [o[k2] + a * e1[k2] for k2 in range(3)]
            p3 = [o[k2] + b * e2[k2] for k2 in range(3)]
            n2 = sum(c * c for c in axis)
            p2 = [_exact(fl(o[k2] + a * e1[k2] + b * e2[k2]) + float(h) * axis[k2] / n2) for k2 in range(3)]
            out.append(call("faceCoplanar", p0 + p1 + p2 + p3, stream="random"))
        elif k == 6:
            out.append(call("lengthRatio", [_exact(rng.uniform(-0.2, 1.3)) if rng.random() < 0.7 else Fr(rng.randint(-1, 3), 2)], stream="random"))
        elif k == 7:
            rsrc = Fr(rng.randint(2, 20), 8)
            u = rng.random()
            rnew = _exact(fl(rsrc) * rng.uniform(0.05, 0.95)) if u < 0.6 else _exact(fl(rsrc) + rng.choice([-1, 1]) * 10 ** rng.uniform(-6.5, 0))
            out.append(call("ringContract", [rnew, rsrc], stream="random"))
        elif k == 8:
            dims = (rng.randint(1, 3), rng.randint(1, 3), rng.randint(1, 3))
            axis = rng.choice([0, 1, 2]) if rng.random() < 0.8 else rng.randint(-3, 5)
            idx = rng.randrange(dims[axis]) if 0 <= axis <= 2 and rng.random() < 0.7 else rng.randint(-4, 5)
            out.append(call("stackSlice", [axis, idx, *dims], stream="random"))
        elif k == 9:
            nh = rng.randint(1, 2)
            have = rng.sample(range(4), nh)
            new = [rng.randrange(4) for _ in range(rng.randint(0, 3))]
            out.append(call("projectAddLabel", [nh, *have, *new], stream="random"))
        elif k == 10:
            n1 = rng.randint(1, 4)
            n2 = n1 if rng.random() < 0.7 else rng.randint(1, 4)
            mids = [n1 if rng.random() < 0.8 else rng.randint(1, 4) for _ in range(rng.randint(0, 3))]
            out.append(call("loftedShape", [n1, n2, *mids], stream="random"))
        else:
            name = rng.choice(["faceAddEdge", "faceProjectEdge", "opAddSideEdge", "opProjectCorner", "opChop", "opUnchop",
                               "opProjectEdge", "blockAddEdge", "frameAddBeam", "faceRemoveEdges", "chain",
                               "curveParam", "curveParam", "rotationLink", "rotationLink", "polylineShape", "arcTheta"])  # fmt: skip
            if name == "arcTheta":
                u = rng.random()
                a = _exact(rng.uniform(-6.2, 6.2)) if u < 0.6 else _exact(rng.choice([-1, 1]) * (float(TWO_PI) + rng.choice([-1, 1]) * 10 ** rng.uniform(-9, 0.5))) if u < 0.9 else Fr(0)
                out.append(call(name, [a, TWO_PI], stream="random"))
                continue
            if name == "curveParam":
                lo = Fr(rng.randint(-8, 8), 4)
                hi = lo + Fr(rng.randint(0, 16), 4)
                u = rng.random()
                pp = _exact(rng.uniform(fl(lo), fl(hi))) if u < 0.6 else rng.choice([lo, hi]) if u < 0.75 else _exact(fl(rng.choice([lo, hi])) + rng.choice([-1, 1]) * 10 ** rng.uniform(-9, 0.5))
                out.append(call(name, [pp, lo, hi], stream="random"))
                continue
            if name == "rotationLink":
                axis, e1, e2 = rng.choice(FRAMES)
                origin = [coord(), coord(), coord()]
                u = rng.random()
                dist = 10 ** rng.uniform(-6.6, 0.5) if u < 0.6 else rng.uniform(0, 0.9) * float(TOL) if u < 0.9 else 0.0
                ang = rng.uniform(0, 6.283)
                n1, n2 = math.sqrt(sum(c * c for c in e1)), math.sqrt(sum(c * c for c in e2))
                along = rng.uniform(-2, 2)
                leader = [_exact(fl(origin[k]) + dist * (math.cos(ang) * e1[k] / n1 + math.sin(ang) * e2[k] / n2) + along * axis[k]) for k in range(3)]
                out.append(call(name, leader + origin + [Fr(c) for c in axis], stream="random"))
                continue
            if name == "polylineShape":
                dims = [rng.randint(0, 4), rng.choice([3, 3, 3, 2, 4])] if rng.random() < 0.8 else [rng.randint(0, 3) for _ in range(rng.choice([1, 3]))]
                out.append(call(name, dims, stream="random"))
                continue
            if name in ("opProjectEdge", "blockAddEdge", "frameAddBeam"):
                if rng.random() < 0.6:
                    a = rng.randrange(8)
                    b = rng.choice([x for x in range(8) if _is_bm_edge(a, x)])
                else:
                    a, b = rng.randint(-10, 10), rng.randint(-10, 10)
                out.append(call(name, [a, b], stream="random"))
            elif name == "faceRemoveEdges":
                out.append(call(name, [rng.randint(-1, 4) if rng.random() < 0.3 else rng.randrange(4) for _ in range(rng.randint(0, 4))], stream="random"))
            elif name == "chain":
                length = _exact(rng.uniform(0.05, 3)) if rng.random() < 0.6 else _exact(rng.choice([-1, 1]) * 10 ** rng.uniform(-5, 0.5))
                out.append(call(name, [rng.randrange(3), length], stream="random"))
            else:
                out.append(call(name, [rng.randint(-12, 12)], stream="random"))
    return out


def _lattice(nx: int, ny: int, off, jitter=None):
    """(nx x ny) quads: points row by row, quads, indexes of the non-boundary points"""
    pts = [[off[0] + i, off[1] + j, off[2]] for j in range(ny + 1) for i in range(nx + 1)]
    quads = [[j * (nx + 1) + i, j * (nx + 1) + i + 1, (j + 1) * (nx + 1) + i + 1, (j + 1) * (nx + 1) + i] for j in range(ny) for i in range(nx)]
    interior = [j * (nx + 1) + i for j in range(1, ny) for i in range(1, nx)]
    if jitter:
        for k in interior:
            pts[k] = [pts[k][0] + jitter(), pts[k][1] + jitter(), pts[k][2]]
    return pts, quads, interior


def _grid_case(pts, quads, interior, ops) -> dict:
    enc = lambda p: [str(_exact(fl(c))) for c in p]
    ops = [[o[0], *[enc(p) for p in o[1:]]] for o in ops]
    return {"kind": "grid", "points": [enc(p) for p in pts], "quads": quads, "interior": interior, "ops": ops}


def grid_boundary_cases() -> List[dict]:
    """auto_optimize against clamps that are already there (deterministic)."""
    out = []
    for nx, ny in ((2, 2), (3, 2), (3, 3)):
        pts, quads, interior = _lattice(nx, ny, [Fr(1, 2), Fr(-1, 4), Fr(1)])
        out.append(_grid_case(pts, quads, interior, [["auto"], ["auto"]]))
        out.append(_grid_case(pts, quads, interior, [["clamp", pts[0]], ["auto"], ["clamp", pts[1]], ["auto"]]))
        for k in interior:
            near = [pts[k][0], pts[k][1] + TOL / 2, pts[k][2]]
            out.append(_grid_case(pts, quads, interior, [["clamp", pts[k]], ["auto"]]))
            out.append(_grid_case(pts, quads, interior, [["clamp", near], ["auto"], ["auto"]]))
            out.append(_grid_case(pts, quads, interior, [["auto"], ["clamp", pts[k]], ["clamp", near]]))
            out.append(_grid_case(pts, quads, interior, [["clamp", pts[0]], ["link", pts[0], pts[k]], ["auto"], ["clamp", pts[k]]]))
    pts, quads, interior = _lattice(3, 1, [Fr(0), Fr(0), Fr(0)])  # a strip: no non-boundary vertex, auto_optimize clamps nothing
    out.append(_grid_case(pts, quads, interior, [["auto"], ["clamp", pts[1]], ["auto"], ["clamp", pts[1]]]))
    return out


def grid_cases(rng: random.Random, n: int) -> List[dict]:
    """Histories of add_clamp / add_link / auto_optimize on a lattice of quads (strips without and lattices with
    non-boundary vertices); positions on, near (TOL/2), just off (2 TOL), far."""
    out = []
    for _ in range(n):
        nx, ny = rng.choice([(1, 1), (2, 1), (3, 1), (2, 2), (2, 2), (3, 2), (2, 3), (3, 3)])
        off = [Fr(rng.randint(-8, 8), 4) for _ in range(3)]
        pts, quads, interior = _lattice(nx, ny, off, jitter=lambda: Fr(rng.randint(-1, 1), 8))

        def position():
            u = rng.random()
            base = list(rng.choice([pts[k] for k in interior]) if interior and rng.random() < 0.5 else rng.choice(pts))
            ax = rng.randrange(3)
            if u < 0.45:
                pass
            elif u < 0.65:
                base[ax] += rng.choice([-1, 1]) * TOL / 2
            elif u < 0.85:
                base[ax] += rng.choice([-1, 1]) * TOL * 2
            else:
                base[ax] += rng.choice([-1, 1]) * Fr(rng.randint(1, 5), 3)
            return base

        ops = []
        for _ in range(rng.randint(2, 8)):
            u = rng.random()
            if u < 0.5:
                ops.append(["clamp", position()])
            elif u < 0.8:
                lead = position()
                foll = lead if rng.random() < 0.15 else position()
                ops.append(["link", lead, foll])
            else:
                ops.append(["auto"])
        out.append(_grid_case(pts, quads, interior, ops))
    return out


def proj_boundary_cases() -> List[dict]:
    """Three or more surfaces on one edge through every path and every pair of paths (deterministic)."""
    out = []
    mk = lambda ops: {"kind": "proj", "ops": ops}
    edges = [(a, b) for a in range(8) for b in range(8) if a < b and _is_bm_edge(a, b)]
    for a, b in edges:
        out.append(mk([["pedge", a, b, [0]], ["pedge", b, a, [1]], ["pedge", b, a, [0]], ["pedge", a, b, [2]], ["pedge", a, b, [1]]]))
        out.append(mk([["pedge", a, b, [0, 1]], ["pedge", a, b, [2, 3]]]))
        out.append(mk([["pedge", a, b, [0, 1]], ["addlabel", a, b, [1]], ["addlabel", a, b, [2]]]))
        out.append(mk([["pedge", a, b, [0]], ["addlabel", a, b, [1]], ["pedge", a, b, [2]]]))
    out.append(mk([["pedge", 0, 1, [0, 1, 2]], ["pedge", 0, 1, [0]]]))
    for top in (0, 1):
        for c in range(4):
            a, b = 4 * top + c, 4 * top + (c + 1) % 4
            out.append(mk([["fpedge", top, c, [0]], ["fpedge", top, c, [1]], ["fpedge", top, c, [2]]]))
            out.append(mk([["fpedge", top, c, [0]], ["pedge", a, b, [1]], ["pedge", b, a, [2]]]))
            out.append(mk([["pedge", a, b, [0, 1]], ["fpedge", top, c, [2]]]))
            out.append(mk([["fproj", top, 0, 1], ["fpedge", top, c, [1]], ["pedge", a, b, [2]]]))
            out.append(mk([["pedge", a, b, [0, 1]], ["fproj", top, 2, 1]]))
            out.append(mk([["pedge", a, b, [0, 1]], ["fproj", top, 2, 0], ["fproj", top, 1, 1]]))
    sides = list(BM_SIDES)
    for s1 in sides:
        for s2 in sides:
            if s1 == s2:
                continue
            shared = _bm_side_corners(s1) & _bm_side_corners(s2)
            ops = [["pside", s1, 0, 1], ["pside", s2, 1, 1]]
            if len(shared) == 2:  # the two sides share an edge: it now carries two labels
                a, b = sorted(shared)
                out.append(mk(ops + [["pedge", a, b, [2]]]))
                out.append(mk(ops + [["pedge", a, b, [1]], ["addlabel", a, b, [3]]]))
            else:
                out.append(mk(ops + [["pside", s1, 1, 1]]))
        for a, b in edges:
            if {a, b} <= _bm_side_corners(s1):
                out.append(mk([["pedge", a, b, [0, 1]], ["pside", s1, 2, 1]]))
                out.append(mk([["pedge", a, b, [0, 1]], ["pside", s1, 2, 0], ["pside", s1, 1, 1]]))
                break
    for s1, s2, s3 in (("front", "right", "top"), ("bottom", "front", "left"), ("back", "left", "top"), ("bottom", "right", "back")):
        out.append(mk([["pside", s1, 0, 1], ["pside", s2, 1, 1], ["pside", s3, 2, 1]]))
    out.append(mk([["pside", "middle", 0, 1], ["pside", "front", 0, 1]]))
    return out


def proj_cases(rng: random.Random, n: int) -> List[dict]:
    """Random histories (2..9 calls) on one box, concentrated on a few edges so that label sets fill up."""
    edges = [(a, b) for a in range(8) for b in range(8) if a != b and _is_bm_edge(a, b)]
    out = []
    for _ in range(n):
        focus = rng.sample(edges, 2)
        nlab = rng.choice([2, 3, 3, 4])
        ops = []
        for _ in range(rng.randint(2, 9)):
            u = rng.random()
            labels = rng.sample(range(nlab), 1 if rng.random() < 0.8 else min(2, nlab))
            a, b = rng.choice(focus) if rng.random() < 0.75 else rng.choice(edges)
            if u < 0.35:
                ops.append(["pedge", a, b, labels])
            elif u < 0.5:
                ops.append(["addlabel", a, b, labels])
            elif u < 0.7:
                sides = [sd for sd in BM_SIDES if {a, b} <= _bm_side_corners(sd)] if rng.random() < 0.7 else list(BM_SIDES)
                ops.append(["pside", rng.choice(sides), labels[0], int(rng.random() < 0.75)])
            elif u < 0.85:
                if (a < 4) == (b < 4):  # an edge of the bottom or of the top face
                    top = int(a >= 4)
                    lo, hi = sorted((a % 4, b % 4))
                    corner = lo if hi - lo == 1 else 3
                else:
                    top, corner = rng.randrange(2), rng.randrange(4)
                if rng.random() < 0.1:
                    corner = rng.choice([-1, 4])
                ops.append(["fpedge", top, corner, labels])
            else:
                ops.append(["fproj", rng.randrange(2), labels[0], int(rng.random() < 0.75)])
        out.append({"kind": "proj", "ops": ops})
    return out


MESH_OPS = ["add", "assemble", "clear", "grade", "backport"]


def mesh_cases(rng: random.Random, n: int) -> List[dict]:
    """Histories of Mesh calls.  `assemble` is only issued on a mesh that is not assembled (what `write` does), so the
    histories stay inside the documented use; grade/backport are issued in any state."""
    out = [
        {"kind": "mesh", "ops": ["grade"]},
        {"kind": "mesh", "ops": ["backport"]},
        {"kind": "mesh", "ops": ["assemble", "grade", "backport"]},  # nothing in the depot: still not assembled
        {"kind": "mesh", "ops": ["add", "grade", "backport", "assemble", "grade", "backport", "grade", "clear", "grade", "backport"]},
    ]
    for _ in range(n):
        ops, assembled, depot = [], False, 0
        for _ in range(rng.randint(1, 9)):
            op = rng.choice(MESH_OPS if depot < 3 else MESH_OPS[1:])
            if op == "assemble" and assembled:
                op = "grade"
            if op == "add" and assembled:
                op = "backport"
            ops.append(op)
            if op == "add":
                depot += 1
            elif op == "assemble":
                assembled = depot > 0
            elif op == "clear":
                assembled = False
        out.append({"kind": "mesh", "ops": ops})
    return out


# ------------------------------------------------------------------------------------------- the check
def _lean_list(xs: List[str]) -> str:
    return "[" + ",".join(xs) + "]"


class C20(core.Check):
    pid = "C20"
    props_module = "CBV.Props.C20"
    workers = 8
    rule = (
        "call cases: one guarded constructor/mutator/function call of the catalogue (37 call kinds); the guard stream holds the "
        "boundary inputs constructed from the guards as the translator reads them from the source now (constants -1/0/+1, "
        "members and neighbours of membership tests, deviations on both sides of every tolerance expression); the boundary stream has "
        "arguments on both sides of every boundary of every documented precondition (index -1/0/max/max+1 and further "
        "out, counts one below/at/one above, deviations 0, +-TOL/2, +-TOL(1-1e-3), +-TOL(1+1e-3), +-1e-3, +-0.5 in 8 "
        "rational frames, radii at/around equality and zero, lengths around zero), the random stream is seeded and "
        "mostly valid with random frames, origins, radii and near-boundary values (margin 1e-9 TOL from a threshold). "
        "grid cases: histories (2..8) of add_clamp / add_link / auto_optimize on a SketchOptimizer over a lattice of quads "
        "(1x1..3x3; strips have no non-boundary vertex), non-boundary points jittered, positions on / TOL/2 from / 2 TOL "
        "from / far from a vertex. mesh cases: histories (1..9) of add/assemble/clear/grade/backport. proj cases: histories "
        "(2..9) of Operation.project_edge / Project.add_label on the stored edge / Operation.project_side / "
        "Face.project_edge / Face.project on one box with 2..4 labels, concentrated on two edges, plus 168 deterministic "
        "histories reaching a third surface through every path and pair of paths; observed: outcome and labels of all "
        "12 edges after every call. Non-trivial = "
        "every case (each is a distinct argument tuple or history); distinct = different call, arguments or history."
    )
    assumptions = [
        "numpy shape semantics (np.shape of an n x m nested list), python negative indexing and dict look-up are modelled "
        "and validated by correspondence, not verified",
        "float64 evaluation of the dot / triple products and norms agrees with the exact rational evaluation on the side "
        "of the threshold: generators keep >= 1e-11 absolute distance from every TOL threshold",
        "rejections that come from code below the guard (NaN refused by scipy for a zero axis, zero-length chain) are "
        "modelled as 'rejected, class not predicted'",
    ]
    _partial_base = (
        "Theorems cover the guards of the catalogue (all arguments, all tolerances > 0, all histories for the state "
        "machines). Model = code: the explicit guards (`if cond: raise Cls`, early returns, mutations before a guard) of "
        "every covered entry point are regenerated from the source with `ast` on every run and proved to be the model's "
        "table (T_C20_guards_table*); evaluating the regenerated guards on the arguments of a call is proved to give the "
        "outcome of the model's `run`, class included, for every entry point (T_C20_guards_translated_*; "
        "none partial). Still checked, not proved: the rejections that "
        "come from implicit checks below / between the guards that are not subscripts on a literal list / dict of the class (those are translated: T_C20_guards_implicit_*) — module-level and nested look-ups, numpy shape and division, NaN "
        "refused by scipy — spelled out in each theorem as the model's own checks), the meaning of the named atoms "
        "(`self.outer_radius`, `self.is_assembled`, `isinstance(…, Disk)`, `len(np.shape(points))`) and python's "
        "evaluation of the translated syntax: probe table + differential correspondence (the regenerated guards are "
        "evaluated by the driver on every call case and compared with the implementation). Norms enter in squared form; "
        "the equivalence with the coded square roots is proved for every non-negative root witness."
    )

    @property
    def partial_note(self) -> str:
        """+ where the `raise` / `assert` statements of the source are, and which of them the translator reads"""
        try:
            from . import c20_guards

            cov = c20_guards.coverage()
            out = [f"{r['file']}:{r['where']}({r['exc']})" for r in cov["outside"]]
            return (
                self._partial_base
                + f" Coverage of the source: {cov['total']} raise/assert statements in src/classy_blocks; "
                f"{len(cov['translated'])} sit in the {len(c20_guards.covered_functions())} functions whose guards are translated, "
                f"{len(cov['modelled_only'])} are modelled without translation (loop with return, look-up), "
                f"{len(cov['outside'])} are outside C20's model: " + "; ".join(out)
            )
        except Exception as e:  # the source cannot be read: say so, the table generation reports the rest
            return self._partial_base + f" (coverage of the source not available: {e})"

    # ------------------------------------------------------------------ generators
    def gen_cases(self, rng: random.Random, tier: str) -> List[dict]:
        if tier == "quick":
            return (
                boundary_cases()
                + guard_cases()
                + proj_boundary_cases()
                + random_cases(rng, 500)
                + grid_boundary_cases()
                + grid_cases(rng, 80)
                + mesh_cases(rng, 40)
                + proj_cases(rng, 150)
            )
        # thorough: wider index ranges (all pairs in -12..19), all frames, much longer random streams
        return (
            boundary_cases(pair_lo=-12, pair_hi=19)
            + guard_cases()
            + random_cases(rng, 20000)
            + grid_boundary_cases()
            + grid_cases(rng, 3000)
            + mesh_cases(rng, 800)
            + proj_boundary_cases()
            + proj_cases(rng, 4000)
        )

    def search_cases(self, rng: random.Random, tier: str) -> List[dict]:
        # first of all: the inputs built from the guards as they are in the source now (a changed guard moves them)
        return guard_cases() + boundary_cases() + proj_boundary_cases() + random_cases(rng, 400) + grid_boundary_cases() + grid_cases(rng, 100) + mesh_cases(rng, 40) + proj_cases(rng, 300)

    # ------------------------------------------------------------------ implementation
    def run_impl(self, case: dict) -> Any:
        if case["kind"] == "call":
            rr = [Fr(x) for x in case["r"]]
            return {"out": impl_call(case["name"], rr, case["s"]), "unchanged": _quiet(impl_state_after_reject)(case["name"], rr, case["s"])}
        if case["kind"] == "grid":
            pts = [[Fr(c) for c in p] for p in case["points"]]
            ops = [[op[0], *[[Fr(c) for c in v] for v in op[1:]]] for op in case["ops"]]
            return impl_grid(pts, case["quads"], ops)
        if case["kind"] == "proj":
            return impl_proj(case["ops"])
        return {"outs": impl_mesh(case["ops"])}

    # ------------------------------------------------------------------ model
    def requests(self, case: dict, impl: Any) -> List[str]:
        rat = lambda x: core.rat(Fr(x))
        if case["kind"] == "call":
            args = f"{case['name']} {_lean_list([rat(x) for x in case['r']])} {_lean_list(case['s'])}"
            return ["c20.call " + args] + ["c20.guards " + args]
        if case["kind"] == "grid":
            v = lambda p: ",".join(rat(c) for c in p)
            pts = ";".join(v(p) for p in case["points"])
            ops = ";".join(":".join([op[0], *[v(p) for p in op[1:]]]) for op in case["ops"])
            return [f"c20.grid {pts} {ops} {_lean_list([str(k) for k in case['interior']])}"]
        if case["kind"] == "proj":
            enc = []
            for o in case["ops"]:
                if o[0] in ("pedge", "addlabel"):  # add_label on the stored object is the model's pedge
                    enc.append(f"pedge:{o[1]}:{o[2]}:{_lean_list([str(x) for x in o[3]])}")
                elif o[0] == "fpedge":
                    enc.append(f"fpedge:{o[1]}:{o[2]}:{_lean_list([str(x) for x in o[3]])}")
                else:
                    enc.append(f"{o[0]}:{o[1]}:{o[2]}:{o[3]}")
            return ["c20.proj " + ";".join(enc)]
        return ["c20.mesh " + ";".join(case["ops"])]

    @staticmethod
    def _match(model_out: str, impl_out: str) -> bool:
        if model_out == "accept":
            return impl_out == "accepted"
        if not model_out.startswith("reject:"):
            return False
        cls = model_out[len("reject:") :]
        if cls == "*":
            return impl_out != "accepted" and "=" not in impl_out
        return impl_out == cls

    def compare(self, case: dict, impl: Any, model: List[str]) -> Optional[str]:
        ans = model[0]
        if case["kind"] == "call":
            parts = ans.split(" ")
            if len(parts) != 2 or parts[1] not in ("pre", "nopre"):
                return f"unparsable model answer {ans!r}"
            if not self._match(parts[0], impl["out"]):
                return f"{case['name']}{case['r']}{case['s']}: implementation {impl['out']}, model guard {parts[0]}"
            ok, _ = py_pre(case["name"], [Fr(x) for x in case["r"]], case["s"])
            if ok is not None and ok != (parts[1] == "pre"):
                return f"{case['name']}{case['r']}{case['s']}: documented precondition: harness {ok}, model {parts[1]}"
            if len(model) > 1:  # the guards as regenerated from the source, evaluated by the model on the same arguments
                g = model[1].split(" ")
                if g[0] == "untranslatable":  # the translator could not read this entry point: reported by the table generation
                    return None
                if len(g) != 2 or not (g[0] == "accept" or g[0].startswith("reject:")):
                    return f"unparsable answer of c20.guards {model[1]!r}"
                label = f"{case['name']}{case['r']}{case['s']}"
                if impl["out"] == "accepted" and g[0] != "accept":
                    return f"{label}: accepted by the implementation, the guards read from the source say {g[0]}"
                if g[0] != "accept" and parts[0] == "accept":
                    return f"{label}: the guards read from the source say {g[0]}, the model's run accepts"
                if g[0] != "accept" and g[1] == "-" and impl.get("unchanged") is False:
                    return f"{label}: rejected ({impl['out']}) but the entity has changed; the guards read from the source change no state before they fire"
            return None
        if case["kind"] == "proj":
            steps = ans.split(";")
            if len(steps) != len(impl["steps"]):
                return f"{len(impl['steps'])} steps from the implementation, model answers {ans!r}"
            for k, (m, (iout, istate)) in enumerate(zip(steps, impl["steps"])):
                mout, _, mstate = m.partition("@")
                if not self._match(mout, iout):
                    return f"step {k} ({case['ops'][k]}): implementation {iout}, model {mout}"
                mslots = [sorted(int(x) for x in sl.split(".") if x) for sl in mstate.split("|")]
                if mslots != istate:
                    return f"labels after step {k} ({case['ops'][k]}): implementation {istate}, model {mslots}"
            return None
        outs = ans.split(",")
        if len(outs) != len(impl["outs"]):
            return f"{len(impl['outs'])} outcomes from the implementation, model answers {ans!r}"
        for k, (m, i) in enumerate(zip(outs, impl["outs"])):
            if not self._match(m, i):
                return f"step {k} ({case['ops'][k]}): implementation {i}, model {m}"
        return None

    # ------------------------------------------------------------------ oracle: the property on the implementation
    def oracle(self, case: dict, impl: Any) -> List[dict]:
        out: List[dict] = []
        if case["kind"] == "call":
            got = impl["out"]
            # several entry points share the guard ("a=accepted|b=SomeError"): every one of them is judged
            outs = [kv.split("=", 1)[1] for kv in got.split("|")] if "=" in got else [got]
            ok, site = py_pre(case["name"], [Fr(x) for x in case["r"]], case["s"])
            if ok is None:
                return out
            if not ok and "accepted" in outs:
                out.append(
                    {
                        "site": site + ":accepted",
                        "what": f"{case['name']} {[str(x) for x in case['r']]} {case['s']} violates the documented "
                        f"precondition but is accepted",
                        "observed": got,
                        "expected": "an exception",
                    }
                )
            # a rejection is of an admissible class (the property names them: the library's creation errors, value, key
            # or runtime errors) — judged where the violated clause is documented (see UNDOCUMENTED_CLAUSES)
            if not ok and site not in UNDOCUMENTED_CLAUSES:
                bad = [o for o in outs if o != "accepted" and o not in LISTED]
                if bad:
                    out.append(
                        {
                            "site": site + ":rejected-with-" + bad[0],
                            "what": f"{case['name']} {[str(x) for x in case['r']]} {case['s']} violates the documented "
                            f"precondition and is refused with a bare {bad[0]}, not with one of the documented error classes",
                            "observed": got,
                            "expected": "a creation error of the library, ValueError, KeyError or RuntimeError",
                        }
                    )
            if name_atomic(case["name"]) and impl.get("unchanged") is False:
                out.append(
                    {
                        "site": site.split(":")[0] + ":rejected-call-changed-the-entity",
                        "what": f"{case['name']} {[str(x) for x in case['r']]} {case['s']} raises {got} after having changed "
                        f"the entity it was called on (the distorted entity exists, the call was not rejected before acting)",
                        "observed": "entity differs from its state before the call",
                        "expected": "entity unchanged by a rejected call",
                    }
                )
            if ok and any(o != "accepted" for o in outs):
                out.append(
                    {
                        "site": site.split(":")[0] + ":valid-call-rejected",
                        "what": f"{case['name']} {[str(x) for x in case['r']]} {case['s']} satisfies the documented "
                        f"precondition but raises {got}",
                        "observed": got,
                        "expected": "accepted",
                    }
                )
            return out
        if case["kind"] == "grid":
            pts = [[Fr(c) for c in p] for p in case["points"]]
            tol2 = TOL * TOL
            near = lambda p, q: sum((a - b) ** 2 for a, b in zip(p, q)) < tol2
            interior = case["interior"]  # by construction of the lattice, not asked from the implementation
            prev = [-1] * len(pts)  # which call put the clamp a vertex carries, as observed after the previous call
            for k, (op, got, now) in enumerate(zip(case["ops"], impl["outs"], impl["holders"])):
                clamped = {j for j, h in enumerate(prev) if h != -1}
                hits: List[int] = []
                if op[0] == "clamp":
                    api = "GridBase.add_clamp"
                    pos = [Fr(c) for c in op[1]]
                    hits = [j for j, p in enumerate(pts) if near(p, pos)]
                    if not hits:
                        want, site = False, api + ":no-vertex-at-position"
                    elif hits[0] in clamped:
                        want, site = False, api + ":second-clamp-on-vertex"
                    else:
                        want, site = True, api
                elif op[0] == "link":
                    api = "GridBase.add_link"
                    lead, foll = [Fr(c) for c in op[1]], [Fr(c) for c in op[2]]
                    lh = [j for j, p in enumerate(pts) if near(p, lead)]
                    fh = [j for j, p in enumerate(pts) if near(p, foll) and j not in lh]
                    if not lh:
                        want, site = False, api + ":leader-matches-no-vertex"
                    elif not fh:
                        want, site = False, api + ":follower-matches-no-other-vertex"
                    else:
                        want, site = True, api
                else:  # auto_optimize clamps every non-boundary vertex: a second clamp where one of them has one
                    api = "SketchOptimizer.auto_optimize"
                    if any(j in clamped for j in interior):
                        want, site = False, api + ":second-clamp-on-vertex"
                    else:
                        want, site = True, api
                # whatever the outcome: a clamp that is on a vertex stays the clamp of that vertex
                lost = [j for j in clamped if now[j] != prev[j]]
                if lost:
                    out.append({"site": api + ":clamp-on-vertex-replaced", "what": f"step {k} {op[0]} of {[o[0] for o in case['ops']]}: the clamp of vertex {lost[0]} (put by step {prev[lost[0]]}) was replaced ({got})", "observed": now, "expected": prev})
                    break
                if want and got != "accepted":
                    out.append({"site": site + ":valid-call-rejected", "what": f"step {k} {op}: {got}", "observed": got, "expected": "accepted"})
                    break
                if not want and got == "accepted":
                    out.append({"site": site + ":accepted", "what": f"step {k} {op} of {[o[0] for o in case['ops']]} accepted; clamps before: {prev}", "observed": got, "expected": "an exception"})
                    break
                if got == "accepted" and op[0] == "clamp" and now[hits[0]] != k:
                    out.append({"site": api + ":accepted-clamp-not-on-its-vertex", "what": f"step {k} {op}: {now}", "observed": now, "expected": f"vertex {hits[0]} carries the clamp of step {k}"})
                    break
                if got == "accepted" and op[0] == "auto" and any(now[j] == -1 for j in interior):
                    out.append({"site": api + ":non-boundary-vertex-left-without-clamp", "what": f"step {k}: {now}", "observed": now, "expected": f"clamps on {interior}"})
                    break
                prev = now
            return out
        if case["kind"] == "proj":
            pair_slot = {frozenset(p): k for k, p in enumerate(SLOT_PAIR)}
            pre = [[] for _ in range(12)]
            for k, (o, (got, post)) in enumerate(zip(case["ops"], impl["steps"])):
                api, pairs, new = proj_touched(o)
                valid = True
                if o[0] in ("pedge", "addlabel"):
                    valid = 0 <= o[1] <= 7 and 0 <= o[2] <= 7 and _is_bm_edge(o[1], o[2])
                elif o[0] == "fpedge":
                    valid = 0 <= o[2] <= 3
                elif o[0] == "pside":
                    valid = o[1] in BM_SIDES
                valid = valid and 1 <= len(new) <= 2
                slots = [pair_slot[p] for p in pairs] if valid else []
                over = [sl for sl in slots if len(set(pre[sl]) | set(new)) > 2]
                if (over or not valid) and got == "accepted":
                    what = f"step {k} {o} of {case['ops']} accepted"
                    if over:
                        a, b = SLOT_PAIR[over[0]]
                        what += f": edge {a}-{b} carried {pre[over[0]]} and now carries {post[over[0]]}"
                    out.append({"site": f"{api}:{'more-than-2-surfaces-on-an-edge' if over else 'invalid-argument'}:accepted", "what": what, "observed": got, "expected": "an exception"})
                    break
                if valid and not over and got != "accepted":
                    out.append({"site": f"{api}:valid-call-rejected", "what": f"step {k} {o} of {case['ops']}: {got}; labels before {pre}", "observed": got, "expected": "accepted"})
                    break
                if got == "accepted":
                    want = [sorted(set(pre[sl]) | set(new)) if sl in slots else pre[sl] for sl in range(12)]
                    if post != want:
                        out.append({"site": f"{api}:labels-not-the-union", "what": f"step {k} {o} of {case['ops']}: labels {post}, expected {want}", "observed": post, "expected": want})
                        break
                pre = post
            return out
        # mesh: grade / backport need an assembled mesh
        assembled, depot = False, 0
        for k, (op, got) in enumerate(zip(case["ops"], impl["outs"])):
            want = True
            if op in ("grade", "backport"):
                want = assembled
            if want and got != "accepted":
                out.append({"site": f"Mesh.{op}:valid-call-rejected", "what": f"step {k} of {case['ops']}: {got}", "observed": got, "expected": "accepted"})
                break
            if not want and got == "accepted":
                out.append({"site": f"Mesh.{op}:before-assembly:accepted", "what": f"step {k} of {case['ops']} accepted on a mesh that is not assembled", "observed": got, "expected": "RuntimeError"})
                break
            if op == "add":
                depot += 1
            elif op == "assemble":
                assembled = assembled or depot > 0
            elif op == "clear":
                assembled = False
        return out

    # ------------------------------------------------------------------ evidence
    def nontrivial_key(self, case, impl):
        return json.dumps({k: v for k, v in case.items() if k not in ("stream", "origin")}, sort_keys=True)

    def classify(self, case, impl):
        if case["kind"] == "call":
            got = impl["out"]
            tag = got if got == "accepted" or got in LISTED else got + "(unlisted-class)"
            return f"{case['name']}:{tag}"
        if case["kind"] == "proj":
            most = max((len(sl) for _, st in impl["steps"] for sl in st), default=0)
            return "proj:" + "+".join(sorted({o for o, _ in impl["steps"]})) + f":max-labels-{most}"
        return case["kind"] + ":" + "+".join(sorted(set(impl["outs"])))

    def static_checks(self) -> List[str]:
        return []


if __name__ == "__main__":
    sys.exit(core.main(C20()))
