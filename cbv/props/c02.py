"""C02 — grading propagation terminates, completes and is order-independent (models M-PROP° and M-PROP)."""

from __future__ import annotations

import json
import random
import sys
from typing import Any, Dict, List, Optional

from .. import core
from .. import prop_common as pc
from .c01 import C01


def geometric_counts(case: dict, obs: dict, rots=None) -> Optional[Dict[str, int]]:
    """count per (block id of the case, lattice direction) as written in the file"""
    if obs.get("outcome") != "ok":
        return None
    out = {}
    for pos, hx in enumerate(obs["hex"]):
        b = obs["order"][pos]
        rot = rots[b] if rots is not None else case["asm"]["blocks"][b]["rot"]
        for a in range(3):
            d, _ = pc.axis_direction(rot, a)
            out[f"{b}:{d}"] = hx["counts"][a]
    return out


def propagation_trace(case: dict) -> dict:
    """Runs assemble / grade_blocks / propagate_gradings step by step and records every Axis.copy_grading call."""
    import signal

    from classy_blocks.items.wires.axis import Axis

    mesh, ops = pc.build_mesh(case)
    mesh.assemble()
    blocks = mesh.block_list.blocks
    aid = {id(blk.axes[a]): 3 * b + a for b, blk in enumerate(blocks) for a in range(3)}
    res: Dict[str, Any] = {}
    try:
        mesh.block_list.grade_blocks()
    except Exception as e:
        return {"grade_error": type(e).__name__}
    res["d0"] = sorted(x for blk in blocks for x in [aid[id(ax)] for ax in blk.axes if ax.is_defined])
    res["adj"] = [[aid[id(n)] for n in blk.axes[a].neighbours] for blk in blocks for a in range(3)]
    calls: List[List[int]] = []
    orig = Axis.copy_grading

    def recording(self):
        r = orig(self)
        calls.append([aid.get(id(self), -1), 1 if r else 0])
        if len(calls) > 5000:
            raise pc.Hang()
        return r

    Axis.copy_grading = recording
    old = signal.signal(signal.SIGALRM, pc._alarm)
    signal.setitimer(signal.ITIMER_REAL, 20.0)
    try:
        mesh.block_list.propagate_gradings()
        res["outcome"] = "ok"
    except pc.Hang:
        res["outcome"] = "hang"
    except Exception as e:
        res["outcome"] = {"UndefinedGradingsError": "undefined"}.get(type(e).__name__, type(e).__name__)
    finally:
        signal.setitimer(signal.ITIMER_REAL, 0)
        signal.signal(signal.SIGALRM, old)
        Axis.copy_grading = orig
    res["calls"] = calls
    return res


def fresh_interpreter_outcomes(case: dict, runs: int = 3) -> List[str]:
    """The same script in `runs` fresh interpreters (different hash seeds, shifted environment): outcome + file hash."""
    import os
    import subprocess

    code = (
        "import json,sys,hashlib\n"
        "sys.path.insert(0, %r)\n"
        "from cbv import prop_common as pc\n"
        "case = json.loads(sys.stdin.read())\n"
        "res, mesh = pc.run_write(case)\n"
        "print(res['outcome'], hashlib.sha1(res.get('text','').encode()).hexdigest())\n"
    ) % str(core.ROOT)
    outs = []
    for k in range(runs):
        env = dict(os.environ, PYTHONHASHSEED=str(k * 7919 + 1), CBV_PAD="x" * (1 + 257 * k))
        p = subprocess.run(["/venv/bin/python", "-c", code], input=json.dumps(case), capture_output=True, text=True, env=env, timeout=120)
        outs.append((p.stdout.strip().splitlines() or ["crash " + p.stderr[-200:]])[-1])
    return outs


class C02(C01):
    pid = "C02"
    props_module = "CBV.Props.C02"
    # C02 is about the loop (termination, completeness, order): M-PROP on the schedule as the implementation holds it
    model_paths = ("prop",)
    modes = [("well", 0.27), ("under", 0.25), ("sandwich", 0.18), ("double", 0.1), ("conflict", 0.1), ("row", 0.1)]
    rule = (
        C01.rule
        + " Plus: per case the step-by-step trace of Axis.copy_grading calls (compared with M-PROP°), a second run of "
        "the same script with shifted object addresses (same file / same error required) and a run with permuted "
        "insertion order and re-drawn corner numberings (same outcome class and same count per block direction required)."
    )
    assumptions = C01.PROP_ASSUMPTIONS + [
        "the work-list `undefined_blocks` (a set of small ints) is iterated in ascending order (CPython) — validated by the call trace",
        "a hang is observed as 'no return within 20 s'",
    ]
    partial_note = (
        "run-to-run determinism of CPython itself (address-ordered sets) is outside the model: it is checked by re-running "
        "each script with shifted heap addresses; a hang is observed as a time-out"
    )

    def gen_cases(self, rng: random.Random, tier: str) -> List[dict]:
        cases = super().gen_cases(rng, tier)
        cases = cases[: (300 if tier == "quick" else 3000)]
        # run-to-run determinism proper: a few scripts are also executed in fresh interpreters
        k = 0
        for c in cases:
            if c["kind"] in ("double", "sandwich") and k < (2 if tier == "quick" else 24):
                c["fresh_interpreters"] = True
                k += 1
        # … and those where a block carries two slave patches of merged pairs (its corners on both are looked up by a
        # *set* of patch names, whose iteration order depends on the string hash seed)
        k = 0
        for c in cases:
            cuts = c.get("asm", {}).get("cuts", [])
            two = len(cuts) == 2 and (all("plane" in x for x in cuts) or (not any("plane" in x for x in cuts) and cuts[0]["b"] == cuts[1]["b"]))
            if two and k < (4 if tier == "quick" else 30):
                c["fresh_interpreters"] = True
                k += 1
        # lone blocks with 0..3 chopped directions (nothing to propagate from: undefined unless all three are chopped)
        for k in range(6 if tier == "quick" else 40):
            asm = pc.gen_assembly(rng, 1)
            axes = rng.sample(range(3), k % 4)
            cases.append({"kind": "lone", "asm": asm, "chops": [{"block": 0, "axis": a, "calls": pc.gen_chop(rng, ["count", "count_c2c"])} for a in axes]})
        # stacks chopped with one Stack.chop call (oracle only: no model request)
        for _ in range(10 if tier == "quick" else 120):
            cases.append(pc.gen_stack_case(rng))
        return cases

    def run_impl(self, case: dict) -> Any:
        if case["kind"] == "stack":
            return pc.run_stack(case)
        obs = pc.prepare(case)
        obs["trace"] = propagation_trace(case)
        rng = random.Random(json.dumps(case, sort_keys=True))
        # the same script again, with the heap shifted
        junk = [object() for _ in range(rng.randint(1, 4000))]
        again = pc.prepare(case)
        del junk
        obs["again"] = {"outcome": again["outcome"], "text_sha": again.get("text_sha"), "message": again.get("message"),
                        "second": (again.get("second") or {}).get("outcome")}
        # permuted insertion order, new corner numberings
        n = len(case["asm"]["blocks"])
        order = list(range(n))
        rng.shuffle(order)
        rots = [rng.randrange(24) for _ in range(n)]
        perm = pc.prepare(case, order=order, rots=rots)
        obs["perm"] = {"outcome": perm["outcome"], "counts": geometric_counts(case, perm, rots), "order": order, "rots": rots,
                       "second": (perm.get("second") or {}).get("outcome")}
        obs["geo_counts"] = geometric_counts(case, obs)
        if case.get("fresh_interpreters"):
            obs["fresh"] = fresh_interpreter_outcomes(case)
        return obs

    def classify(self, case, impl):
        return "stack" if case["kind"] == "stack" else super().classify(case, impl)

    def nontrivial_key(self, case, impl):
        return json.dumps(case, sort_keys=True) if case["kind"] == "stack" else super().nontrivial_key(case, impl)

    def shrink_candidates(self, case: dict) -> List[dict]:
        return [] if case["kind"] == "stack" else super().shrink_candidates(case)

    def requests(self, case: dict, impl: Any) -> List[str]:
        if case["kind"] == "stack":
            return []
        reqs = super().requests(case, impl)
        tr = impl.get("trace", {})
        if "adj" in tr and tr.get("outcome") in ("ok", "undefined"):
            n = len(tr["adj"]) // 3
            adj = ";".join(",".join(map(str, v)) for v in tr["adj"])
            reqs.append(f"c02.trace {n} {adj} [{','.join(map(str, tr['d0']))}]")
        return reqs

    def compare(self, case: dict, impl: Any, model: List[str]) -> Optional[str]:
        if case["kind"] == "stack":
            return None
        tr = impl.get("trace", {})
        k = len(C01.requests(self, case, impl))
        if k:
            why = C01.compare(self, case, impl, model[:k])
            if why:
                return why
        if "adj" in tr and tr.get("outcome") in ("ok", "undefined"):
            want = f"{tr['outcome']} " + ",".join(f"{a}:{r}" for a, r in tr["calls"]) + "."
            if model[k] != want:
                return f"copy_grading trace: implementation {want[:400]} / M-PROP° {model[k][:400]}"
        return None

    def oracle(self, case: dict, impl: Any) -> List[dict]:
        out: List[dict] = []
        if case["kind"] == "stack":
            return pc.oracle_stack(case, impl)
        exp = pc.expected_outcome(case)
        oc = impl["outcome"]
        if oc == "hang" or impl.get("trace", {}).get("outcome") == "hang":
            return [{"site": "Mesh.write:hang", "what": "propagation did not return within the time limit"}]
        if impl.get("unrealisable") or impl.get("extreme") or impl.get("chop_error"):
            return out  # a ValueError is the expected refusal of a preserved size that does not fit (C03's clause)
        if exp == "undefined" and oc != "UndefinedGradingsError":
            out.append({"site": "Mesh.write:family-without-chop-not-reported-as-undefined", "what": f"outcome {oc}"})
        if exp in ("ok", "any", "inconsistent") and oc == "UndefinedGradingsError":
            out.append({"site": "Mesh.write:undefined-although-every-family-is-chopped", "what": impl.get("message")})
        if exp == "ok" and oc != "ok":
            out.append({"site": f"Mesh.write:well-posed-model-not-written-{oc}", "what": impl.get("message")})
        if oc != "ok" and impl.get("file_written"):
            out.append({"site": "Mesh.write:partial-file-after-error", "what": oc})
        if oc == "ok" and exp in ("ok", "any"):
            # every direction of a family carries the count derived from its chop
            fam_of, members = pc.families(case["asm"])
            gc = impl["geo_counts"]
            for ch in case["chops"]:
                if all("count" in kw for kw in ch["calls"]):
                    tot = sum(int(kw["count"]) for kw in ch["calls"])
                    for b, a in members[fam_of[(ch["block"], ch["axis"])]]:
                        d, _ = pc.axis_direction(case["asm"]["blocks"][b]["rot"], a)
                        if gc[f"{b}:{d}"] != tot:
                            out.append(
                                {
                                    "site": "hex:family-member-without-the-chop-count",
                                    "what": f"chop {ch} gives {tot}; block {b} axis {a} has {gc[f'{b}:{d}']}",
                                }
                            )
                            break
        # the same mesh written a second time: it must terminate, and — when no vertex was moved in between —
        # end the same way with the same file
        sec = impl.get("second") or {}
        if sec.get("outcome") == "hang":
            out.append({"site": "Mesh.write:hang:second-write", "what": "the second write of the same mesh did not return"})
        elif sec.get("outcome") and not sec.get("stretched"):
            if sec["outcome"] != oc:
                out.append({"site": "Mesh.write:second-write-ends-differently", "what": f"first {oc}, second {sec['outcome']} ({sec.get('message')})"})
            elif oc == "ok" and sec.get("same_text") is False:
                out.append({"site": "Mesh.write:second-write-different-file", "what": "two writes of the same mesh differ"})
        # chops placed on blocks of the assembled mesh afterwards (Block.chop), then written again
        th = impl.get("third") or {}
        if th.get("outcome"):
            exp3 = pc.expected_outcome(case, late=True)
            o3 = th["outcome"]
            if o3 == "hang":
                out.append({"site": "Mesh.write:hang:after-late-chops", "what": "write after late chops did not return"})
            elif exp3 == "undefined" and o3 != "UndefinedGradingsError":
                out.append({"site": "Mesh.write:family-without-chop-not-reported-as-undefined:after-late-chops", "what": f"outcome {o3}"})
            elif exp3 != "undefined" and o3 == "UndefinedGradingsError":
                out.append({"site": "Mesh.write:undefined-although-every-family-is-chopped:after-late-chops", "what": f"late chops {case.get('late')}: {th.get('message')}"})
            elif exp3 == "ok" and o3 != "ok":
                out.append({"site": f"Mesh.write:well-posed-model-not-written-{o3}:after-late-chops", "what": th.get("message")})
            if o3 != "ok" and th.get("file_written"):
                out.append({"site": "Mesh.write:partial-file-after-error:after-late-chops", "what": o3})
            if o3 == "ok" and exp3 in ("ok", "any"):
                fam_of, members = pc.families(case["asm"])
                gc = geometric_counts(case, {"outcome": "ok", "hex": th["hex"], "order": impl["order"]})
                for ch in case["chops"] + case.get("late", []):
                    if all("count" in kw for kw in ch["calls"]):
                        tot = sum(int(kw["count"]) for kw in ch["calls"])
                        bad = [(b, a) for b, a in members[fam_of[(ch["block"], ch["axis"])]]
                               if gc[f"{b}:{pc.axis_direction(case['asm']['blocks'][b]['rot'], a)[0]}"] != tot]
                        if bad:
                            out.append({"site": "hex:family-member-without-the-chop-count:after-late-chops",
                                        "what": f"chop {ch} gives {tot}; block/axis {bad[0]} has another count"})
                            break
        ag = impl["again"]
        for name in ("again", "perm"):
            if impl[name].get("second") == "hang":
                out.append({"site": "Mesh.write:hang:second-write", "what": f"second write did not return ({name}: {impl[name].get('order')} {impl[name].get('rots')})"})
        if ag["outcome"] != oc or ag.get("text_sha") != impl.get("text_sha"):
            out.append(
                {
                    "site": "Mesh.write:same-script-different-result",
                    "what": f"first run {oc}/{impl.get('text_sha')}, second run {ag['outcome']}/{ag.get('text_sha')}",
                }
            )
        if "fresh" in impl and len(set(impl["fresh"])) > 1:
            out.append({"site": "Mesh.write:fresh-interpreters-disagree", "what": str(impl["fresh"])})
        pm = impl["perm"]
        if exp != "any" and pm["outcome"] != "hang":
            if pm["outcome"] != oc:
                out.append(
                    {
                        "site": "Mesh.write:outcome-depends-on-insertion-order-or-numbering",
                        "what": f"{oc} vs {pm['outcome']} with order {pm['order']} rots {pm['rots']}",
                    }
                )
            elif oc == "ok" and pm["counts"] != impl["geo_counts"]:
                out.append(
                    {
                        "site": "hex:counts-depend-on-insertion-order-or-numbering",
                        "what": f"{impl['geo_counts']} vs {pm['counts']} with order {pm['order']} rots {pm['rots']}",
                    }
                )
        if pm["outcome"] == "hang":
            out.append({"site": "Mesh.write:hang", "what": f"order {pm['order']} rots {pm['rots']}"})
        return out


if __name__ == "__main__":
    sys.exit(core.main(C02()))
