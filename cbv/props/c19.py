"""C19 — grid, slice and core/shell addressing of sketches, shapes and stacks is geometric.

stack cases: `ExtrudedStack / RevolvedStack / TransformedStack(Grid(nx, ny), …, nz)` in a random placement; every operation
of `stack.grid`, `stack.operations` and of every `get_slice(axis, index)` is identified *geometrically* (its bottom / top
face centre is matched against the centres the harness computes itself from the lattice and its own rotation code) and
compared with the Lean model (c19.grid / c19.ops / c19.slice / c19.delete); `Mesh.delete(stack.grid[k][j][i])` is
observed on the written file.  round cases: every round sketch / shape in a random placement, its topology, partition
and core/shell lists are compared with the generated table row the theorems were decided on, and the oracle checks
"shell = on the outer surface" geometrically.
"""

from __future__ import annotations

import json
import math
import os
import random
import re
import sys
import tempfile
import warnings
from typing import Any, Dict, List, Optional, Tuple

from .. import core

KNOWN_WRAPPED = "WrappedDisk.core/shell:middle-ring-in-neither-list"
KNOWN_WRAPPED_SHAPE = "RoundSolidShape(WrappedDisk).shell:holds-inner-ring"

SKETCHES = [
    "OneCoreDisk", "QuarterDisk", "HalfDisk", "FourCoreDisk", "WrappedDisk", "Oval", "Annulus4", "Annulus8", "Annulus5",
    "Annulus3", "Annulus6", "Annulus7", "Annulus12",  # no table row: answered by the parametric model `annulusCells n`
    "QuarterSplineDisk", "HalfSplineDisk", "SplineDisk", "QuarterSplineRing", "HalfSplineRing", "SplineRing",
]
SHAPES = ["Cylinder", "SemiCylinder", "Frustum", "Elbow", "ExtrudedRing4", "ExtrudedRing8", "ExtrudedRing5", "ExtrudedRing6",
          "ExtrudedRing12", "EighthSphere", "Hemisphere"] + [
    f"RoundSolidShape({n})" for n in SKETCHES if not n.startswith("Annulus") and "Ring" not in n
]


# ------------------------------------------------------------------------------------------- own geometry (no library code)
def rot(v, axis, angle):
    """Rodrigues rotation of v about a unit axis through the origin"""
    c, s = math.cos(angle), math.sin(angle)
    d = sum(a * b for a, b in zip(axis, v))
    cr = [axis[1] * v[2] - axis[2] * v[1], axis[2] * v[0] - axis[0] * v[2], axis[0] * v[1] - axis[1] * v[0]]
    return [v[i] * c + cr[i] * s + axis[i] * d * (1 - c) for i in range(3)]


def rot_about(p, axis, angle, origin):
    q = rot([p[i] - origin[i] for i in range(3)], axis, angle)
    return [q[i] + origin[i] for i in range(3)]


def unit(v):
    n = math.sqrt(sum(x * x for x in v))
    return [x / n for x in v]


def dist(a, b) -> float:
    return math.sqrt(sum((x - y) ** 2 for x, y in zip(a, b)))


def place(p, pl):
    q = rot(p, unit(pl["axis"]), pl["angle"])
    return [q[i] + pl["t"][i] for i in range(3)]


def unplace(p, pl):
    """inverse of `place` (the harness's own rotation code)"""
    return rot([p[i] - pl["t"][i] for i in range(3)], unit(pl["axis"]), -pl["angle"])


def local_amount(case: dict) -> List[float]:
    """the overall extrusion vector of an extruded stack in the frame of the un-placed grid"""
    if case.get("amount_vec"):
        return rot(list(case["amount_vec"]), unit(case["placement"]["axis"]), -case["placement"]["angle"])
    return [0.0, 0.0, float(case["amount"])]


def expected_centres(case: dict) -> Dict[Tuple[int, int, int], List[float]]:
    """centre of the sketch face over cell (i, j) on level k, k = 0..nz"""
    nx, ny, nz = case["nx"], case["ny"], case["nz"]
    (x0, y0), (x1, y1) = case["p1"], case["p2"]
    pl = case["placement"]
    dx, dy = (x1 - x0) / nx, (y1 - y0) / ny
    n = rot([0.0, 0.0, 1.0], unit(pl["axis"]), pl["angle"])
    out = {}
    for i in range(nx):
        for j in range(ny):
            c = place([x0 + (i + 0.5) * dx, y0 + (j + 0.5) * dy, 0.0], pl)
            for k in range(nz + 1):
                out[(i, j, k)] = c
                # next level
                if case["stack"] == "extruded" and case.get("amount_vec"):
                    c = [c[d] + case["amount_vec"][d] / nz for d in range(3)]
                elif case["stack"] == "extruded":
                    c = [c[d] + n[d] * case["amount"] / nz for d in range(3)]
                elif case["stack"] == "revolved":
                    a = rot([0.0, 1.0, 0.0], unit(pl["axis"]), pl["angle"])
                    c = rot_about(c, a, case["angle"] / nz, place([0.0, 0.0, 0.0], pl))
                else:
                    v = case["shift"]
                    c = [c[d] + v[d] for d in range(3)]
                    c = rot_about(c, n, case["twist"], place([0.0, 0.0, 0.0], pl))
    return out


def build_stack(case: dict):
    import classy_blocks as cb
    from classy_blocks.base import transforms as tr

    pl = case["placement"]
    grid = cb.Grid([*case["p1"], 0.0], [*case["p2"], 0.0], case["nx"], case["ny"])
    grid.rotate(pl["angle"], pl["axis"], [0.0, 0.0, 0.0])
    grid.translate(pl["t"])
    if case["stack"] == "extruded" and case.get("amount_vec"):
        import numpy as np

        # the overall height as a float array the caller keeps using: a first stack is built from it, then the observed one
        height = np.array(case["amount_vec"], dtype=float)
        cb.ExtrudedStack(grid.copy(), height, case["nz"])
        stack = cb.ExtrudedStack(grid, height, case["nz"])
        stack.cbv_amount_intact = bool(np.array_equal(height, np.array(case["amount_vec"], dtype=float)))
        return stack
    if case["stack"] == "extruded":
        return cb.ExtrudedStack(grid, float(case["amount"]), case["nz"])
    if case["stack"] == "revolved":
        a = rot([0.0, 1.0, 0.0], unit(pl["axis"]), pl["angle"])
        return cb.RevolvedStack(grid, case["angle"], a, place([0.0, 0.0, 0.0], pl), case["nz"])
    n = rot([0.0, 0.0, 1.0], unit(pl["axis"]), pl["angle"])
    return cb.TransformedStack(
        grid, [tr.Translation(case["shift"]), tr.Rotation(n, case["twist"], place([0.0, 0.0, 0.0], pl))], case["nz"]
    )


def nearest(p, centres: Dict[Tuple[int, int, int], List[float]], tol: float, levels=None) -> Optional[Tuple[int, int, int]]:
    """the cell whose expected centre is at p; `levels` restricts the level (a bottom face is never on the last level, a
    top face never on level 0: in a stack revolved by a full turn these two coincide)"""
    best, bd = None, 1e99
    for key, c in centres.items():
        if levels is not None and key[2] not in levels:
            continue
        d = dist(p, c)
        if d < bd:
            best, bd = key, d
    return best if bd < tol else None


def delete_when(case: dict) -> str:
    """when `mesh.delete(addressed operation)` is called: before `mesh.add`, after it (both before any assemble), or after
    `mesh.assemble()` and followed by `mesh.backport()` (the order of examples/stack/cube.py with the delete moved up)"""
    return case.get("delete_when") or ("before_add" if case.get("delete_first") else "after_add")


def lab(b, t) -> str:
    f = lambda x: "?" if x is None else f"{x[0]}.{x[1]}.{x[2]}"
    return f(b) + "~" + f(t)


# ------------------------------------------------------------------------------------------- round things
def build_round(case: dict):
    """(kind, instance) of a sketch / shape in the placement of the case"""
    import numpy as np

    import classy_blocks as cb
    from classy_blocks.base import transforms as tr
    from classy_blocks.construct.flat.sketches import disk, spline_round
    from classy_blocks.construct.flat.sketches.annulus import Annulus
    from classy_blocks.construct.shapes.round import RoundSolidShape
    from classy_blocks.construct.shapes.sphere import EighthSphere, Hemisphere

    pl = case["placement"]
    c = np.array(pl["t"])
    n = np.array(rot([0.0, 0.0, 1.0], unit(pl["axis"]), pl["angle"]))
    e1 = np.array(rot([1.0, 0.0, 0.0], unit(pl["axis"]), pl["angle"]))
    e2 = np.array(rot([0.0, 1.0, 0.0], unit(pl["axis"]), pl["angle"]))
    R = case["radius"]

    def sketch(name: str):
        if name in ("OneCoreDisk", "QuarterDisk", "HalfDisk", "FourCoreDisk"):
            return getattr(disk, name)(c, c + R * e1, n)
        if name == "WrappedDisk":
            return disk.WrappedDisk(c, c + 2 * R * (e1 + e2), 0.9 * R, n)
        if name == "Oval":
            return disk.Oval(c, c + 2.5 * R * e1, n, 0.8 * R)
        if name.startswith("Annulus"):
            return Annulus(c, c + R * e1, n, 0.4 * R, int(name[7:]))
        if name.endswith("SplineDisk"):
            return getattr(spline_round, name)(c, c + R * e1, c + R * e2, 0.0, 0.0)
        return getattr(spline_round, name)(c, c + R * e1, c + R * e2, 0.0, 0.0, 0.3 * R, 0.3 * R)

    name = case["name"]
    if case["kind"] == "sketch":
        return sketch(name)
    L = case["length"]
    if name == "Cylinder":
        return cb.Cylinder(c, c + L * n, c + R * e1)
    if name == "SemiCylinder":
        return cb.SemiCylinder(c, c + L * n, c + R * e1)
    if name == "Frustum":
        return cb.Frustum(c, c + L * n, c + R * e1, 0.45 * R)
    if name == "Elbow":
        return cb.Elbow(c, c + R * e1, n, math.pi / 3, c + 3 * R * e1, e2, 0.7 * R)
    if name.startswith("ExtrudedRing"):
        return cb.ExtrudedRing(c, c + L * n, c + R * e1, 0.5 * R, int(name[12:]))
    if name == "EighthSphere":
        return EighthSphere(c, c + R * e1, n)
    if name == "Hemisphere":
        return Hemisphere(c, c + R * e1, n)
    m = re.fullmatch(r"RoundSolidShape\((\w+)\)", name)
    return RoundSolidShape(sketch(m.group(1)), [tr.Translation(L * n)])


FAN_DISKS = ("OneCoreDisk", "QuarterDisk", "HalfDisk", "FourCoreDisk")


def table_name(name: str) -> Optional[str]:
    """the generated table has rows for these only (ring shapes: 4, 5, 8 segments)"""
    if name.startswith("ExtrudedRing") and name[12:] not in ("4", "5", "8"):
        return None
    return name


class C19(core.Check):
    pid = "C19"
    props_module = "CBV.Props.C19"
    workers = 8
    rule = (
        "stack cases: Grid of nx x ny (1..5 each) cells with unequal sides, nz (1..4) tiers, extruded / revolved / "
        "transformed (translation + twist), random rigid placement; observed are all of stack.grid, stack.operations, "
        "get_slice for every axis 0..2 and every index 0..size (size itself: rejected with an exception), and the blocks written after "
        "Mesh.delete of one addressed operation (called before add, after add, or after assemble() and followed by backport()), the corner points of every addressed face (un-placed) and the operations chopped by "
        "Stack.chop. round cases: each of 15 sketch classes and 11 + 9 shape constructions in a "
        "random placement and size. Non-trivial = every case (sizes 1x1x1 included as boundary); distinct = different "
        "sizes/kind/placement. The thorough tier enumerates all 5 x 5 x 4 sizes for each of the three stack kinds."
    )
    assumptions = [
        "a cell of a cartesian sketch is identified by the centre of its face (linspace is strictly monotone); centres of "
        "distinct cells are at least 0.1 apart, matching tolerance 1e-6",
        "round sketches are probed with circular parameters (side lengths 0); their topology does not depend on the sizes",
        "python list semantics of the modelled loops are validated by correspondence, not verified",
    ]
    partial_note = (
        "the theorems on cartesian stacks are for all sizes, incl. where the corner points of every Grid face and every extruded tier "
        "are (over Q); revolved tiers have a location theorem (T_C19_revolved_geometry) on a model that is not driven through the driver, revolved / twisted tiers are located by the harness. Faces, grid, core, shell of the round sketch classes are "
        "computed by the model from the ast-regenerated source text; for OneCoreDisk / QuarterDisk / HalfDisk / FourCoreDisk (and, theorem only, WrappedDisk and Oval) the rim is "
        "proved on the exact positions for every placement, for the other round sketches and the shapes it is still computed geometrically "
        "on *probe* instances (`decide` on those tables; other placements: correspondence + geometric oracle); the point renumbering of "
        "MappedSketch.merge is modelled and proved (T_C19_merge) but not compared with the implementation; negative indices / axis outside 0..2 are C20's business"
    )

    # ------------------------------------------------------------------ generators
    def _placement(self, rng: random.Random) -> dict:
        axis = [rng.choice([-2, -1, 1, 2, 3]), rng.choice([-3, -1, 0, 1, 2]), rng.choice([-1, 0, 1, 2])]
        return {
            "axis": [float(a) for a in axis],
            "angle": round(rng.uniform(-3.0, 3.0), 3),
            "t": [round(rng.uniform(-2, 2), 2) for _ in range(3)],
        }

    def _stack_case(self, rng: random.Random, nx: int, ny: int, nz: int, kind: str) -> dict:
        case: Dict[str, Any] = {"kind": "stack", "stack": kind, "nx": nx, "ny": ny, "nz": nz, "placement": self._placement(rng)}
        if kind == "revolved":
            x0 = round(rng.uniform(1.0, 2.0), 2)
            case["p1"] = [x0, round(rng.uniform(-1, 1), 2)]
            r = rng.random()
            if r < 0.45:
                case["angle"] = round(rng.uniform(0.4, 1.5), 3)
            elif r < 0.65:
                case["angle"] = -round(rng.uniform(0.4, 1.5), 3)  # revolved the other way
            else:
                # a full turn (the last tier ends where the first one starts), either way
                case["angle"] = 2 * math.pi * (1 if r < 0.85 else -1)
                case["nz"] = nz = max(nz, 3)
        else:
            case["p1"] = [round(rng.uniform(-1, 1), 2), round(rng.uniform(-1, 1), 2)]
        case["p2"] = [case["p1"][0] + round(rng.uniform(0.2, 0.5), 2) * nx, case["p1"][1] + round(rng.uniform(0.25, 0.6), 2) * ny]
        if rng.random() < 0.25:
            # map coordinates: far from the origin compared with the size of a cell
            case["placement"]["t"] = [500000.0 + round(rng.uniform(0, 50), 2), 5000000.0 + round(rng.uniform(0, 50), 2), 120.5]
        if kind == "extruded":
            case["amount"] = round(rng.uniform(0.3, 0.7), 2) * nz
            if rng.random() < 0.4:
                # the height given as a (slightly oblique) vector, a float array
                n = rot([0.0, 0.0, 1.0], unit(case["placement"]["axis"]), case["placement"]["angle"])
                e = rot([1.0, 0.0, 0.0], unit(case["placement"]["axis"]), case["placement"]["angle"])
                case["amount_vec"] = [n[d] * case["amount"] + 0.1 * e[d] for d in range(3)]
        if kind == "transformed":
            n = rot([0.0, 0.0, 1.0], unit(case["placement"]["axis"]), case["placement"]["angle"])
            h = round(rng.uniform(0.3, 0.6), 2)
            case["shift"] = [n[d] * h + 0.05 * ((d + 1) % 3) for d in range(3)]
            case["twist"] = round(rng.uniform(-0.3, 0.3), 3)
        case["delete"] = [rng.randrange(nx), rng.randrange(ny), rng.randrange(nz)]
        # mesh.delete(op) before mesh.add(stack) / after it / after assemble() and before backport()
        case["delete_when"] = rng.choice(["before_add", "after_add", "after_add", "after_assemble", "after_assemble"])
        if case["delete_when"] == "after_assemble" and rng.random() < 0.5:
            case["uniform_chops"] = True
        if nx * ny * nz <= 12 and rng.random() < 0.4:
            # the mesh also holds a translated copy of the stack (deep copies of the operations)
            case["copy"] = [30.0 + rng.randrange(5), -20.0, 10.0 + rng.randrange(3)]
            case["delete_in"] = rng.choice(["orig", "copy"])
        return case

    def gen_cases(self, rng: random.Random, tier: str) -> List[dict]:
        cases: List[dict] = []
        kinds = ["extruded", "revolved", "transformed"]
        if tier == "quick":
            for n in range(36):
                case = self._stack_case(rng, rng.randint(1, 5), rng.randint(1, 5), rng.randint(1, 4), kinds[n % 3])
                if case["nx"] * case["ny"] * case["nz"] > 24:
                    case["delete"] = None  # assembling many blocks is slow; the thorough tier deletes in every size
                cases.append(case)
        else:
            for kind in kinds:
                for nx in range(1, 6):
                    for ny in range(1, 6):
                        for nz in range(1, 5):
                            cases.append(self._stack_case(rng, nx, ny, nz, kind))
        for n in range(9 if tier == "quick" else 36):
            shape = ["RevolvedRing", "ExtrudedRing", "Cylinder"][n % 3]
            cases.append(
                {
                    "kind": "ringdel",
                    "shape": shape,
                    "n": rng.choice([4, 5, 8, 12]),
                    "s": rng.randrange(12),
                    "delete_when": rng.choice(["before_add", "after_add", "after_assemble"]),
                    "placement": self._placement(rng),
                    "radius": round(rng.uniform(0.5, 2.0), 2),
                }
            )
        reps = 2 if tier == "quick" else 6
        for _ in range(reps):
            for name in SKETCHES:
                cases.append({"kind": "sketch", "name": name, "placement": self._placement(rng), "radius": round(rng.uniform(0.5, 2.0), 2)})
            for name in SHAPES:
                cases.append(
                    {
                        "kind": "shape",
                        "name": name,
                        "placement": self._placement(rng),
                        "radius": round(rng.uniform(0.5, 2.0), 2),
                        "length": round(rng.uniform(0.5, 3.0), 2),
                    }
                )
        return cases

    # ------------------------------------------------------------------ implementation
    def run_impl(self, case: dict) -> Any:
        warnings.simplefilter("ignore")
        if case["kind"] == "stack":
            return self._run_stack(case)
        if case["kind"] == "ringdel":
            return self._run_ringdel(case)
        return self._run_round(case)

    def _run_ringdel(self, case: dict) -> Any:
        """delete one addressed operation of a ring / cylinder (ring segments are rotated copies of one operation)"""
        import numpy as np

        import classy_blocks as cb

        pl = case["placement"]
        R, n = case["radius"], case["n"]
        P = lambda p: place([R * x for x in p], pl)
        if case["shape"] == "RevolvedRing":
            face = cb.Face([P([0, 1, 0]), P([1, 1, 0]), P([1, 2, 0]), P([0, 2, 0])])
            shape = cb.RevolvedRing(P([0, 0, 0]), P([1, 0, 0]), face, n)
        elif case["shape"] == "ExtrudedRing":
            shape = cb.ExtrudedRing(P([0, 0, 0]), P([0, 0, 1.5]), P([1, 0, 0]), 0.5 * R, n)
        else:
            shape = cb.Cylinder(P([0, 0, 0]), P([0, 0, 1.5]), P([1, 0, 0]))
        ops = list(shape.operations)
        centres = [[float(x) for x in op.center] for op in ops]
        for op in ops:
            for axis in range(3):
                op.chop(axis, count=2)
        mesh = cb.Mesh()
        addressed = shape.shell[case["s"] % len(shape.shell)]
        s_index = [i for i, op in enumerate(ops) if op is addressed][0]
        when = delete_when(case)
        if when == "before_add":
            mesh.delete(addressed)
            mesh.add(shape)
        elif when == "after_add":
            mesh.add(shape)
            mesh.delete(addressed)
        else:
            mesh.add(shape)

        def block_centres(off=(0.0, 0.0, 0.0)) -> Any:
            fd, path = tempfile.mkstemp(prefix="cbv-c19-")
            os.close(fd)
            try:
                mesh.write(path)
                text = open(path, encoding="utf-8").read()
            finally:
                os.unlink(path)
            verts = [[float(x) for x in m.groups()] for m in re.finditer(r"^\t\((\S+) (\S+) (\S+)\) // \d+$", text, re.M)]
            out = []
            for m in re.finditer(r"^\thex \( ([\d ]+) \)", text, re.M):
                c = np.mean([verts[int(v)] for v in m.group(1).split()], axis=0).tolist()
                c = [c[d] - off[d] for d in range(3)]
                d = [dist(c, q) for q in centres]
                out.append(d.index(min(d)) if min(d) < 1e-5 * max(1.0, R) else -1)
            return out

        res = []
        try:
            if when == "after_assemble":
                mesh.assemble()
                mesh.delete(addressed)
                mesh.backport()
            res.append(block_centres())
            mesh.backport()
            res.append(block_centres())
            mesh.clear()
            mesh.assemble()
            res.append(block_centres())
            w = [3.0, -2.0, 1.5]
            shape.translate(w)
            mesh.clear()
            mesh.assemble()
            res.append(block_centres(w))
        except Exception as e:
            res.append(type(e).__name__)
        return {"n_ops": len(ops), "deleted": s_index, "blocks": res}

    def _run_stack(self, case: dict) -> Any:
        import numpy as np

        import classy_blocks as cb

        nx, ny, nz = case["nx"], case["ny"], case["nz"]
        stack = build_stack(case)
        centres = expected_centres(case)
        tol = 1e-6
        labels: Dict[int, str] = {}
        grid = []
        dims_ok = len(stack.grid) == nz and all(len(s) == ny and all(len(r) == nx for r in s) for s in stack.grid)
        for shape_grid in stack.grid:
            g2 = []
            for row in shape_grid:
                r2 = []
                for op in row:
                    l = lab(
                        nearest(op.bottom_face.center.tolist(), centres, tol, range(nz)),
                        nearest(op.top_face.center.tolist(), centres, tol, range(1, nz + 1)),
                    )
                    labels[id(op)] = l
                    r2.append(l)
                g2.append(r2)
            grid.append(g2)
        ops = [labels.get(id(op), "?") for op in stack.operations]
        slices = {}
        for axis, size in ((0, nx), (1, ny), (2, nz)):
            for idx in range(size + 1):
                try:
                    sl = stack.get_slice(axis, idx)
                    slices[f"{axis}:{idx}"] = [labels.get(id(op), "?") for op in sl]
                except Exception as e:
                    slices[f"{axis}:{idx}"] = type(e).__name__
        # where the faces are: the points of the bottom / top face of every addressed operation, in the frame of the
        # un-placed grid (tier 0 for every kind of stack, all tiers for extruded stacks)
        pl = case["placement"]
        pts = []
        for kk, shape_grid in enumerate(stack.grid):
            if kk > 0 and case["stack"] != "extruded":
                break
            pts.append([[[[unplace(q, pl) for q in face.point_array.tolist()] for face in (op.bottom_face, op.top_face)]
                         for op in row] for row in shape_grid])
        # Stack.chop: which operations receive a chop, on which axis (the chops are taken off again afterwards)
        chopped: Any = []
        try:
            stack.chop(count=3)
            for op in stack.operations:
                n_chops = [len(op.chops[a]) for a in range(3)]
                if n_chops != [0, 0, 0]:
                    chopped.append([labels.get(id(op), "?"), n_chops])
        except Exception as e:
            chopped = type(e).__name__
        for op in stack.operations:
            op.chops = {0: [], 1: [], 2: []}
        # delete one addressed operation and look at the written blocks
        deleted: Any = None
        attrs: List[Any] = []
        if case["delete"] is None:
            return {"dims_ok": dims_ok, "grid": grid, "ops": ops, "slices": slices, "deleted": None, "pts": pts, "chopped": chopped}
        i, j, k = case["delete"]
        # every addressed operation gets its own cell zone and the counts of its column / row / tier
        # (operations sharing an edge agree): deleting one must leave the others as they are
        for kk in range(nz):
            for jj in range(ny):
                for ii in range(nx):
                    op = stack.grid[kk][jj][ii]
                    op.set_cell_zone(f"z{ii}_{jj}_{kk}")
                    if case.get("uniform_chops"):
                        # the same count everywhere: blocks that end up over another cell still grade, so they are *seen* there
                        for axis in range(3):
                            op.chop(axis, count=2)
                    else:
                        op.chop(0, count=2 + ii)
                        op.chop(1, count=7 + jj)
                        op.chop(2, count=13 + kk)
        # optionally a translated copy of the whole stack in the same mesh (its operations are deep copies)
        shift = case.get("copy")
        other = stack.copy().translate(shift) if shift else None
        mesh = cb.Mesh()
        target = (other if (other is not None and case.get("delete_in") == "copy") else stack).grid[k][j][i]
        when = delete_when(case)
        if when == "before_add":
            mesh.delete(target)  # add() and delete() only collect input for assemble(): their order does not matter
        mesh.add(stack)
        if other is not None:
            mesh.add(other)
        centres_c = {key: [c[d] + shift[d] for d in range(3)] for key, c in centres.items()} if shift else {}

        def blocks_of(text: str, off=(0.0, 0.0, 0.0)):
            verts = [
                [float(x) - off[d] for d, x in enumerate(m.groups())]
                for m in re.finditer(r"^\t\((\S+) (\S+) (\S+)\) // \d+$", text, re.M)
            ]
            labels_, attrs_ = [], []
            for m in re.finditer(r"^\thex \( ([\d ]+) \) (\S*) \( ([\d ]+) \)", text, re.M):
                vi = [int(x) for x in m.group(1).split()]
                b = np.mean([verts[v] for v in vi[:4]], axis=0).tolist()
                t = np.mean([verts[v] for v in vi[4:]], axis=0).tolist()
                kb, kt = nearest(b, centres, 1e-5, range(nz)), nearest(t, centres, 1e-5, range(1, nz + 1))
                prefix = ""
                if (kb is None or kt is None) and shift:
                    kb, kt = nearest(b, centres_c, 1e-5, range(nz)), nearest(t, centres_c, 1e-5, range(1, nz + 1))
                    prefix = "c:"
                labels_.append(prefix + lab(kb, kt))
                attrs_.append([labels_[-1], m.group(2), [int(x) for x in m.group(3).split()]])
            return labels_, attrs_

        def write_text() -> str:
            fd, path = tempfile.mkstemp(prefix="cbv-c19-")
            os.close(fd)
            try:
                mesh.write(path)
                return open(path, encoding="utf-8").read()
            finally:
                os.unlink(path)

        round_trips: List[Any] = []
        try:
            if when == "after_add":
                mesh.delete(target)
            elif when == "after_assemble":
                # the blocks exist already when the operation is deleted; backport() updates the operations from the blocks
                # (each from its own) and re-assembles without the deleted one
                mesh.assemble()
                mesh.delete(target)
                mesh.backport()
            deleted, attrs = blocks_of(write_text())
            # the deletion must survive backport() and clear() + assemble()
            try:
                mesh.backport()
                round_trips.append(blocks_of(write_text())[0])
                mesh.clear()
                mesh.assemble()
                round_trips.append(blocks_of(write_text())[0])
                # the depot was back-ported: moving the whole stack now must move every block with it
                w = [3.0, -2.0, 1.5]
                stack.translate(w)
                if other is not None:
                    other.translate(w)
                moved_ok = all(
                    lab(
                        nearest([c - w[d] for d, c in enumerate(op.bottom_face.center.tolist())], centres, tol, range(nz)),
                        nearest([c - w[d] for d, c in enumerate(op.top_face.center.tolist())], centres, tol, range(1, nz + 1)),
                    )
                    == labels[id(op)]
                    for op in stack.operations
                )
                mesh.clear()
                mesh.assemble()
                round_trips.append(blocks_of(write_text(), w)[0] if moved_ok else "operations-torn-apart")
            except Exception as e:
                round_trips.append(type(e).__name__)
        except Exception as e:
            deleted = type(e).__name__
            if nx * ny * nz == 1 and deleted == "RuntimeError" and other is None:
                deleted = []  # the only operation is deleted: nothing is left to assemble, write() refuses
        return {"dims_ok": dims_ok, "grid": grid, "ops": ops, "slices": slices, "deleted": deleted,
                "deleted_attrs": attrs if isinstance(deleted, list) and deleted else [], "round_trips": round_trips,
                "amount_intact": getattr(stack, "cbv_amount_intact", None), "pts": pts, "chopped": chopped}

    def _run_round(self, case: dict) -> Any:
        import numpy as np

        from ..tables import c19 as T

        obj = build_round(case)
        if case["kind"] == "sketch":
            seg = T._sketch_segment(obj)
            name, cells, grid, core_i, shell_i, rim = T.sketch_row(case["name"], obj, seg)
            out = {"cells": cells, "grid": grid, "core": core_i, "shell": shell_i, "rim": rim}
            if case["name"] in FAN_DISKS:
                # what the constructor was given / computes with, as exact rationals: centre, radius point, unit normal,
                # cos(pi/4), core_ratio, diagonal_ratio (witnesses for the model of the point generator)
                pl = case["placement"]
                c = np.array(pl["t"], dtype=float)
                n = np.array(rot([0.0, 0.0, 1.0], unit(pl["axis"]), pl["angle"]))
                rp = c + case["radius"] * np.array(rot([1.0, 0.0, 0.0], unit(pl["axis"]), pl["angle"]))
                u = n / np.linalg.norm(n)
                r3 = lambda v: ",".join(core.rat(float(t)) for t in v)  # noqa: E731
                out["fan"] = " ".join([r3(c), r3(rp), r3(u), core.rat(float(np.cos(np.pi / 4))), core.rat(float(obj.core_ratio)),
                                       core.rat(float(obj.diagonal_ratio))])
            return out
        if case["name"] in ("EighthSphere", "Hemisphere"):
            ops = list(obj.operations)
            cells, pts = T._ids([[p.position for p in op.points] for op in ops])
            c = np.asarray(obj.center_point)
            d = [float(np.linalg.norm(p - c)) for p in pts]
            rim = [i for i, x in enumerate(d) if x >= max(d) * (1 - 1e-6)]
            return {
                "cells": cells,
                "opface": [],
                "core": [T._index(ops, o) for o in obj.core],
                "shell": [T._index(ops, o) for o in obj.shell],
                "rim": rim,
                "grid": [[T._index(ops, o) for o in row] for row in obj.grid],
            }
        name, sk, cells, op_face, core_i, shell_i, rim = T.shape_row(case["name"], "", obj)
        ops = list(obj.operations)
        return {
            "cells": cells,
            "opface": op_face,
            "core": core_i,
            "shell": shell_i,
            "rim": rim,
            "grid": [[T._index(ops, o) for o in row] for row in obj.grid],
            "sketch_grid": [[T._index(list(obj.sketch_1.faces), f) for f in row] for row in obj.sketch_1.grid],
        }

    # ------------------------------------------------------------------ model
    def requests(self, case: dict, impl: Any) -> List[str]:
        if case["kind"] == "stack":
            n = f"{case['nx']} {case['ny']} {case['nz']}"
            reqs = [f"c19.grid {n}", f"c19.ops {n}", f"c19.chop {n}"]
            # the points: Grid between p1 and p2, extruded by the whole amount in nz tiers (other kinds: tier 0, no movement)
            g = " ".join(core.rat(x) for x in (*case["p1"], *case["p2"]))
            if case["stack"] == "extruded":
                v = ",".join(core.rat(x) for x in local_amount(case))
                reqs.append(f"c19.geo {g} {case['nx']} {case['ny']} {case['nz']} {v}")
            else:
                reqs.append(f"c19.geo {g} {case['nx']} {case['ny']} 1 0/1,0/1,0/1")
            for key in impl["slices"]:
                a, i = key.split(":")
                reqs.append(f"c19.slice {n} {a} {i}")
            # get_slice interpreted from the regenerated branches of the source, one (axis, index) per case
            a = (case["nx"] + case["ny"] + case["nz"]) % 3
            reqs.append(f"c19.slicesrc {n} {a} 0")
            if case["delete"] is not None:
                i, j, k = case["delete"]
                reqs.append(f"c19.delete {n} {i} {j} {k}")
            return reqs
        if case["kind"] == "ringdel":
            return []  # oracle only (identity of operations: T_C19_delete / T_C19_delete_copy)
        if case["kind"] == "sketch" and case["name"].startswith("Annulus"):
            return [f"c19.annulus {case['name'][7:]}"]  # the annulus for any number of segments (T_C19_annulus)
        name = table_name(case["name"])
        if name is None:
            return []
        reqs = [f"c19.{case['kind']} {name}"]
        if case["kind"] == "sketch":
            # the index structure computed from the regenerated source text (quad_map, grid expression, merge, core / shell)
            reqs.append(f"c19.sketchsrc {name}")
            if "fan" in impl:
                # rim points and shell computed on the exact positions of this placement (T_C19_shell_iff_rim_edge)
                reqs.append(f"c19.rimshell {name} {impl['fan']}")
        return reqs

    def compare(self, case: dict, impl: Any, model: List[str]) -> Optional[str]:
        def show(x) -> str:
            if isinstance(x, list):
                return "[" + ",".join(show(y) for y in x) + "]"
            return str(x)

        if case["kind"] == "stack":
            if model[0] != show(impl["grid"]):
                return f"stack.grid: implementation {show(impl['grid'])[:400]} / model {model[0][:400]}"
            if model[1] != show(impl["ops"]):
                return f"stack.operations: implementation {show(impl['ops'])[:400]} / model {model[1][:400]}"
            want = impl["chopped"]
            want = show([c[0] for c in want]) if isinstance(want, list) else want
            if model[2] != want:
                return f"Stack.chop: chopped operations: implementation {want[:400]} / model {model[2][:400]}"
            bad = self._compare_points(case, impl, model[3])
            if bad:
                return bad
            for key, ans in zip(impl["slices"], model[4:]):
                want = impl["slices"][key]
                want = show(want) if isinstance(want, list) else want
                if ans != want:
                    return f"get_slice({key}): implementation {want[:400]} / model {ans[:400]}"
            a = (case["nx"] + case["ny"] + case["nz"]) % 3
            want = impl["slices"][f"{a}:0"]
            want = show(want) if isinstance(want, list) else want
            ans = model[4 + len(impl["slices"])]
            if ans != want:
                return f"get_slice({a}:0): implementation {want[:400]} / the source's branches interpreted by the model {ans[:400]}"
            if case["delete"] is None:
                return None
            want = impl["deleted"]
            want = show(want) if isinstance(want, list) else want
            expect = model[-1]
            if case.get("copy") and expect.startswith("["):
                # a stack and its translated copy: the model's filtered list for the one, all operations for the other
                left = [x for x in expect[1:-1].split(",") if x]
                everything = [x for x in model[1][1:-1].split(",") if x]
                if case.get("delete_in") == "copy":
                    expect = show(everything + ["c:" + x for x in left])
                else:
                    expect = show(left + ["c:" + x for x in everything])
            if expect != want:
                return f"blocks after delete {case['delete']}: implementation {want[:400]} / model {expect[:400]}"
            return None
        ans = model[0]
        if ans == "bad-op":
            return f"the generated tables have no row {case['name']}"
        fields = dict(f.split("=", 1) for f in ans.split(" "))
        if fields["cells"] != show(impl["cells"]):
            return f"{case['name']} cells: implementation {show(impl['cells'])} / table {fields['cells']}"
        if case["kind"] == "sketch":
            for k in ("grid", "core", "shell") + (("rim",) if "rim" in fields else ()):
                if fields[k] != show(impl[k]):
                    return f"{case['name']} {k}: implementation {show(impl[k])} / table {fields[k]}"
            if len(model) > 1:
                if model[1] == "bad-op":
                    return f"{case['name']}: the model cannot compute the index structure from the source tables"
                src = dict(f.split("=", 1) for f in model[1].split(" "))
                if src["n"] != str(len(impl["cells"])):
                    return f"{case['name']} number of faces: implementation {len(impl['cells'])} / model from source {src['n']}"
                if src["cells"] != "-" and src["cells"] != show(impl["cells"]):
                    return f"{case['name']} faces: implementation {show(impl['cells'])} / quad_map of the source {src['cells']}"
                for k in ("grid", "core", "shell"):
                    if src[k] != show(impl[k]):
                        return f"{case['name']} {k}: implementation {show(impl[k])} / model from source {src[k]}"
            if len(model) > 2:
                if model[2] == "bad-op":
                    return f"{case['name']}: the model cannot compute the positions of this placement"
                rs = dict(f.split("=", 1) for f in model[2].split(" "))
                if rs["rim"] != show(sorted(impl["rim"])):
                    return (f"{case['name']} points on the outer rim: implementation (geometric) {show(sorted(impl['rim']))} / "
                            f"model of the point generator {rs['rim']}")
                if rs["shell"] != show(sorted(impl["shell"])):
                    return (f"{case['name']} shell: implementation {show(sorted(impl['shell']))} / faces with a side on the rim "
                            f"(model positions) {rs['shell']}")
            return None
        for k, f in (("opface", "opface"), ("core", "core"), ("shell", "shell")):
            if fields[f] != show(impl[k]):
                return f"{case['name']} {k}: implementation {show(impl[k])} / table {fields[f]}"
        return None

    def _compare_points(self, case: dict, impl: Any, ans: str) -> Optional[str]:
        """the model's exact points of `grid[k][j][i]` (`bottom|top`, a point is `x_y_z`, points separated by `;`) against the
        implementation's, both in the frame of the un-placed grid"""
        if not ans.startswith("["):
            return f"points: model answers {ans[:80]}"
        tiers = json.loads(re.sub(r"([^\[\],]+)", r'"\1"', ans))
        tol = 1e-6
        extruded = case["stack"] == "extruded"
        if [[len(r) for r in t] for t in tiers] != [[len(r) for r in t] for t in impl["pts"]]:
            return f"points: the model's grid and the implementation's have different sizes"
        for k, rows in enumerate(tiers):
            for j, row in enumerate(rows):
                for i, op_s in enumerate(row):
                    for which, face_s in enumerate(op_s.split("|")):
                        if which == 1 and not extruded:
                            continue  # the model moved nothing here: only the bottom faces of tier 0 are compared
                        got = impl["pts"][k][j][i][which]
                        for c, (tok, q) in enumerate(zip(face_s.split(";"), got)):
                            m = [float(core.parse_rat(x)) for x in tok.split("_")]
                            if dist(m, q) > tol:
                                return (f"points of grid[{k}][{j}][{i}] ({'bottom' if which == 0 else 'top'} face, corner {c}): "
                                        f"implementation {[round(x, 9) for x in q]} / model {[round(x, 9) for x in m]} "
                                        "(frame of the un-placed grid)")
        return None

    # ------------------------------------------------------------------ oracle
    def oracle(self, case: dict, impl: Any) -> List[dict]:
        out: List[dict] = []
        if case["kind"] == "stack":
            nx, ny, nz = case["nx"], case["ny"], case["nz"]
            kind = case["stack"]
            if not impl["dims_ok"]:
                out.append({"site": f"Stack.grid:{kind}:dimensions", "what": f"grid is not {nz} x {ny} x {nx}"})
                return out
            allops = []
            for k in range(nz):
                for j in range(ny):
                    for i in range(nx):
                        want = f"{i}.{j}.{k}~{i}.{j}.{k + 1}"
                        allops.append(want)
                        got = impl["grid"][k][j][i]
                        if got != want and not out:
                            out.append(
                                {
                                    "site": f"Stack.grid:{kind}:operation-not-at-its-position",
                                    "what": f"grid[{k}][{j}][{i}] lies over {got} (column.row.level of bottom~top face)",
                                    "observed": got,
                                    "expected": want,
                                }
                            )
            if sorted(impl["ops"]) != sorted(allops):
                out.append({"site": "Stack.operations:not-the-grid", "what": f"{impl['ops']}"})
            for key, got in impl["slices"].items():
                a, idx = (int(x) for x in key.split(":"))
                size = (nx, ny, nz)[a]
                if idx >= size:
                    # any raised exception is a rejection (which class it has to be is C20's business); a list is not
                    if not isinstance(got, str):
                        out.append({"site": f"Stack.get_slice:axis{a}:index-beyond-size-accepted", "what": f"get_slice({a}, {idx}) -> {got}"})
                    continue
                want = sorted(o for o in allops if int(o.split("~")[0].split(".")[a]) == idx)
                if not isinstance(got, list) or sorted(got) != want:
                    out.append(
                        {
                            "site": f"Stack.get_slice:axis{a}:wrong-operations",
                            "what": f"get_slice({a}, {idx}) of a {nx}x{ny}x{nz} {kind} stack",
                            "observed": got,
                            "expected": want,
                        }
                    )
            # Stack.chop: one operation of every tier receives one chop along the stack, nothing else is chopped
            ch = impl.get("chopped")
            if not isinstance(ch, list):
                out.append({"site": f"Stack.chop:{kind}:raises", "what": str(ch)})
            else:
                tiers_hit = sorted(int(c[0].split("~")[0].split(".")[2]) for c in ch if "?" not in c[0])
                if tiers_hit != list(range(nz)) or any(c[1] != [0, 0, 1] for c in ch):
                    out.append(
                        {
                            "site": f"Stack.chop:{kind}:not-one-axis-2-chop-per-tier",
                            "what": f"Stack.chop(count=3) on a {nx}x{ny}x{nz} stack chopped {ch} (operation, chops per axis)",
                            "observed": ch,
                            "expected": f"one operation of each tier 0..{nz - 1} with chops [0, 0, 1]",
                        }
                    )
            # the corner points of the faces of the base grid lie on the lattice between p1 and p2, in the order
            # (i, j) (i+1, j) (i+1, j+1) (i, j+1); tiers of an extruded stack are equal steps of the whole amount
            (x0, y0), (x1, y1) = case["p1"], case["p2"]
            amount = local_amount(case) if kind == "extruded" else None
            for kk, tier_pts in enumerate(impl.get("pts", [])):
                for jj, row in enumerate(tier_pts):
                    for ii, faces in enumerate(row):
                        for which in ((0, 1) if amount else (0,)):
                            for c, (da, db) in enumerate(((0, 0), (1, 0), (1, 1), (0, 1))):
                                want_p = [x0 + (ii + da) * (x1 - x0) / nx, y0 + (jj + db) * (y1 - y0) / ny, 0.0]
                                if amount:
                                    want_p = [want_p[d] + (kk + which) * amount[d] / nz for d in range(3)]
                                if dist(want_p, faces[which][c]) > 1e-6 and not any(o["site"].endswith("corner-not-on-the-lattice") for o in out):
                                    out.append(
                                        {
                                            "site": f"Stack.grid:{kind}:corner-not-on-the-lattice",
                                            "what": f"corner {c} of the {'top' if which else 'bottom'} face of grid[{kk}][{jj}][{ii}] "
                                            f"(frame of the un-placed grid)",
                                            "observed": [round(x, 9) for x in faces[which][c]],
                                            "expected": [round(x, 9) for x in want_p],
                                        }
                                    )
            if case["delete"] is None:
                return out
            i, j, k = case["delete"]
            gone = f"{i}.{j}.{k}~{i}.{j}.{k + 1}"
            for label, zone, counts in impl.get("deleted_attrs", []):
                m = re.fullmatch(r"(?:c:)?(\d+)\.(\d+)\.(\d+)~.*", label)
                if not m:
                    continue
                ii, jj, kk = (int(x) for x in m.groups())
                want_counts = [2, 2, 2] if case.get("uniform_chops") else [2 + ii, 7 + jj, 13 + kk]
                if zone != f"z{ii}_{jj}_{kk}" or counts != want_counts:
                    out.append(
                        {
                            "site": "Mesh.delete:stack-operation:other-block-changed",
                            "what": f"after delete(grid[{k}][{j}][{i}]) the block over cell {ii}.{jj}.{kk} is written with zone "
                            f"'{zone}' and counts {counts}; its operation has zone 'z{ii}_{jj}_{kk}' and counts {want_counts}",
                            "observed": [zone, counts],
                            "expected": [f"z{ii}_{jj}_{kk}", want_counts],
                        }
                    )
                    break
            left = impl["deleted"]
            expected = [o for o in allops if o != gone]
            where = "grid"
            if case.get("copy"):
                if case.get("delete_in") == "copy":
                    expected = allops + ["c:" + o for o in expected]
                    where = "copy.grid"
                else:
                    expected = expected + ["c:" + o for o in allops]
            if not isinstance(left, list) or sorted(left) != sorted(expected):
                site = "Mesh.delete:stack-operation:wrong-blocks-left"
                if delete_when(case) == "after_assemble":
                    site = "Mesh.delete:stack-operation:deleted-after-assemble:wrong-blocks-after-backport"
                if case.get("copy") and isinstance(left, list) and len(left) < len(expected):
                    site = "Mesh.delete:stack-operation:copy-sibling-deleted-too"
                out.append(
                    {
                        "site": site,
                        "what": f"delete({where}[{k}][{j}][{i}]) ({delete_when(case).replace('_', ' ')}"
                        f"{', then backport' if delete_when(case) == 'after_assemble' else ''}) leaves the blocks over {impl['deleted']}",
                        "expected": expected,
                    }
                )
            for how, got in zip(("backport", "clear-assemble", "backport-translate-assemble"), impl.get("round_trips", [])):
                if not isinstance(got, list) or sorted(got) != sorted(expected):
                    out.append(
                        {
                            "site": f"Mesh.delete:stack-operation:blocks-differ-after-{how}",
                            "what": f"delete({where}[{k}][{j}][{i}]), write, {how}, write: blocks {got}",
                            "observed": got,
                            "expected": expected,
                        }
                    )
                    break
            if impl.get("amount_intact") is False:
                out.append({"site": "ExtrudedStack:amount-argument-modified", "what": f"the height array {case.get('amount_vec')} was changed by the constructor"})
            if isinstance(impl.get("round_trips"), list) and len(impl["round_trips"]) == 1 and isinstance(impl["round_trips"][0], str) and expected:
                out.append({"site": "Mesh.delete:stack-operation:round-trip-raises", "what": impl["round_trips"][0]})
            return out
        if case["kind"] == "ringdel":
            expected = [i for i in range(impl["n_ops"]) if i != impl["deleted"]]
            for how, got in zip(("delete", "backport", "clear-assemble", "backport-translate-assemble"), impl["blocks"]):
                if not isinstance(got, list) or sorted(got) != expected:
                    site = f"Mesh.delete:{case['shape']}.shell:wrong-blocks-after-{how}"
                    if how == "delete" and delete_when(case) == "after_assemble":
                        site = f"Mesh.delete:{case['shape']}.shell:deleted-after-assemble:wrong-blocks-after-backport"
                    if isinstance(got, list) and len(got) < len(expected) and how == "delete":
                        site = f"Mesh.delete:{case['shape']}.shell:copy-sibling-deleted-too"
                    out.append(
                        {
                            "site": site,
                            "what": f"{case['shape']} of {impl['n_ops']} operations, shell[{case['s']}] (operation {impl['deleted']}) deleted: "
                            f"blocks at the places of operations {got}",
                            "observed": got,
                            "expected": expected,
                        }
                    )
                    break
            if len(impl["blocks"]) < 4 and not out:
                out.append({"site": f"Mesh.delete:{case['shape']}.shell:round-trip-raises", "what": str(impl["blocks"][-1])})
            return out
        # round: shell = the cells with a point on the outer surface; core and shell partition all cells
        n = len(impl["cells"])
        name = case["name"]
        touching = sorted(k for k in range(n) if any(p in impl["rim"] for p in impl["cells"][k]))
        core_l, shell_l = list(impl["core"]), list(impl["shell"])
        wrapped = "WrappedDisk" in name
        if sorted(shell_l) != touching:
            if wrapped and case["kind"] == "shape":
                site = KNOWN_WRAPPED_SHAPE
            else:
                site = f"{name}.shell:not-the-cells-on-the-outer-surface"
            out.append({"site": site, "what": f"shell {sorted(shell_l)}, on the surface {touching}", "observed": shell_l, "expected": touching})
        if sorted(core_l + shell_l) != list(range(n)):
            site = KNOWN_WRAPPED if (wrapped and case["kind"] == "sketch") else f"{name}.core/shell:not-a-partition"
            out.append({"site": site, "what": f"core {core_l} + shell {shell_l} of {n} cells"})
        flat = [x for row in impl["grid"] for x in row]
        if sorted(flat) != list(range(n)):
            out.append({"site": f"{name}.grid:not-a-partition", "what": f"{impl['grid']}"})
        if case["kind"] == "shape" and impl.get("sketch_grid") is not None:
            # the grid of the shape mirrors the grid of the sketch, operations are the flattened grid
            if [[impl["opface"][o] for o in row] for row in impl["grid"]] != impl["sketch_grid"]:
                out.append({"site": f"{name}.grid:does-not-mirror-sketch-grid", "what": f"{impl['grid']} vs {impl['sketch_grid']}"})
            if flat != list(range(n)):
                out.append({"site": f"{name}.operations:not-the-flattened-grid", "what": f"{impl['grid']}"})
        return out

    def nontrivial_key(self, case, impl):
        return json.dumps(case, sort_keys=True)

    def classify(self, case, impl):
        if case["kind"] == "ringdel":
            return f"ringdel:{case['shape']}"
        if case["kind"] == "stack":
            return f"stack:{case['stack']}:{case['nx']}x{case['ny']}x{case['nz']}"
        return f"{case['kind']}:{case['name']}"


if __name__ == "__main__":
    sys.exit(core.main(C19()))
