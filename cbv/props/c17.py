"""C17 — clamps stay on their manifold, links keep their relation.

Implementation: the real clamp / link classes are created and driven (`update_params`, `leader = …; update()`).
Model (`CBV.Model.C17`): closed forms over exact rationals (line / plane / radial clamp positions, the closest point
a fresh clamp must report, translation / symmetry / rotation links) and the decidable relation `rotValid`.
Oracle: the property stated on the observed positions alone — collinearity, plane equation, same radius and height
about the axis, implicit equations of the curve / surface a clamp was given, the link relations, and the leader
array being bit-identical after construction and after `update()`.
"""

from __future__ import annotations

import json
import math
import os
import random
import sys
import warnings
from fractions import Fraction as Fr
from typing import Any, Dict, List, Optional

from .. import core
from .c09 import FV, Frame, S, V, add, cross, dot, enc_v, mat_vec, mul, quat_matrix, quat_theta, rnz_int_vec, rq, rvec, sub

for _v in ("OMP_NUM_THREADS", "OPENBLAS_NUM_THREADS", "MKL_NUM_THREADS"):
    os.environ.setdefault(_v, "1")

POS_TOL = 1e-9  # positions that are computed in closed form by the library
MIN_TOL = 2e-5  # positions that come out of scipy.optimize.minimize (relative to the size of the geometry)
# A clamp created OFF its manifold reports the point scipy's minimiser finds. The distance to the creation point is
# stationary there: a parameter error e costs only e^2/(2 d) in distance (d = distance off the manifold), so the
# minimiser (tol = 1e-7 on the distance) fixes the *distance* to about 1e-7 but the *position* only to about
# sqrt(2 d 1e-7) ~ 1e-4 … 1e-3.  "Its closest point" is therefore judged by what the search controls: the reported
# point must lie on the manifold (exact clauses, 1e-9) and must not be farther from the creation point than the true
# closest point by more than EXCESS_TOL (relative).  A clamp created ON the manifold has a sharp minimum (|t - m|)
# and is still compared by position (MIN_TOL).
EXCESS_TOL = 1e-6


def excess_distance(pos, reported, exact) -> float:
    """how much farther from the creation point the reported point is than the exact closest point"""
    d = lambda a, b: math.sqrt(sum((float(x) - float(y)) ** 2 for x, y in zip(a, b)))  # noqa: E731
    return d(pos, reported) - d(pos, exact)


def closest_ok(pos, reported, exact) -> bool:
    d = math.sqrt(sum((float(x) - float(y)) ** 2 for x, y in zip(pos, exact)))
    return abs(excess_distance(pos, reported, exact)) <= EXCESS_TOL * (1.0 + d)


def fl(v) -> List[float]:
    return [float(c) for c in v]


def _near(p, q, tol) -> bool:
    return all(abs(float(a) - float(b)) <= tol for a, b in zip(p, q))


def _scale(*pts) -> float:
    return 1.0 + max((abs(float(c)) for p in pts for c in p), default=0.0)


def parse_v(s: str) -> List[Fr]:
    return [core.parse_rat(x) for x in s.split(",")]


# ----------------------------------------------------------------------------- surfaces and curves of the oracle stream
def surface_fn(name: str, fr: List[List[float]]):
    """(u, v) -> point of a surface in a general frame fr = [o, e1, e2, e3]; and its implicit residual."""
    import numpy as np

    o, e1, e2, e3 = (np.array(x) for x in fr)

    def local(p):
        d = np.asarray(p) - o
        return np.array([d @ e1, d @ e2, d @ e3])

    if name == "paraboloid":
        return (lambda p: o + p[0] * e1 + p[1] * e2 + (p[0] ** 2 + p[1] ** 2) / 4 * e3), (lambda q: local(q)[2] - (local(q)[0] ** 2 + local(q)[1] ** 2) / 4)
    if name == "cylinder":
        return (lambda p: o + 2 * math.cos(p[0]) * e1 + 2 * math.sin(p[0]) * e2 + p[1] * e3), (lambda q: local(q)[0] ** 2 + local(q)[1] ** 2 - 4)
    if name == "bilinear":
        # the bilinear patch through o, o+e1, o+e2, o+e1+e2+e3/2, written the way a user would (corner weights)
        p00, p10, p01, p11 = o, o + e1, o + e2, o + e1 + e2 + 0.5 * e3
        return (
            lambda p: (1 - p[0]) * (1 - p[1]) * p00 + p[0] * (1 - p[1]) * p10 + (1 - p[0]) * p[1] * p01 + p[0] * p[1] * p11
        ), (lambda q: local(q)[2] - local(q)[0] * local(q)[1] / 2)
    return (lambda p: o + p[0] * e1 + p[1] * (e2 + 0.5 * e3)), (lambda q: local(q)[2] - 0.5 * local(q)[1])


def surface_exact(name: str, fr: List[List[float]]):
    """the same surfaces with exact rational coefficients (the floats of the frame taken exactly), for the model"""
    o, e1, e2, e3 = ([Fr(c) for c in x] for x in fr)
    if name == "sheared":
        return "plane", [o, e1, add(e2, mul(Fr(1, 2), e3))]
    if name == "bilinear":
        return "bilinear", [o, add(o, e1), add(o, e2), add(add(add(o, e1), e2), mul(Fr(1, 2), e3))]
    return None, []


def helix_curve(fr):
    """an arbitrary user function: a helix in a general frame, parameter 0 … 2π"""
    import numpy as np
    from classy_blocks.construct.curves.analytic import AnalyticCurve

    o, e1, e2, e3 = (np.array(x) for x in fr)
    return AnalyticCurve(lambda t: o + 2 * math.cos(t) * e1 + 3 * math.sin(t) * e2 + 0.5 * t * e3, (0, 2 * math.pi))


class C17(core.Check):
    pid = "C17"
    props_module = "CBV.Props.C17"
    workers = 8
    rule = (
        "clamp cases: LineClamp / PlaneClamp / RadialClamp / CurveClamp (line, circle, linear- and spline-interpolated "
        "curves) / ParametricSurfaceClamp (paraboloid, cylinder, sheared plane, bilinear patch) / FreeClamp created at a position on "
        "or off the manifold, with end points, normals, axes and origins in a rational frame in general position "
        "(non-unit, non-zero), optional bounds, then 2-5 parameter updates within bounds; link cases: Translation / "
        "Symmetry / Rotation links with 1-4 leader moves of any size (rotation links: exact rotations about the axis "
        "and arbitrary moves), the leader being an array owned by the caller (as the optimiser passes a clamp "
        "position). Non-trivial = at least one update or move; distinct = different geometry or parameters."
    )
    assumptions = [
        "scipy.optimize.minimize (ClampBase.get_params) is an oracle. A clamp created ON its line/plane is compared with the "
        "creation position within 2e-5 relative (sharp minimum). A clamp created OFF it must report a point on the "
        "manifold (1e-9) that is not farther from the creation position than the closed-form closest point by more than "
        "1e-6 relative: the distance is stationary there, so the search controls the distance, not the position (a "
        "parameter error e costs e^2/2d). Everything computed in closed form by the library is compared within 1e-9",
        "lengths enter the model as witnesses s with |s*s - |d|^2| <= 1e-9 (the float norm the library computed)",
        "the two in-plane directions of a PlaneClamp are drawn with numpy's random generator; the harness seeds it and "
        "reads the directions off clamp.function, the oracle checks that they are normal to the plane normal",
        "rotation angles of radial clamps and of exact leader moves are theta = 2*atan2(|a|, w) for rational quaternions",
        "creation positions of curve/surface clamps stay clear of the ends of the parameter range and of the wrap-around "
        "of closed curves, where the closest-parameter search is ambiguous",
    ]
    partial_note = (
        "theorems: positions of line/plane/radial clamps lie on the manifold for all parameters; the reported initial "
        "position is the closest point of the segment/plane (and the creation position when that is on it); "
        "CurveClamp on a LineCurve (collinear, closest admissible point within the curve's bounds) and on a "
        "LinearInterpolatedCurve (on one segment of the polyline, through the knots) and ParametricSurfaceClamp on a "
        "plane / bilinear patch for all parameters; translation/symmetry/rotation links keep their relation for leader "
        "moves of any size, the rotation relation determines the follower uniquely and commutes with rotations about "
        "the axis; update is pure; CircleCurve clamps at rationally parametrised angles and chord-length knot parameters "
        "(square-root witnesses) are in the model. Spline / user-function curves, curved surfaces and the accuracy "
        "of the scipy minimiser are checked by the oracle only."
    )

    # ------------------------------------------------------------------ generators
    def gen_cases(self, rng: random.Random, tier: str) -> List[dict]:
        mult = 1 if tier == "quick" else 10
        cases: List[dict] = []
        for _ in range(40 * mult):
            fr = Frame(rng)
            p1 = fr.P(rq(rng, -2, 2), rq(rng, -2, 2), rq(rng, -2, 2))
            d = fr.D(rq(rng, 1, 3), rq(rng, -2, 2), rq(rng, -2, 2))
            p2 = add(p1, d)
            lam = Fr(rng.randint(1, 9), 10)
            on = rng.random() < 0.5
            pos = add(p1, mul(lam, d))
            if not on:
                pos = add(pos, rvec(rng, -1, 1, 4))
            bounds = None
            if rng.random() < 0.4:
                bounds = [str(rq(rng, -3, 0)), str(rq(rng, 4, 8))]
            elif rng.random() < 0.3 and not on:
                # a position whose foot point lies beyond an end of the segment: the clamp must report the end
                pos = add(add(p1, mul(rng.choice([Fr(-1, 2), Fr(3, 2)]), d)), mul(Fr(1, 4), cross(d, [Fr(1), Fr(2), Fr(-1)])))
            length = math.sqrt(float(dot(d, d)))
            lo, hi = (0.0, length) if bounds is None else (float(Fr(bounds[0])), float(Fr(bounds[1])))
            ts = [str(Fr(rng.uniform(lo, hi)).limit_denominator(64)) for _ in range(rng.randint(2, 4))]
            ts = [t for t in ts if lo <= float(Fr(t)) <= hi]
            cases.append({"kind": "line", "p1": S(p1), "p2": S(p2), "pos": S(pos), "on": on, "bounds": bounds, "ts": ts})
        for _ in range(30 * mult):
            fr = Frame(rng)
            point = fr.P(rq(rng, -2, 2), rq(rng, -2, 2), rq(rng, -2, 2))
            n = fr.D(0, 0, rng.choice([1, 2, -3, Fr(1, 2)]))
            on = rng.random() < 0.5
            pos = add(point, fr.D(rq(rng, -2, 2), rq(rng, -2, 2), 0 if on else rq(rng, 1, 2) * rng.choice([1, -1])))
            ab = [[str(rq(rng, -3, 3)), str(rq(rng, -3, 3))] for _ in range(rng.randint(2, 4))]
            cases.append({"kind": "plane", "point": S(point), "n": S(n), "pos": S(pos), "on": on, "ab": ab, "npseed": rng.randrange(2**31)})
        for _ in range(30 * mult):
            fr = Frame(rng)
            center = fr.P(rq(rng, -2, 2), rq(rng, -2, 2), rq(rng, -2, 2))
            n = fr.D(0, 0, rng.choice([1, 2, -3, Fr(1, 2)]))
            pos = add(center, fr.D(rq(rng, 1, 3), rq(rng, -2, 2), rq(rng, -2, 2)))
            turns = [[str(rng.randint(1, 6)), str(Fr(rng.randint(-8, 8), 4))] for _ in range(rng.randint(2, 4))]
            cases.append({"kind": "radial", "center": S(center), "n": S(n), "pos": S(pos), "turns": turns, "bounded": rng.random() < 0.3})
        for _ in range(24 * mult):
            fr = Frame(rng)
            ck = rng.choice(["line", "circle", "linear", "splinei"])
            on = rng.random() < 0.5
            if ck == "line":
                a, b = fr.P(0, 0, 0), fr.P(4, 1, 0)
                curve = {"c": "line", "p1": S(a), "p2": S(b), "b": ["0", "1"]}
                t0 = Fr(rng.randint(2, 8), 10)
                base = add(a, mul(t0, sub(b, a)))
                params = [str(Fr(rng.randint(0, 10), 10)) for _ in range(3)]
            elif ck == "circle":
                o = fr.P(0, 0, 0)
                curve = {"c": "circle", "o": S(o), "rim": S(fr.P(2, 0, 0)), "n": S(fr.D(0, 0, rng.choice([1, 3])))}
                w = rng.choice([1, 2, 3])  # position at angle 2*atan2(1, w): between 0.64 and 1.57 rad
                base = add(o, mat_vec(quat_matrix(w, fr.D(0, 0, 1)), fr.D(2, 0, 0)))
                params = [str(Fr(rng.randint(5, 55), 10)) for _ in range(3)]
                # rationally parametrised angles 2·atan2(|mu n|, w) in (0, 2 pi): compared with the model exactly
                curve["turns"] = [[str(rng.randint(-3, 5)), str(Fr(rng.choice([1, 2, 3, 5]), 2))] for _ in range(2)]
            else:
                pts = [fr.P(x, Fr(x * x, 8) + Fr(rng.randint(-1, 1), 8), Fr(x, 4)) for x in range(0, 6)]
                curve = {"c": ck, "pts": [S(p) for p in pts]}
                base = pts[rng.choice([2, 3])]
                params = [str(Fr(rng.randint(1, 9), 10)) for _ in range(3)]
            pos = base if on else add(base, fr.D(0, 0, Fr(1, 4)) if ck != "circle" else fr.D(0, 0, Fr(1, 2)))
            cases.append({"kind": "curve", "curve": curve, "pos": S(pos), "on": on, "params": params, "frame": [fl(fr.o)] + [fl(e) for e in fr.e]})
        # Round 2: clamps created with a user-supplied starting estimate (initial_param / initial_params) that is
        # only near the right parameter: the clamp must still report the creation position / its closest point
        for _ in range(12 * mult):
            fr = Frame(rng)
            ck = rng.choice(["line", "circle", "helix", "helix"])
            on = rng.random() < 0.5
            frame = [fl(fr.o)] + [fl(e) for e in fr.e]
            if ck == "line":
                a, b = fr.P(0, 0, 0), fr.P(4, 1, 0)
                curve = {"c": "line", "p1": S(a), "p2": S(b), "b": ["0", "1"]}
                base = add(a, mul(Fr(rng.randint(3, 7), 10), sub(b, a)))
                off = fr.D(0, 0, Fr(1, 4))
            elif ck == "circle":
                o = fr.P(0, 0, 0)
                curve = {"c": "circle", "o": S(o), "rim": S(fr.P(2, 0, 0)), "n": S(fr.D(0, 0, rng.choice([1, 3])))}
                base = add(o, mat_vec(quat_matrix(rng.choice([1, 2]), fr.D(0, 0, 1)), fr.D(2, 0, 0)))
                off = fr.D(0, 0, Fr(1, 2))
            else:
                t0 = rng.choice([Fr(3, 2), Fr(2), Fr(3), Fr(4)])
                curve = {"c": "helix"}
                base = [Fr(c) for c in (fr.P(0, 0, 0)[i] + Fr(2 * math.cos(t0)) * fr.e[0][i] + Fr(3 * math.sin(t0)) * fr.e[1][i] + Fr(0.5 * float(t0)) * fr.e[2][i] for i in range(3))]
                off = fr.D(Fr(1, 5), Fr(1, 10), Fr(-3, 20))
            pos = base if on else add(base, off)
            cases.append({"kind": "curve", "curve": curve, "pos": S(pos), "on": on, "params": [], "frame": frame, "est": rng.choice([-1, 1]) * rng.choice([0.04, 0.06])})
        for _ in range(8 * mult):
            fr = Frame(rng)
            cases.append(
                {
                    "kind": "surface",
                    "surface": rng.choice(["paraboloid", "cylinder", "sheared", "bilinear"]),
                    "frame": [fl(fr.o)] + [fl(e) for e in fr.e],
                    "uv0": [rng.uniform(-1.2, 1.2), rng.uniform(-1.2, 1.2)],
                    "off": 0.0 if rng.random() < 0.6 else rng.choice([0.2, -0.3]),
                    "uvs": [],
                    "est": [rng.choice([-0.3, 0.3]), rng.choice([-0.2, 0.2])],
                }
            )
        for _ in range(16 * mult):
            fr = Frame(rng)
            name = rng.choice(["paraboloid", "cylinder", "sheared", "bilinear", "bilinear"])
            uv0 = [rng.uniform(-1.5, 1.5), rng.uniform(-1.5, 1.5)]
            cases.append(
                {
                    "kind": "surface",
                    "surface": name,
                    "frame": [fl(fr.o)] + [fl(e) for e in fr.e],
                    "uv0": uv0,
                    "off": 0.0 if rng.random() < 0.5 else rng.choice([0.2, -0.3]),
                    "uvs": [[rng.uniform(-2, 2), rng.uniform(-2, 2)] for _ in range(3)],
                }
            )
        for _ in range(6 * mult):
            cases.append({"kind": "free", "pos": S(rvec(rng)), "moves": [S(rvec(rng)) for _ in range(3)]})
        # links
        for _ in range(30 * mult):
            cases.append({"kind": "tlink", "leader": S(rvec(rng)), "follower": S(rvec(rng)), "moves": [S(rvec(rng, -9, 9)) for _ in range(rng.randint(1, 4))], "int_leader": rng.random() < 0.15})
        for _ in range(40 * mult):
            fr = Frame(rng)
            n = fr.D(rq(rng, -2, 2), rq(rng, -2, 2), rng.choice([1, 2, -3]))
            o = fr.P(rq(rng, -2, 2), rq(rng, -2, 2), rq(rng, -2, 2)) if rng.random() < 0.85 else [Fr(0)] * 3
            leader = rvec(rng)
            int_leader = rng.random() < 0.15
            if int_leader:
                leader = [Fr(rng.randint(-3, 3)) for _ in range(3)]
            cases.append({"kind": "slink", "n": S(n), "o": S(o), "leader": S(leader), "moves": [S(rvec(rng, -9, 9)) for _ in range(rng.randint(1, 4))], "int_leader": int_leader})
        for _ in range(40 * mult):
            fr = Frame(rng)
            axis = fr.D(0, 0, rng.choice([1, 2, -3, Fr(1, 2)]))
            o = fr.P(rq(rng, -2, 2), rq(rng, -2, 2), rq(rng, -2, 2))
            leader = add(o, fr.D(rq(rng, 1, 3), rq(rng, -2, 2), rq(rng, -2, 2)))
            follower = add(o, fr.D(rq(rng, -3, 3), rq(rng, 1, 3), rq(rng, -2, 2)))
            moves: List[Any] = []
            for _ in range(rng.randint(1, 4)):
                if rng.random() < 0.7:
                    w = rng.randint(-4, 6)
                    mu = Fr(rng.choice([-3, -2, -1, 1, 2, 3, 5]), 2)
                    if w == 0 and rng.random() < 0.5:
                        w = 1
                    moves.append({"w": str(w), "mu": str(mu)})
                else:
                    moves.append({"to": S(add(o, fr.D(rq(rng, 1, 4), rq(rng, 1, 3) * rng.choice([1, -1]), rq(rng, -3, 3))))})
            cases.append({"kind": "rlink", "axis": S(axis), "o": S(o), "leader": S(leader), "follower": S(follower), "moves": moves})
        # Round 4: (a) plane normals close to a coordinate axis, tilted towards both other axes
        for i in range(12 * mult):
            axis = i % 3
            n = [Fr(0)] * 3
            n[axis] = Fr(rng.choice([1, -1, 2, -2]))
            for j in range(3):
                if j != axis:
                    n[j] = Fr(rng.choice([-4, -3, -2, -1, 1, 2, 3, 4]), 10)
            point = rvec(rng, -2, 2, 2)
            on = rng.random() < 0.5
            # a point of the plane: point + (any vector) - its normal component
            w = rvec(rng, -2, 2, 2)
            inplane = sub(w, mul(dot(w, n) / dot(n, n), n))
            pos = add(point, inplane) if on else add(add(point, inplane), mul(rng.choice([Fr(1, 2), Fr(-1)]), n))
            ab = [[str(rq(rng, -3, 3)), str(rq(rng, -3, 3))] for _ in range(3)]
            cases.append({"kind": "plane", "point": S(point), "n": S(n), "pos": S(pos), "on": on, "ab": ab, "npseed": rng.randrange(2**31)})
        # (b) rotation links whose leader is close to the axis (radius 1e-6 … 1e-5, ten times the coincidence limit
        # and more), in coordinate-aligned and in general frames, turned by small and by large angles
        for i in range(12 * mult):
            fr = Frame(rng, aligned=(i % 2 == 0))
            axis = fr.D(0, 0, rng.choice([1, 2, -3, Fr(1, 2)]))
            o = fr.P(rq(rng, -2, 2), rq(rng, -2, 2), rq(rng, -2, 2)) if i % 4 else [Fr(0)] * 3
            r = Fr(rng.choice([1, 2, 3, 5, 10]), 1000000)
            direction = rng.choice([(1, 0), (0, 1), (-1, 0), (3, 4), (4, -3)])
            scale = Fr(1, 5) if abs(direction[0]) + abs(direction[1]) > 1 else Fr(1)
            leader = add(o, fr.D(r * direction[0] * scale, r * direction[1] * scale, rq(rng, -1, 1)))
            follower = add(o, fr.D(rq(rng, 1, 3), rq(rng, 1, 3), rq(rng, -2, 2)))
            na = math.sqrt(float(dot(axis, axis)))
            moves = []
            for _ in range(rng.randint(2, 3)):
                if rng.random() < 0.6:  # a small turn: 2*atan2(|mu a|, w) of a few hundredths
                    mu = Fr(rng.choice([1, -1, 2]), 2)
                    moves.append({"w": str(int(round(abs(float(mu)) * na * rng.choice([40, 50, 80])))), "mu": str(mu)})
                else:
                    moves.append({"w": str(rng.randint(-3, 5) or 1), "mu": str(Fr(rng.choice([-3, -1, 1, 2, 5]), 2))})
            cases.append({"kind": "rlink", "axis": S(axis), "o": S(o), "leader": S(leader), "follower": S(follower), "moves": moves, "small_radius": True})
        # (c) leaders moved through the optimisation grid (GridBase.update, what the optimisers call), with two or
        # three links on the same leader
        for _ in range(10 * mult):
            fr = Frame(rng)
            pts = [fr.P(x + Fr(rng.randint(-1, 1), 10), y + Fr(rng.randint(-1, 1), 10), 0) for y in (0, 1, 2) for x in (0, 1, 2)]
            li = rng.randrange(9)
            others = [i for i in range(9) if i != li]
            rng.shuffle(others)
            links = []
            for fi in others[: rng.choice([2, 2, 3])]:
                if rng.random() < 0.6:
                    links.append({"type": "t", "follower": fi})
                else:
                    links.append({"type": "s", "follower": fi, "n": S(fr.D(rq(rng, 1, 3), rq(rng, -2, 2), rq(rng, -1, 1))), "o": S(fr.P(1, rq(rng, -1, 1), 0))})
            moves = [S(add(pts[li], fr.D(rq(rng, -1, 1) / 4, rq(rng, -1, 1) / 4, rq(rng, -1, 1) / 8))) for _ in range(rng.randint(1, 3))]
            cases.append({"kind": "grid", "points": [S(p) for p in pts], "leader": li, "links": links, "moves": moves})
        # Round 2: histories — after the first move the caller may move the leader array in place
        # (leader += d, leader[:] = p, leader[i] = x) before the next update()
        for c in cases:
            if c["kind"] in ("tlink", "slink", "rlink") and c["moves"]:
                if len(c["moves"]) == 1 and c["kind"] != "slink":
                    c["moves"] = c["moves"] * 2 if c["kind"] != "rlink" else c["moves"] + [dict(c["moves"][0])]
                    if c["kind"] != "rlink":
                        c["moves"][1] = S(rvec(rng, -9, 9))
                    elif "w" in c["moves"][1]:
                        c["moves"][1]["w"] = str(int(c["moves"][1]["w"]) + 2)
                c["backport"] = rng.random() < 0.5
                first_free = 0 if c["kind"] == "slink" and not c.get("int_leader") else 1
                c["how"] = ["assign" if i < first_free else rng.choice(["assign", "iadd", "slice", "index"]) for i in range(len(c["moves"]))]
                # Round 6b: `transform()` is a public query ("where would the follower go?"): 0-2 extra calls between
                # the leader's move and update() — a query must not change what update() does
                c["queries"] = [rng.choice([0, 0, 1, 2]) for _ in c["moves"]]
                if not any(c["queries"]) and rng.random() < 0.5:
                    c["queries"][rng.randrange(len(c["queries"]))] = 1
        # Round 6b: the arrays a clamp is created from are the caller's (rows of a point table, vertex positions):
        # the caller changes them in place after the clamp exists; the clamp must stay on the manifold it was declared on
        for c in cases:
            if c["kind"] in ("line", "radial", "plane", "curve"):
                c["caller_mutates"] = rng.random() < 0.5
        # Round 6b: geometry far from the origin (projected geographic coordinates, 1e5 … 1e7), the creation position on
        # the constraint at a distance from the clamp's initial-guess point that is small against the coordinates
        # (a few 1e-6 of them) but large in itself (decimetres … tens of metres): a fresh clamp reports its creation position
        n_far = 3 if tier == "quick" else 12
        for kind in ("line", "plane", "radial", "curve", "surface"):
            for j in range(n_far):
                M = [10**5, 10**6, 10**7][j % 3]
                fr = Frame(rng)
                far_o = [Fr(rng.choice([1, -1]) * rng.randint(4 * M // 10, M)) + rq(rng, 0, 1, 8) for _ in range(3)]
                fr.o = far_o
                step = Fr(M, 10**5) * Fr(rng.randint(2, 7), 10)  # 0.2 … 0.7 of 1e-5·M
                if kind == "line":
                    p1 = fr.P(0, 0, 0)
                    d = fr.D(rq(rng, 1, 3), rq(rng, -2, 2), rq(rng, -2, 2))
                    dlen = Fr(math.sqrt(float(dot(d, d)))).limit_denominator(1000)
                    p2 = add(p1, mul(20 * step / dlen, d))
                    pos = add(p1, mul(step / dlen, d))
                    L = float(20 * step)
                    cases.append({"kind": "line", "p1": S(p1), "p2": S(p2), "pos": S(pos), "on": True, "bounds": None, "ts": [str(Fr(L * x).limit_denominator(64)) for x in (0.1, 0.6)], "far": M, "caller_mutates": j % 2 == 1})
                elif kind == "plane":
                    point = fr.P(0, 0, 0)
                    n = fr.D(0, 0, rng.choice([1, 2, -3]))
                    pos = add(point, mul(step, fr.D(Fr(3, 5), Fr(-4, 5), 0)))
                    cases.append({"kind": "plane", "point": S(point), "n": S(n), "pos": S(pos), "on": True, "ab": [["1", "-2"], ["5/2", "1/2"]], "npseed": rng.randrange(2**31), "far": M, "caller_mutates": j % 2 == 1})
                elif kind == "radial":
                    center = fr.P(0, 0, 0)
                    n = fr.D(0, 0, rng.choice([1, 2, -3]))
                    pos = add(center, mul(step, fr.D(Fr(3, 5), Fr(4, 5), Fr(1, 2))))
                    cases.append({"kind": "radial", "center": S(center), "n": S(n), "pos": S(pos), "turns": [["3", "1"], ["1", "-1/2"]], "bounded": False, "far": M, "caller_mutates": j % 2 == 1})
                elif kind == "curve":
                    a = fr.P(0, 0, 0)
                    b = add(a, mul(2 * step, fr.D(Fr(4, 5), Fr(3, 5), 0)))
                    base = add(a, mul(Fr(1, 2), sub(b, a)))
                    cases.append({"kind": "curve", "curve": {"c": "line", "p1": S(a), "p2": S(b), "b": ["0", "1"]}, "pos": S(base), "on": True, "params": ["1/4", "3/4"], "frame": [fl(fr.o)] + [fl(e) for e in fr.e], "est": rng.choice([-1, 1]) * 0.25, "far": M, "local": float(2 * step)})
                else:
                    sstep = float(step) if M >= 10**6 else 0.5
                    cases.append({"kind": "surface", "surface": ["sheared", "bilinear", "paraboloid"][j % 3], "frame": [fl(fr.o)] + [fl(e) for e in fr.e], "uv0": [0.31 * min(sstep, 6.0), -0.23 * min(sstep, 6.0)], "off": 0.0, "uvs": [[0.5, -1.0]], "far": M, "noguess": True})
        # documented rejection: leader on the axis
        for _ in range(3):
            fr = Frame(rng)
            o = fr.P(1, 1, 1)
            cases.append({"kind": "rlink", "axis": S(fr.D(0, 0, 2)), "o": S(o), "leader": S(add(o, fr.D(0, 0, 3))), "follower": S(fr.P(2, 3, 1)), "moves": []})
        return cases

    # ------------------------------------------------------------------ implementation
    def run_impl(self, case: dict) -> Any:
        with warnings.catch_warnings():
            warnings.simplefilter("ignore")
            try:
                return self._run(case)
            except Exception as e:  # a rejection by the library
                return {"raised": type(e).__name__, "msg": str(e)[:200]}

    def _run(self, case: dict) -> Any:
        import numpy as np
        import classy_blocks as cb
        from classy_blocks.optimize.clamps.surface import ParametricSurfaceClamp
        from classy_blocks.util import functions as f

        from .c09 import build_curve

        k = case["kind"]
        out: Dict[str, Any] = {}
        def callers(*vs):
            """float arrays the caller owns (rows of its point table / vertex positions)"""
            return [np.array(FV(v), dtype=float) for v in vs]

        def caller_moves(arrs):
            """after the clamp exists the caller changes its own arrays in place (the mesh moves on)"""
            if case.get("caller_mutates"):
                for i, a in enumerate(arrs):
                    a *= -1.25
                    a += np.array([0.75, -1.5, 2.25]) * (i + 1)

        if k == "line":
            p1, p2, pos = callers(case["p1"], case["p2"], case["pos"])
            b = case["bounds"]
            clamp = cb.LineClamp(pos, p1, p2, None if b is None else (float(Fr(b[0])), float(Fr(b[1]))))
            out["s"] = float(f.norm(np.array(FV(case["p2"])) - np.array(FV(case["p1"]))))
            caller_moves([p1, p2, pos])
            out["bounds"] = [float(x) for x in clamp.bounds[0]]
            out["initial"] = fl(clamp.position)
            out["param0"] = float(clamp.params[0])
            out["positions"] = []
            for t in case["ts"]:
                clamp.update_params([float(Fr(t))])
                out["positions"].append(fl(clamp.position))
            return out
        if k == "plane":
            np.random.seed(case["npseed"])
            own = callers(case["pos"], case["point"], case["n"])
            clamp = cb.PlaneClamp(*own)
            out["initial"] = fl(clamp.position)
            caller_moves(own)
            f0 = np.asarray(clamp.function([0.0, 0.0]))
            out["u"] = fl(np.asarray(clamp.function([1.0, 0.0])) - f0)
            out["v"] = fl(np.asarray(clamp.function([0.0, 1.0])) - f0)
            out["f0"] = fl(f0)
            out["positions"] = []
            for a, b in case["ab"]:
                clamp.update_params([float(Fr(a)), float(Fr(b))])
                out["positions"].append(fl(clamp.position))
            return out
        if k == "radial":
            center, n, pos = FV(case["center"]), FV(case["n"]), FV(case["pos"])
            radius = float(f.point_to_line_distance(center, n, pos))
            ts = []
            for w, mu in case["turns"]:
                # the quaternion (w, mu*n) turns by theta about mu*n, i.e. by -theta about n when mu < 0
                ts.append(quat_theta(w, mul(Fr(mu), V(case["n"]))) * (1 if Fr(mu) >= 0 else -1) * radius)
            bounds = None
            if case["bounded"]:
                bounds = [min(ts + [0.0]) - 0.5, max(ts + [0.0]) + 0.5]
            own = callers(pos, center, n)
            clamp = cb.RadialClamp(own[0], own[1], own[2], bounds)
            out["initial"] = fl(clamp.position)
            caller_moves(own)
            out["radius"] = radius
            out["ts"] = ts
            out["positions"] = []
            for t in ts:
                clamp.update_params([t])
                out["positions"].append(fl(clamp.position))
            return out
        if k == "curve":
            curve = build_curve(case["curve"]) if case["curve"]["c"] != "helix" else helix_curve(case["frame"])
            lo, hi = float(curve.bounds[0]), float(curve.bounds[1])
            est = None
            if case.get("est") is not None:
                # a user-supplied starting estimate: near the right parameter, not equal to it
                est = min(max(float(curve.get_closest_param(FV(case["pos"]))) + case["est"] * (hi - lo), lo), hi)
            out["estimate"] = est
            own = callers(case["pos"])
            clamp = cb.CurveClamp(own[0], curve, est)
            out["initial"] = fl(clamp.position)
            out["param0"] = float(clamp.params[0])
            caller_moves(own)
            out["positions"] = []
            out["defs"] = []
            lo, hi = float(curve.bounds[0]), float(curve.bounds[1])
            out["bounds"] = [lo, hi]
            if case["curve"]["c"] == "linear":
                # the parametrisation the library chose (chord length) and the points it interpolates
                out["knots"] = [float(x) for x in curve.function.params]
                out["knot_points"] = [fl(r) for r in curve.array.points]
            out["used_params"] = []
            for t in case["params"]:
                t = min(max(float(Fr(t)), lo), hi)
                out["used_params"].append(t)
                clamp.update_params([t])
                out["positions"].append(fl(clamp.position))
            out["turn_positions"] = []
            for w_, mu_ in case["curve"].get("turns", []):
                t = quat_theta(w_, mul(Fr(mu_), V(case["curve"]["n"])))
                clamp.update_params([t])
                out["turn_positions"].append(fl(clamp.position))
            # dense scan of the curve: no sampled point may be much closer to the creation position than the reported one
            dense = [np.asarray(curve.get_point(lo + (hi - lo) * i / 2000)) for i in range(2001)]
            out["scan_min"] = float(min(np.linalg.norm(np.array(FV(case["pos"])) - q) for q in dense))
            out["reported_dist"] = float(np.linalg.norm(np.array(FV(case["pos"])) - np.array(out["initial"])))
            return out
        if k == "surface":
            fn, resid = surface_fn(case["surface"], case["frame"])
            e3 = np.array(case["frame"][3])
            pos = np.asarray(fn(case["uv0"])) + case["off"] * e3
            guess = list(case["uv0"]) if case["off"] == 0 and not case.get("noguess") else None
            if case.get("est") is not None:
                guess = [case["uv0"][0] + case["est"][0], case["uv0"][1] + case["est"][1]]
            clamp = ParametricSurfaceClamp(pos, fn, [[-3, 3], [-3, 3]], guess)
            out["pos"] = fl(pos)
            out["initial"] = fl(clamp.position)
            out["params0"] = [float(x) for x in clamp.params]
            out["resid0"] = float(resid(clamp.position))
            out["positions"] = []
            out["resids"] = []
            for uv in case["uvs"]:
                clamp.update_params(list(uv))
                out["positions"].append(fl(clamp.position))
                out["resids"].append(float(resid(clamp.position)))
            grid = [np.asarray(fn([-3 + 6 * i / 300, -3 + 6 * j / 300])) for i in range(301) for j in range(301)]
            out["scan_min"] = float(min(np.linalg.norm(pos - q) for q in grid))
            out["reported_dist"] = float(np.linalg.norm(pos - np.array(out["initial"])))
            return out
        if k == "free":
            clamp = cb.FreeClamp(FV(case["pos"]))
            out["initial"] = fl(clamp.position)
            out["positions"] = []
            for m in case["moves"]:
                clamp.update_params(FV(m))
                out["positions"].append(fl(clamp.position))
            return out

        if k == "grid":
            from classy_blocks.optimize.grid import QuadGrid

            positions = np.array([FV(p) for p in case["points"]])
            quads = [[0, 1, 4, 3], [1, 2, 5, 4], [3, 4, 7, 6], [4, 5, 8, 7]]
            grid = QuadGrid(np.copy(positions), quads)
            li = case["leader"]
            links = []
            for ld in case["links"]:
                if ld["type"] == "t":
                    link = cb.TranslationLink(positions[li], positions[ld["follower"]])
                else:
                    link = cb.SymmetryLink(positions[li], positions[ld["follower"]], FV(ld["n"]), FV(ld["o"]))
                grid.add_link(link)
                links.append(link)
            out["steps"] = []
            for m in case["moves"]:
                target = np.array(FV(m))
                snap = np.copy(target)
                try:
                    grid.update(li, target)
                except (ValueError, FloatingPointError, ZeroDivisionError):
                    pass  # the quality of a distorted cell is none of this property's business
                out["steps"].append(
                    {
                        "leader_point": fl(grid.points[li]),
                        "argument_intact": bool(np.array_equal(target, snap)),
                        "links": [
                            {"leader": fl(l.leader), "follower": fl(l.follower), "grid_point": fl(grid.points[ld["follower"]])}
                            for l, ld in zip(links, case["links"])
                        ],
                    }
                )
            return out

        # ---- links: the leader is an array owned by the caller
        def observe(link, owned, snapshot):
            return {
                "leader": fl(link.leader),
                "follower": fl(link.follower),
                "leader_is_callers_array": link.leader is owned,
                "callers_array_intact": bool(np.array_equal(owned, snapshot)) and owned.dtype == snapshot.dtype,
            }

        def conv(v, as_int):
            return np.array([int(Fr(c)) for c in v]) if as_int else np.array(FV(v))

        if k == "tlink":
            arg = conv(case["leader"], case.get("int_leader", False))
            arg0 = np.copy(arg)
            farg = np.array(FV(case["follower"]))
            link = cb.TranslationLink(arg, farg)
            out["ctor_arg_intact"] = bool(np.array_equal(arg, arg0))
            out["after_ctor"] = {"leader": fl(link.leader), "follower": fl(link.follower)}
        elif k == "slink":
            arg = conv(case["leader"], case.get("int_leader", False))
            arg0 = np.copy(arg)
            farg = arg0 * 0.0
            link = cb.SymmetryLink(arg, farg, FV(case["n"]), FV(case["o"]))
            out["ctor_arg_intact"] = bool(np.array_equal(arg, arg0))
            out["after_ctor"] = {"leader": fl(link.leader), "follower": fl(link.follower)}
            link.update()
            out["after_first_update"] = {"leader": fl(link.leader), "follower": fl(link.follower)}
        else:
            arg = np.array(FV(case["leader"]))
            arg0 = np.copy(arg)
            farg = np.array(FV(case["follower"]))
            link = cb.RotationLink(arg, farg, FV(case["axis"]), FV(case["o"]))
            out["ctor_arg_intact"] = bool(np.array_equal(arg, arg0))
            out["after_ctor"] = {"leader": fl(link.leader), "follower": fl(link.follower)}
        out["steps"] = []
        for m in case["moves"]:
            if k == "rlink" and "w" in m:
                a = mul(Fr(m["mu"]), V(case["axis"]))
                rel = sub(V(FV(case["leader"])), V(FV(case["o"])))
                target = add(V(FV(case["o"])), mat_vec(quat_matrix(m["w"], a), rel))
                owned = np.array(fl(target))
            elif k == "rlink":
                owned = np.array(FV(m["to"]))
            else:
                owned = np.array(FV(m))
            how = (case.get("how") or ["assign"] * len(case["moves"]))[len(out["steps"])]
            if how != "assign" and link.leader.dtype.kind == "f":
                # the caller keeps the array it gave to the link and moves it in place
                target, owned = owned, link.leader
                if how == "iadd":
                    owned += target - owned
                    owned[:] = target  # exactly the target (the sum may be off by a rounding error)
                elif how == "slice":
                    owned[:] = target
                else:
                    for i in range(3):
                        owned[i] = target[i]
            else:
                link.leader = owned  # what Grid.update does with the clamp position
            snap = np.copy(owned)
            nq = (case.get("queries") or [0] * len(case["moves"]))[len(out["steps"])]
            previews = [fl(link.transform()) for _ in range(nq)]
            link.update()
            out["steps"].append(observe(link, owned, snap))
            out["steps"][-1]["previews"] = previews
            if case.get("backport"):
                # the arrays given to the constructor are the caller's own points (vertex.position): the caller
                # applies every result to them in place (Vertex.move_to, as the optimizers' backport() does)
                farg[:] = link.follower
                if arg.dtype.kind == "f":
                    arg[:] = snap
        return out

    # ------------------------------------------------------------------ model
    def requests(self, case: dict, impl: Any) -> List[str]:
        if "raised" in impl:
            return []
        k = case["kind"]
        r = core.rat
        if k == "line":
            p1, p2 = enc_v(FV(case["p1"])), enc_v(FV(case["p2"]))
            lo, hi = self._line_bounds(case, impl)
            reqs = [f"c17.lineinit {p1} {p2} {r(impl['s'])} {r(lo)} {r(hi)} {enc_v(FV(case['pos']))}"]
            reqs += [f"c17.line {p1} {p2} {r(impl['s'])} {r(float(Fr(t)))}" for t in case["ts"]]
            return reqs
        if k == "plane":
            pt = enc_v(FV(case["point"]))
            reqs = [f"c17.planeinit {pt} {enc_v(FV(case['n']))} {enc_v(FV(case['pos']))}"]
            reqs += [f"c17.plane {pt} {enc_v(impl['u'])} {enc_v(impl['v'])} {r(float(Fr(a)))} {r(float(Fr(b)))}" for a, b in case["ab"]]
            return reqs
        if k == "radial":
            c, n, pos = enc_v(FV(case["center"])), enc_v(FV(case["n"])), enc_v(FV(case["pos"]))
            return [f"c17.radial {c} {n} {r(Fr(w))} {r(Fr(mu))} {pos}" for w, mu in case["turns"]]
        if k == "tlink":
            l0 = [float(int(Fr(c))) for c in case["leader"]] if case.get("int_leader") else FV(case["leader"])
            return [f"c17.tlink {enc_v(l0)} {enc_v(FV(case['follower']))} {enc_v(FV(m))}" for m in case["moves"]]
        if k == "slink":
            n, o = enc_v(FV(case["n"])), enc_v(FV(case["o"]))
            l0 = [float(int(Fr(c))) for c in case["leader"]] if case.get("int_leader") else FV(case["leader"])
            return [f"c17.slink {n} {o} {enc_v(l0)}"] + [f"c17.slink {n} {o} {enc_v(FV(m))}" for m in case["moves"]]
        if k == "grid":
            reqs = []
            l0 = FV(case["points"][case["leader"]])
            for m in case["moves"]:
                for ld in case["links"]:
                    if ld["type"] == "t":
                        reqs.append(f"c17.tlink {enc_v(l0)} {enc_v(FV(case['points'][ld['follower']]))} {enc_v(FV(m))}")
                    else:
                        reqs.append(f"c17.slink {enc_v(FV(ld['n']))} {enc_v(FV(ld['o']))} {enc_v(FV(m))}")
            return reqs
        if k == "curve" and case["curve"]["c"] == "line":
            p1, p2 = enc_v(FV(case["curve"]["p1"])), enc_v(FV(case["curve"]["p2"]))
            lo, hi = impl["bounds"]
            reqs = [f"c17.curvelineinit {p1} {p2} {r(lo)} {r(hi)} {enc_v(FV(case['pos']))}"]
            reqs += [f"c17.curveline {p1} {p2} {r(t)}" for t in impl["used_params"]]
            return reqs
        if k == "curve" and case["curve"]["c"] == "circle" and case["curve"].get("turns"):
            c = case["curve"]
            return [f"c17.curvecircle {enc_v(FV(c['o']))} {enc_v(FV(c['rim']))} {enc_v(FV(c['n']))} {r(Fr(w_))} {r(Fr(mu_))}" for w_, mu_ in c["turns"]]
        if k == "curve" and case["curve"]["c"] == "linear":
            # the model computes the chord-length parameters itself from the GIVEN points; the segment lengths enter
            # as square-root witnesses the harness computes from the case (not read off the library)
            pts = [FV(q) for q in case["curve"]["pts"]]
            lens = [math.sqrt(sum((b - a) ** 2 for a, b in zip(p0, p1))) for p0, p1 in zip(pts, pts[1:])]
            tail = " ".join(enc_v(q) for q in pts) + " " + " ".join(r(ln) for ln in lens)
            return [f"c17.chord {r(t)} {len(pts)} {tail}" for t in [impl["param0"]] + impl["used_params"]]
        if k == "surface" and surface_exact(case["surface"], case["frame"])[0]:
            kind, pts = surface_exact(case["surface"], case["frame"])
            op = "c17.surfplane" if kind == "plane" else "c17.surfbilinear"
            head = " ".join(",".join(r(c) for c in p) for p in pts)
            return [f"{op} {head} {r(float(u))} {r(float(v))}" for u, v in [impl["params0"]] + [list(uv) for uv in case["uvs"]]]
        if k == "rlink":
            a, o = FV(case["axis"]), enc_v(FV(case["o"]))
            l0, f0 = enc_v(FV(case["leader"])), enc_v(FV(case["follower"]))
            reqs = []
            for m, st in zip(case["moves"], impl["steps"]):
                if "w" in m:
                    reqs.append(f"c17.rlink {r(Fr(m['w']))} {enc_v([float(Fr(m['mu'])) * c for c in a])} {o} {l0} {f0}")
                else:
                    reqs.append(f"c17.rvalid {enc_v(a)} {o} {l0} {enc_v(st['leader'])} {f0} {enc_v(st['follower'])} 1/10000000")
            return reqs
        return []

    @staticmethod
    def _line_bounds(case, impl):
        """documented bounds of a LineClamp: the given ones, else 0 … |p2 - p1| (the length as the library computed it)"""
        b = case["bounds"]
        return (0.0, impl["s"]) if b is None else (float(Fr(b[0])), float(Fr(b[1])))

    def compare(self, case: dict, impl: Any, model: List[str]) -> Optional[str]:
        k = case["kind"]

        def chk(ans: str, obs, tol, what) -> Optional[str]:
            if "," not in ans:
                return f"{what}: model answers {ans}"
            m = parse_v(ans.split()[0])
            if not _near(m, obs, tol * _scale(obs)):
                return f"{what}: model {fl(m)}, implementation {obs}"
            return None

        def chk_initial(ans: str, what: str) -> Optional[str]:
            if case["on"]:
                return chk(ans, impl["initial"], MIN_TOL, what)
            if "," not in ans:
                return f"{what}: model answers {ans}"
            m = parse_v(ans.split()[0])
            if not closest_ok(FV(case["pos"]), impl["initial"], m):
                return (
                    f"{what}: model {fl(m)}, implementation {impl['initial']} is "
                    f"{excess_distance(FV(case['pos']), impl['initial'], m):.3e} farther from the creation position"
                )
            return None

        if k == "line":
            w = chk_initial(model[0], "initial position of LineClamp")
            if w:
                return w
            for t, a, p in zip(case["ts"], model[1:], impl["positions"]):
                w = chk(a, p, POS_TOL, f"LineClamp at t={t}")
                if w:
                    return w
        elif k == "curve" and case["curve"]["c"] == "line" and model:
            # created on the curve: the reported point is the creation point; off the curve: judged by distance
            w = chk_initial(model[0], "initial position of CurveClamp(LineCurve)")
            if w:
                return w
            for t, a, p in zip(impl["used_params"], model[1:], impl["positions"]):
                w = chk(a, p, POS_TOL, f"CurveClamp(LineCurve) at t={t}")
                if w:
                    return w
        elif k == "curve" and case["curve"]["c"] == "circle" and model:
            for tn, a, p in zip(case["curve"]["turns"], model, impl["turn_positions"]):
                w = chk(a, p, 1e-8, f"CurveClamp(CircleCurve) turned by quaternion {tn}")
                if w:
                    return w
        elif k == "curve" and case["curve"]["c"] == "linear" and model:
            for t, a, p in zip([impl["param0"]] + impl["used_params"], model, [impl["initial"]] + impl["positions"]):
                parts = a.split()
                if len(parts) != 2 or not parts[0].startswith("["):
                    return f"CurveClamp(LinearInterpolatedCurve): model answers {a[:80]}"
                mk = [float(core.parse_rat(x)) for x in parts[0].strip("[]").split(",")]
                if len(mk) != len(impl["knots"]) or any(abs(x - y) > 1e-12 for x, y in zip(mk, impl["knots"])):
                    return f"LinearInterpolatedCurve parameters: model (chord length) {mk}, implementation {impl['knots']}"
                w = chk(parts[1], p, POS_TOL, f"CurveClamp(LinearInterpolatedCurve) at t={t}")
                if w:
                    return w
        elif k == "surface" and model:
            for uv, a, p in zip([impl["params0"]] + [list(x) for x in case["uvs"]], model, [impl["initial"]] + impl["positions"]):
                w = chk(a, p, POS_TOL, f"ParametricSurfaceClamp({case['surface']}) at {uv}")
                if w:
                    return w
        elif k == "plane":
            w = chk_initial(model[0], "initial position of PlaneClamp")
            if w:
                return w
            for ab, a, p in zip(case["ab"], model[1:], impl["positions"]):
                w = chk(a, p, POS_TOL, f"PlaneClamp at {ab}")
                if w:
                    return w
        elif k == "radial":
            for tn, a, p in zip(case["turns"], model, impl["positions"]):
                w = chk(a, p, 1e-8, f"RadialClamp turned by quaternion {tn}")
                if w:
                    return w
        elif k == "tlink":
            for m, a, st in zip(case["moves"], model, impl["steps"]):
                w = chk(a, st["follower"], POS_TOL, f"TranslationLink follower after leader -> {m}")
                for pv in st.get("previews", []):
                    w = w or chk(a, pv, POS_TOL, f"TranslationLink.transform() queried after leader -> {m}")
                if w:
                    return w
        elif k == "slink":
            w = chk(model[0], impl["after_first_update"]["follower"], POS_TOL, "SymmetryLink follower after the first update")
            if w:
                return w
            for m, a, st in zip(case["moves"], model[1:], impl["steps"]):
                w = chk(a, st["follower"], POS_TOL, f"SymmetryLink follower after leader -> {m}")
                for pv in st.get("previews", []):
                    w = w or chk(a, pv, POS_TOL, f"SymmetryLink.transform() queried after leader -> {m}")
                if w:
                    return w
        elif k == "grid":
            it = iter(model)
            for m, st in zip(case["moves"], impl["steps"]):
                for ld, ls in zip(case["links"], st["links"]):
                    a = next(it)
                    w = chk(a, ls["follower"], POS_TOL, f"grid.update: follower of link {ld} after leader -> {m}") or chk(
                        a, ls["grid_point"], POS_TOL, f"grid.update: grid point of the follower of link {ld} after leader -> {m}"
                    )
                    if w:
                        return w
        elif k == "rlink":
            for m, a, st in zip(case["moves"], model, impl["steps"]):
                if "w" in m:
                    parts = a.split()
                    if len(parts) != 2:
                        return f"RotationLink: model answers {a}"
                    w = chk(parts[0], st["leader"], 1e-12, "RotationLink: leader position handed to the link") or chk(
                        parts[1], st["follower"], 1e-7, f"RotationLink follower after turning the leader by {m}"
                    )
                    for pv in st.get("previews", []):
                        w = w or chk(parts[1], pv, 1e-7, f"RotationLink.transform() queried after turning the leader by {m}")
                    if w:
                        return w
                elif a != "ok":
                    return f"RotationLink after leader -> {m['to']}: relation check says {a}"
        return None

    # ------------------------------------------------------------------ oracle
    def oracle(self, case: dict, impl: Any) -> List[dict]:
        import numpy as np

        out: List[dict] = []
        k = case["kind"]
        if "raised" in impl:
            on_axis = k == "rlink" and not case["moves"]
            if on_axis and impl["raised"] == "ValueError":
                return out
            return [{"site": f"{k}:raised", "what": f"{impl['raised']}: {impl.get('msg')}"}]
        if k == "rlink" and not case["moves"]:
            return [{"site": "RotationLink:leader-on-axis-accepted", "what": "a leader on the axis was accepted"}]
        A = np.array
        if case.get("far") and k in ("line", "plane", "radial", "curve", "surface"):
            # far from the origin a tolerance relative to the coordinates is metres: a clamp created ON its manifold
            # reports the creation position to 1e-7 of the coordinates (the library's minimiser does 1e-6 absolute)
            cls = {"line": "LineClamp", "plane": "PlaneClamp", "radial": "RadialClamp", "curve": "CurveClamp", "surface": "ParametricSurfaceClamp"}[k]
            created = A(impl["pos"]) if k == "surface" else A(FV(case["pos"]))
            err = float(np.linalg.norm(A(impl["initial"]) - created))
            if err > 1e-7 * float(case["far"]):
                out.append({"site": f"{cls}:initial-position:far-from-origin", "what": f"coordinates of the order of {case['far']:g}: a clamp created on its manifold reports a point {err:.3g} away from the creation position", "observed": impl["initial"], "expected": fl(created)})
        if k in ("tlink", "slink", "rlink"):
            cls = {"tlink": "TranslationLink", "slink": "SymmetryLink", "rlink": "RotationLink"}[k]
            for m, st in zip(case["moves"], impl["steps"]):
                sc = _scale(st["follower"])
                bad = [pv for pv in st.get("previews", []) if not _near(pv, st["follower"], 1e-9 * sc)]
                if bad:
                    out.append({"site": f"{cls}:transform-query-changes-update", "what": f"leader -> {m}: transform() was asked {len(st['previews'])} time(s) before update(); the answers {st['previews']} are not the follower update() then stored", "observed": st["follower"]})
                    break
        if k == "line":
            p1, p2, pos = A(FV(case["p1"])), A(FV(case["p2"])), A(FV(case["pos"]))
            d = p2 - p1
            sc = _scale(p1, p2, pos)
            lo, hi = self._line_bounds(case, impl)
            if not _near([lo, hi], impl["bounds"], 1e-12 * sc):
                out.append({"site": "LineClamp:default-bounds", "what": "bounds are not (0, |p2 - p1|) / the ones given", "observed": impl["bounds"], "expected": [lo, hi]})
            t0 = min(max(float((pos - p1) @ d / np.linalg.norm(d)), lo), hi)
            exp = p1 + t0 * d / np.linalg.norm(d)
            q0 = A(impl["initial"])
            t_rep = float((q0 - p1) @ d / np.linalg.norm(d))
            if np.linalg.norm(np.cross(q0 - p1, d)) > 1e-9 * sc * np.linalg.norm(d) or not (lo - 1e-9 * sc <= t_rep <= hi + 1e-9 * sc):
                out.append({"site": "LineClamp:initial-position:off-segment", "what": f"a fresh clamp reports a point that is not on its segment (parameter {t_rep}, bounds {lo} … {hi})", "observed": impl["initial"]})
            elif case["on"] and not _near(exp, impl["initial"], MIN_TOL * sc):
                out.append({"site": "LineClamp:initial-position:on-line", "what": "a clamp created on its segment does not report the creation position", "observed": impl["initial"], "expected": fl(exp)})
            elif not case["on"] and not closest_ok(pos, impl["initial"], exp):
                out.append({"site": "LineClamp:initial-position:projection", "what": f"a fresh clamp reports a point that is {excess_distance(pos, impl['initial'], exp):.3e} farther from the creation position than the closest point of its segment", "observed": impl["initial"], "expected": fl(exp)})
            for t, p in zip(case["ts"], impl["positions"]):
                q = A(p)
                if np.linalg.norm(np.cross(q - p1, d)) > 1e-9 * sc * np.linalg.norm(d):
                    out.append({"site": "LineClamp:position-off-line", "what": f"t={t}", "observed": p})
                    break
                if abs((q - p1) @ d / np.linalg.norm(d) - float(Fr(t))) > 1e-9 * sc:
                    out.append({"site": "LineClamp:parameter-is-not-distance", "what": f"t={t}", "observed": p})
                    break
        elif k == "plane":
            point, n, pos = A(FV(case["point"])), A(FV(case["n"])), A(FV(case["pos"]))
            nn = n / np.linalg.norm(n)
            sc = _scale(point, pos)
            for name in ("u", "v"):
                # u, v are read off as differences of positions: their rounding error grows with the coordinates
                if abs(A(impl[name]) @ nn) > 1e-12 + 8e-16 * sc:
                    out.append({"site": "PlaneClamp:direction-not-in-plane", "what": f"{name}_dir . normal = {A(impl[name]) @ nn}"})
            exp = pos - ((pos - point) @ nn) * nn
            if abs((A(impl["initial"]) - point) @ nn) > 1e-9 * sc:
                out.append({"site": "PlaneClamp:initial-position:off-plane", "what": "a fresh clamp reports a point that is not on its plane", "observed": impl["initial"]})
            elif case["on"] and not _near(exp, impl["initial"], MIN_TOL * sc):
                out.append({"site": "PlaneClamp:initial-position:on-plane", "what": "a clamp created on its plane does not report the creation position", "observed": impl["initial"], "expected": fl(exp)})
            elif not case["on"] and not closest_ok(pos, impl["initial"], exp):
                out.append({"site": "PlaneClamp:initial-position:projection", "what": f"a fresh clamp reports a point that is {excess_distance(pos, impl['initial'], exp):.3e} farther from the creation position than the foot point on its plane", "observed": impl["initial"], "expected": fl(exp)})
            for ab, p in zip(case["ab"], impl["positions"]):
                if abs((A(p) - point) @ nn) > 1e-9 * _scale(p, point):
                    out.append({"site": "PlaneClamp:position-off-plane", "what": f"params {ab}", "observed": p})
                    break
        elif k == "radial":
            c, n, pos = A(FV(case["center"])), A(FV(case["n"])), A(FV(case["pos"]))
            nn = n / np.linalg.norm(n)
            sc = _scale(c, pos)
            if not _near(pos, impl["initial"], MIN_TOL * sc):
                out.append({"site": "RadialClamp:initial-position", "what": "a fresh clamp does not report its creation position", "observed": impl["initial"], "expected": fl(pos)})
            h0 = (pos - c) @ nn
            r0 = np.linalg.norm((pos - c) - h0 * nn)
            rad0 = (pos - c) - h0 * nn
            for t, p in zip(impl["ts"], impl["positions"]):
                q = A(p) - c
                h = q @ nn
                rad = q - h * nn
                if abs(h - h0) > 1e-9 * sc or abs(np.linalg.norm(rad) - r0) > 1e-9 * sc:
                    out.append({"site": "RadialClamp:position-off-circle", "what": f"t={t}: height {h} vs {h0}, radius {np.linalg.norm(rad)} vs {r0}", "observed": p})
                    break
                ang = math.atan2(np.cross(rad0, rad) @ nn, rad0 @ rad)
                want = t / r0
                if abs(math.remainder(ang - want, 2 * math.pi)) > 1e-8:
                    out.append({"site": "RadialClamp:parameter-is-not-arc-length", "what": f"t={t}: turned by {ang}, expected {want}", "observed": p})
                    break
        elif k == "curve":
            ck = case["curve"]["c"]
            sc = _scale(impl["initial"])
            fr = [A(x) for x in case["frame"]]
            allpos = [impl["initial"]] + impl["positions"]
            for p in allpos:
                q = A(p) - fr[0]
                x, y, z = q @ fr[1], q @ fr[2], q @ fr[3]
                bad = False
                if ck == "line" and not case.get("far"):  # the line (0,0,0) – (4,1,0) of the frame
                    bad = abs(z) > 1e-9 * sc or abs(y - x / 4) > 1e-9 * sc
                elif ck == "line":
                    a_, b_ = A(FV(case["curve"]["p1"])), A(FV(case["curve"]["p2"]))
                    bad = float(np.linalg.norm(np.cross(A(p) - a_, b_ - a_))) > 1e-9 * sc * float(np.linalg.norm(b_ - a_))
                elif ck == "circle":
                    bad = abs(z) > 1e-9 * sc or abs(math.hypot(x, y) - 2) > 1e-9 * sc
                if bad:
                    out.append({"site": f"CurveClamp:{ck}:position-off-curve", "what": f"local coordinates {(x, y, z)}", "observed": p})
                    break
            if ck == "linear" and "knots" in impl:
                # independent of the model: every reported position lies on a segment of the polyline through the
                # given points, at the arc-length fraction its parameter says (chord-length parametrisation)
                pts = [A(FV(q)) for q in case["curve"]["pts"]]
                seg = [float(np.linalg.norm(b - a)) for a, b in zip(pts, pts[1:])]
                total = sum(seg)
                for t, p in zip([impl["param0"]] + impl["used_params"], allpos):
                    s_target, acc, expect = t * total, 0.0, pts[-1]
                    for a, b, ln in zip(pts, pts[1:], seg):
                        if s_target <= acc + ln + 1e-12:
                            expect = a + (b - a) * ((s_target - acc) / ln)
                            break
                        acc += ln
                    if float(np.linalg.norm(A(p) - expect)) > 1e-8 * sc:
                        out.append({"site": "CurveClamp:linear:position-off-polyline", "what": f"parameter {t}: expected the point at arc-length fraction {t} of the polyline, {expect.tolist()}", "observed": p})
                        break
            if ck in ("line", "linear"):
                lo_b, hi_b = impl.get("bounds", [0.0, 1.0])
                if not (lo_b - 1e-9 <= impl["param0"] <= hi_b + 1e-9):
                    out.append({"site": f"CurveClamp:{ck}:initial-parameter-out-of-bounds", "what": f"bounds {[lo_b, hi_b]}", "observed": impl["param0"]})
            est = ":with-estimate" if case.get("est") is not None else ""
            if impl["reported_dist"] > impl["scan_min"] + 1e-4 * sc:
                out.append({"site": f"CurveClamp:{ck}:initial-position{est}", "what": (f"initial_param={impl.get('estimate')}: " if est else "") + f"reported point at distance {impl['reported_dist']}, a scan of the curve finds {impl['scan_min']}", "observed": impl["initial"]})
            if case["on"] and impl["reported_dist"] > 1e-4 * sc:
                out.append({"site": f"CurveClamp:{ck}:initial-position:on-curve{est}", "what": f"created on the curve but reports a point {impl['reported_dist']} away", "observed": impl["initial"]})
        elif k == "surface":
            sc = _scale(impl["pos"])
            for rres, p in zip([impl["resid0"]] + impl["resids"], [impl["initial"]] + impl["positions"]):
                if abs(rres) > 1e-9 * sc * sc:
                    out.append({"site": f"ParametricSurfaceClamp:{case['surface']}:position-off-surface", "what": f"implicit equation residual {rres}", "observed": p})
                    break
            est = ":with-estimate" if case.get("est") is not None else ""
            if case["off"] == 0 and impl["reported_dist"] > 1e-3 * sc:
                out.append({"site": f"ParametricSurfaceClamp:{case['surface']}:initial-position:on-surface{est}", "what": f"created on the surface but reports a point {impl['reported_dist']} away", "observed": impl["initial"]})
            if impl["reported_dist"] > impl["scan_min"] + 1e-3 * sc:
                out.append({"site": f"ParametricSurfaceClamp:{case['surface']}:initial-position{est}", "what": f"reported point at distance {impl['reported_dist']}, a scan of the surface finds {impl['scan_min']}"})
        elif k == "free":
            if not _near(FV(case["pos"]), impl["initial"], 1e-12):
                out.append({"site": "FreeClamp:initial-position", "what": "does not report its creation position", "observed": impl["initial"]})
            for m, p in zip(case["moves"], impl["positions"]):
                if not _near(FV(m), p, 1e-12):
                    out.append({"site": "FreeClamp:position", "what": f"params {m}", "observed": p})
                    break
        elif k == "grid":
            pts = [A(FV(p)) for p in case["points"]]
            l0 = pts[case["leader"]]
            for m, st in zip(case["moves"], impl["steps"]):
                l1 = A(FV(m))
                sc = _scale(l1)
                if not st["argument_intact"] or not _near(l1, st["leader_point"], 1e-12 * sc):
                    out.append({"site": "GridBase.update:leader", "what": f"leader -> {m}: the grid's leader point / the caller's position array is not the given position", "observed": st["leader_point"]})
                    break
                for ld, ls in zip(case["links"], st["links"]):
                    f0 = pts[ld["follower"]]
                    for which in ("follower", "grid_point"):
                        f1 = A(ls[which])
                        if ld["type"] == "t":
                            ok = _near(f1 - l1, f0 - l0, 1e-9 * sc)
                        else:
                            n, o = A(FV(ld["n"])), A(FV(ld["o"]))
                            nn = n / np.linalg.norm(n)
                            ok = abs(((l1 + f1) / 2 - o) @ nn) <= 1e-9 * sc and np.linalg.norm(np.cross(f1 - l1, nn)) <= 1e-9 * sc
                        if not ok:
                            name = "TranslationLink" if ld["type"] == "t" else "SymmetryLink"
                            out.append({"site": f"GridBase.update:{name}:{which}-does-not-follow", "what": f"leader {case['leader']} -> {m}: link to point {ld['follower']} (one of {len(case['links'])} links of this leader)", "observed": ls[which]})
                            break
        else:
            name = {"tlink": "TranslationLink", "slink": "SymmetryLink", "rlink": "RotationLink"}[k]
            l0 = A([float(int(Fr(c))) for c in case["leader"]]) if case.get("int_leader") else A(FV(case["leader"]))
            if not impl["ctor_arg_intact"]:
                out.append({"site": f"{name}:constructor-modifies-argument", "what": "the leader array passed to the constructor was modified"})
            if not _near(l0, impl["after_ctor"]["leader"], 1e-12):
                out.append({"site": f"{name}:constructor-moves-leader", "what": "leader after construction", "observed": impl["after_ctor"]["leader"], "expected": fl(l0)})
            if k == "slink" and not _near(l0, impl["after_first_update"]["leader"], 1e-12):
                out.append({"site": f"{name}:update-moves-leader", "what": "leader after the first update()", "observed": impl["after_first_update"]["leader"], "expected": fl(l0)})
            for m, st in zip(case["moves"], impl["steps"]):
                if not (st["leader_is_callers_array"] and st["callers_array_intact"]):
                    out.append({"site": f"{name}:update-moves-leader", "what": f"the leader array set by the caller was changed by update() (leader -> {m})", "observed": st["leader"]})
                    break
                l1, f1 = A(st["leader"]), A(st["follower"])
                if not (np.all(np.isfinite(l1)) and np.all(np.isfinite(f1))):
                    # comparisons with nan are all false: a non-finite follower must not pass as 'relation kept'
                    out.append({"site": f"{name}:follower-not-finite", "what": f"leader -> {m}", "observed": st["follower"]})
                    break
                sc = _scale(l1, f1)
                if k == "tlink":
                    f0 = A(FV(case["follower"]))
                    if not _near(f1 - l1, f0 - l0, 1e-9 * sc):
                        out.append({"site": f"{name}:offset-not-kept", "what": f"leader -> {m}", "observed": fl(f1 - l1), "expected": fl(f0 - l0)})
                        break
                elif k == "slink":
                    n, o = A(FV(case["n"])), A(FV(case["o"]))
                    nn = n / np.linalg.norm(n)
                    mid = (l1 + f1) / 2
                    if abs((mid - o) @ nn) > 1e-9 * sc or np.linalg.norm(np.cross(f1 - l1, nn)) > 1e-9 * sc:
                        out.append({"site": f"{name}:follower-is-not-mirror-image", "what": f"leader -> {m}: midpoint off the plane by {(mid - o) @ nn}, or leader-follower not normal to it", "observed": st["follower"]})
                        break
                else:
                    ax, o, f0 = A(FV(case["axis"])), A(FV(case["o"])), A(FV(case["follower"]))
                    nn = ax / np.linalg.norm(ax)

                    def hr(p):
                        q = p - o
                        h = q @ nn
                        return h, q - h * nn

                    hl0, rl0 = hr(l0)
                    hl1, rl1 = hr(l1)
                    hf0, rf0 = hr(f0)
                    hf1, rf1 = hr(f1)
                    if abs(hf1 - hf0) > 1e-8 * sc or abs(np.linalg.norm(rf1) - np.linalg.norm(rf0)) > 1e-8 * sc:
                        out.append({"site": f"{name}:follower-off-its-circle", "what": f"leader -> {m}: height {hf1} vs {hf0}, radius {np.linalg.norm(rf1)} vs {np.linalg.norm(rf0)}", "observed": st["follower"]})
                        break
                    al = math.atan2(np.cross(rl0, rl1) @ nn, rl0 @ rl1)
                    af = math.atan2(np.cross(rf0, rf1) @ nn, rf0 @ rf1)
                    if abs(math.remainder(al - af, 2 * math.pi)) > 1e-6:
                        out.append({"site": f"{name}:follower-angle", "what": f"leader -> {m}: leader turned by {al}, follower by {af}", "observed": st["follower"]})
                        break
        seen, uniq = set(), []
        for v in out:
            if v["site"] not in seen:
                seen.add(v["site"])
                uniq.append(v)
        return uniq

    # ------------------------------------------------------------------ bookkeeping
    def classify(self, case, impl):
        k = case["kind"]
        if isinstance(impl, dict) and "raised" in impl:
            return f"{k}:rejected:{impl['raised']}"
        if case.get("far"):
            return f"{k}:far-from-origin"
        if k in ("line", "plane"):
            return f"{k}:" + ("on" if case["on"] else "off") + (":bounds" if case.get("bounds") else "") + (":caller-mutates-its-arrays" if case.get("caller_mutates") else "")
        if k == "curve":
            return f"curve:{case['curve']['c']}:" + ("on" if case["on"] else "off") + (":estimate" if case.get("est") is not None else "")
        if k == "surface":
            return f"surface:{case['surface']}:" + ("on" if case["off"] == 0 else "off") + (":estimate" if case.get("est") is not None else "")
        if k in ("tlink", "slink") and (any(h != "assign" for h in case.get("how", [])) or case.get("backport")):
            return k + (":in-place-moves" if any(h != "assign" for h in case.get("how", [])) else "") + (":caller-applies-results-in-place" if case.get("backport") else "")
        if k == "grid":
            return "grid:" + "+".join(sorted(ld["type"] for ld in case["links"]))
        if k == "rlink" and case.get("small_radius"):
            return "rlink:leader-close-to-axis"
        if k == "rlink":
            return "rlink:" + "+".join(sorted({"exact" if "w" in m else "general" for m in case["moves"]}) or ["on-axis"]) + (":in-place-moves" if any(h != "assign" for h in case.get("how", [])) else "") + (":caller-applies-results-in-place" if case.get("backport") else "")
        return k

    def nontrivial_key(self, case, impl):
        return json.dumps(case, sort_keys=True)


if __name__ == "__main__":
    sys.exit(core.main(C17()))
