"""C07 — curved-edge entries are unique, on real block edges and correctly directed."""

from __future__ import annotations

import math
import random
import re
import sys
import warnings
from fractions import Fraction as Fr
from typing import Any, Dict, List, Optional, Tuple

from .. import core

# ---------------------------------------------------------------------------------------------
# the blockMesh hexahedron convention, stated independently of the repository's tables
BM_EDGES = [
    (a, b)
    for a in range(8)
    for b in range(a + 1, 8)
    if ((a % 4 in (1, 2)) ^ (b % 4 in (1, 2))) + ((a % 4 in (2, 3)) ^ (b % 4 in (2, 3))) + ((a >= 4) ^ (b >= 4)) == 1
]
# directed pair an edge datum is specified for: slot 0-3 bottom i -> i+1, 4-7 top, 8-11 side i -> i+4
SLOT_PAIR = [(i, (i + 1) % 4) for i in range(4)] + [(i + 4, (i + 1) % 4 + 4) for i in range(4)] + [(i, i + 4) for i in range(4)]

KINDS = ["arc", "origin", "angle", "spline", "polyLine", "project", "curve"]
DIRDEP = ("angle", "spline", "polyLine")
TOL = 1e-7


def _rotations() -> List[Tuple[int, ...]]:
    """the 24 orientation-preserving renumberings of the hexahedron's corners"""
    rz = (1, 2, 3, 0, 5, 6, 7, 4)  # about the z axis
    rx = (3, 2, 6, 7, 0, 1, 5, 4)  # about the x axis
    seen = {tuple(range(8))}
    frontier = [tuple(range(8))]
    while frontier:
        p = frontier.pop()
        for g in (rz, rx):
            q = tuple(p[g[i]] for i in range(8))
            if q not in seen:
                seen.add(q)
                frontier.append(q)
    return sorted(seen)


ROT24 = _rotations()
assert len(ROT24) == 24


# ---------------------------------------------------------------------------------------------
# small exact / float vector helpers
def vadd(a, b):
    return [x + y for x, y in zip(a, b)]


def vsub(a, b):
    return [x - y for x, y in zip(a, b)]


def vmul(k, a):
    return [k * x for x in a]


def vdot(a, b):
    return sum(x * y for x, y in zip(a, b))


def vcross(a, b):
    return [a[1] * b[2] - a[2] * b[1], a[2] * b[0] - a[0] * b[2], a[0] * b[1] - a[1] * b[0]]


def vnorm(a):
    return math.sqrt(float(vdot(a, a)))


def fl(a):
    return [float(x) for x in a]


def frs(a) -> List[str]:
    return [str(Fr(x)) for x in a]


def unfrs(a) -> List[Fr]:
    return [Fr(x) for x in a]


def rot(v, axis, theta):
    """Rodrigues rotation of v about the unit vector axis by theta"""
    c, s = math.cos(theta), math.sin(theta)
    k = axis
    kv = vcross(k, v)
    kd = vdot(k, v)
    return [v[i] * c + kv[i] * s + k[i] * kd * (1 - c) for i in range(3)]


def polyline_length(pts) -> float:
    return sum(vnorm(vsub(fl(p), fl(q))) for p, q in zip(pts[:-1], pts[1:]))


def face_after(pts: List[int], fops: List[list]) -> List[int]:
    """point order of a face after the calls (generator-side only: to attach meaningful geometry
    to side edges; the implementation's own answer is recorded at run time and compared)"""
    pts = list(pts)
    for op in fops:
        if op[0] == "invert":
            pts.reverse()
        elif op[0] == "shift":
            k = op[1] % 4
            pts = pts[-k:] + pts[:-k] if k else pts
        else:  # reorient near the location op[1]
            j = pts.index(op[1])
            pts = pts[j:] + pts[:j]
    return pts


# ---------------------------------------------------------------------------------------------
# the curve a datum describes (independent of the library): expected third point, length, points
def angle_arc(A, B, axis, theta):
    """circle arc from A to B: rotating A about `axis` by theta (right-hand rule) gives B.
    Returns (centre, radius, mid point)."""
    a = fl(axis)
    n = vnorm(a)
    a = [x / n for x in a]
    A, B = fl(A), fl(B)
    dp = vsub(B, A)
    mid = vmul(0.5, vadd(A, B))
    c = vnorm(dp)
    v = vcross(a, [x / c for x in dp])
    h = (c / 2) / math.tan(abs(theta) / 2)
    best = None
    for sgn in (1.0, -1.0):
        C = vadd(mid, vmul(sgn * h, v))
        err = vnorm(vsub(rot(vsub(A, C), a, theta), vsub(B, C)))
        if best is None or err < best[0]:
            best = (err, C)
    C = best[1]
    r = vnorm(vsub(A, C))
    M = vadd(C, rot(vsub(A, C), a, theta / 2))
    return C, r, M


def origin_arc(A, B, O):
    """the arc `arc a b origin (O)` describes (flatness 1): about O when O is equidistant from both ends;
    otherwise (OpenFOAM's rule) about the point of the chord's bisector plane-side of O whose distance to both
    ends is the average of |OA| and |OB|. Symmetric in A and B. Returns (centre, radius, mid point)."""
    A, B, O = fl(A), fl(B), fl(O)
    r1, r3 = vsub(A, O), vsub(B, O)
    m1, m3 = vnorm(r1), vnorm(r3)
    mid = vmul(0.5, vadd(A, B))
    C, r = O, m1
    if abs(m1 - m3) > 1e-7:
        r = 0.5 * (m1 + m3)
        chord = vsub(B, A)
        d = vcross(vcross(r1, r3), chord)
        C = vadd(mid, vmul(math.sqrt(r * r - 0.25 * vdot(chord, chord)) / vnorm(d), d))
    u = vsub(mid, C)
    return C, r, vadd(C, vmul(r / vnorm(u), u))


def arc3_length(A, P, B) -> float:
    """length of the circle arc from A through P to B"""
    A, P, B = fl(A), fl(P), fl(B)
    a, b = vsub(P, A), vsub(B, A)
    n = vcross(a, b)
    n2 = vdot(n, n)
    # circumcentre
    C = vadd(A, vmul(1 / (2 * n2), vadd(vmul(vdot(a, a), vcross(b, n)), vmul(vdot(b, b), vcross(n, a)))))
    nh = [x / math.sqrt(n2) for x in n]
    ra, rb = vsub(A, C), vsub(B, C)
    ang = math.atan2(vdot(nh, vcross(ra, rb)), vdot(ra, rb)) % (2 * math.pi)
    return ang * vnorm(ra)


def curve_fn(A, B, w):
    A, B, w = fl(A), fl(B), fl(w)
    return lambda t: [A[i] + t * (B[i] - A[i]) + 4 * t * (1 - t) * w[i] for i in range(3)]


class C07(core.Check):
    pid = "C07"
    props_module = "CBV.Props.C07"
    workers = 8
    rule = (
        "asm cases: 1-3 cells of a jittered 3x3x3 lattice (dyadic coordinates), each cell renumbered by a random one of "
        "the 24 rotations (so that shared edges meet in all slot/direction combinations), optionally collapsed to a wedge; "
        "0-12 edge data per operation over all 7 curved kinds (arc incl. collinear ones, origin, angle, spline, polyLine, "
        "project, curve-snapped OnCurve) on any of the 12 positions; faces used as given / inverted / shifted by -5..5 / "
        "re-oriented (random call sequences of length 0-3) before the loft is made; neighbouring cells define the shared "
        "edges again. Thorough additionally enumerates every kind x 12 positions x {given, inverted, shifted, re-oriented} "
        "and every kind x 12 x 12 duplicate definition by two neighbours. face cases: four direction-dependent data on one "
        "face under random call sequences. About a third of the asm cases are assembled again (Mesh.backport() and/or "
        "Mesh.clear() + assemble(), one or two rounds) and observed after every round. revolve cases: a quadrilateral in a half "
        "plane through the axis revolved by +-0.5..3.5 rad (face as given / inverted, some re-assembled), oracle only. Angle data "
        "carry both signs on every position. Round 3: a fifth of the lofts is inverted after creation (Operation.invert, in the model); "
        "half of the Origin data have an origin nearer to one end (1/8 or 1/4 of the chord, either side); an eighth of the arc / angle "
        "data is shallow but valid (|cross of the arms| 2e-5..6e-5, i.e. 200..600 TOL; exactly collinear ones stay at 0); revolve cases "
        "are inverted / mirrored / rotated about a non-parallel axis / moved after creation; curvemove cases move an end vertex of a "
        "curve-snapped edge along its curve between two outputs without re-assembly (oracle only). "
        "Round 4: 12% of the asm cases lie at (5e5, 4.5e6, 2.5e5) (curve kind excluded there); 15% of the faces get "
        "Face.remove_edges right after construction (no argument, None, [], [i], [i, j]); major-arc cases (one loft, faces as "
        "given, Arc of more than 180 degrees with its point near the entry's first vertex); alias cases (a second loft made from "
        "the same corner coordinates and the very same numpy float arrays, then Operation.translate in place). "
        "Non-trivial = at least one curved datum; distinct = different case."
    )
    assumptions = [
        "each EdgeData object sits at one position only (an object shared by several edges would be reversed once per position)",
        "no merged patches: a corner location becomes the vertex of its first occurrence (the full vertex model is C05's)",
        "the third point of origin / angle arcs is supplied to the model (arc formulas are C08's subject); for them the "
        "collinearity branch of ArcEdgeBase.is_valid is never taken by the generated inputs",
        "python list / dict / deque semantics of the modelled methods are validated by correspondence, not verified",
        "tolerance comparisons are modelled exactly on squared norms; generated points keep a margin (>= 1/8 or exactly 0) from TOL",
    ]
    partial_note = (
        "Theorems cover the discrete path (which datum is written, once, between which vertices, in which direction, with "
        "reversed payload when the direction is reversed) and the invariance of the polyline length under reversal. That the "
        "written arc / curve has the described shape and length (sqrt, trigonometry, scipy closest-parameter search) is checked "
        "by the oracle on the implementation only."
    )

    # ------------------------------------------------------------------ generators
    FAR = [Fr(500000), Fr(4500000), Fr(250000)]  # a georeferenced mesh: every coordinate is large compared with the blocks

    def _lattice(self, rng: random.Random, far: bool = False) -> List[List[Fr]]:
        locs = []
        off = self.FAR if far else [Fr(0)] * 3
        for k in range(3):
            for j in range(3):
                for i in range(3):
                    locs.append([off[0] + Fr(i) + Fr(rng.randint(-2, 2), 16), off[1] + Fr(j) + Fr(rng.randint(-2, 2), 16), off[2] + Fr(k) + Fr(rng.randint(-2, 2), 16)])
        return locs

    @staticmethod
    def _cell(i: int, j: int, k: int) -> List[int]:
        L = lambda a, b, c: a + 3 * b + 9 * c
        return [L(i, j, k), L(i + 1, j, k), L(i + 1, j + 1, k), L(i, j + 1, k), L(i, j, k + 1), L(i + 1, j, k + 1), L(i + 1, j + 1, k + 1), L(i, j + 1, k + 1)]

    def _bow(self, rng: random.Random) -> List[Fr]:
        return [Fr(rng.choice([-1, 1]) * rng.choice([2, 3, 4]), 8) for _ in range(3)]

    def _datum(self, rng: random.Random, kind: str, tag: int, locs, a: int, b: int, collinear: bool = False) -> dict:
        """a datum of the given kind describing a curve from location a to location b"""
        A, B = locs[a], locs[b]
        w = self._bow(rng)
        d: Dict[str, Any] = {"k": kind, "tag": tag, "from": a, "to": b}
        dp = vsub(B, A)
        mid = vmul(Fr(1, 2), vadd(A, B))
        if a == b:  # collapsed edge: any payload, the edge has zero length
            dp = [Fr(1), Fr(0), Fr(0)]
        # the bow must not be (nearly) parallel to the chord — side data of independently re-indexed faces can run
        # along a diagonal of the cell: a parallel bow would give an Angle with a zero axis (not a valid input), an
        # unintended collinear Arc, an Origin on the chord
        for _ in range(100):
            n_ = vcross(w, dp)
            if vdot(n_, n_) * 16 >= vdot(dp, dp) * vdot(w, w):  # sin of the angle between them >= 1/4
                break
            w = self._bow(rng)
        if kind == "arc":
            p = vadd(A, vmul(Fr(3, 8), dp))
            shallow = not collinear and rng.random() < 0.12
            if shallow:
                # gently curved but valid: |cross of the arms| is 2e-5 .. 6e-5 (200 .. 600 TOL), sagitta < 6e-5
                p = vadd(p, vmul(Fr(1, 16384), w))
                d["shallow"] = True
            elif not collinear:
                p = vadd(p, vmul(Fr(1, 4), w))
            d["p"] = frs(p)
            d["collinear"] = collinear
        elif kind == "origin":
            n = vcross(w, dp)
            o = vadd(mid, vmul(Fr(rng.choice([-2, -1, 1, 2]), 2), n))
            # half of them not equidistant from the two ends: nearer to the first or to the second one
            o = vadd(o, vmul(Fr(rng.choice([0, 0, 0, 0, -2, -1, 1, 2]), 8), dp))
            d["o"] = frs(o)
        elif kind == "angle":
            d["axis"] = frs(vcross(w, dp))
            if rng.random() < 0.12:
                d["angle"] = str(Fr(rng.choice([-1, 1]), 2048))  # shallow but valid (sagitta about 6e-5)
                d["shallow"] = True
            else:
                d["angle"] = str(Fr(rng.choice([-1, 1]) * rng.choice([1, 2, 3, 4, 5]), 2))
        elif kind in ("spline", "polyLine"):
            n = rng.choice([2, 3])
            ts = [Fr(1, 8), Fr(1, 4), Fr(1, 2)][:n]
            ss = [Fr(1, 2), Fr(3, 4), Fr(1)][:n]
            d["pts"] = [frs(vadd(vadd(A, vmul(t, dp)), vmul(s, w))) for t, s in zip(ts, ss)]
        elif kind == "project":
            d["labels"] = rng.choice([["g1"], ["g2"], ["g1", "g2"]])
        elif kind == "curve":
            d["w"] = frs(vmul(Fr(1, 4), w))
            d["n"] = rng.choice([3, 4, 6])
            d["A"] = frs(A)
            d["B"] = frs(vadd(A, dp))
        else:
            raise ValueError(kind)
        return d

    def _mk_op(self, rng, locs, corners: List[int], slots: Dict[int, str], tag0: int, bops, tops, collinear_p=0.15, invert=False):
        """operation over the 8 corner locations with data of the given kinds on the given slots.
        Face data is specified at construction (original order), side data after the face calls."""
        bottom, top = corners[:4], corners[4:]
        b_after, t_after = face_after(bottom, bops), face_after(top, tops)
        tag = tag0
        be: List[Optional[dict]] = [None] * 4
        te: List[Optional[dict]] = [None] * 4
        se: List[Optional[dict]] = [None] * 4
        for s in sorted(slots):
            kind = slots[s]
            tag += 1
            col = kind == "arc" and rng.random() < collinear_p
            if s < 4:
                be[s] = self._datum(rng, kind, tag, locs, bottom[s], bottom[(s + 1) % 4], col)
            elif s < 8:
                te[s - 4] = self._datum(rng, kind, tag, locs, top[s - 4], top[(s - 3) % 4], col)
            else:
                se[s - 8] = self._datum(rng, kind, tag, locs, b_after[s - 8], t_after[s - 8], col)
        op = {
            "bottom": {"pts": bottom, "edges": be, "fops": bops},
            "top": {"pts": top, "edges": te, "fops": tops},
            "side": se,
        }
        if invert:
            op["invert"] = True  # Operation.invert() on the finished loft
        return op, tag

    def _fops(self, rng: random.Random, pts: List[int], n: int) -> List[list]:
        ops = []
        cur = list(pts)
        for _ in range(n):
            r = rng.random()
            if r < 0.4:
                op = ["invert"]
            elif r < 0.7:
                op = ["shift", rng.randint(-5, 5)]
            else:
                op = ["reorient", rng.choice(sorted(set(cur)))]
            ops.append(op)
            cur = face_after(cur, [op])
        return ops

    def _asm_case(self, rng: random.Random) -> dict:
        far = rng.random() < 0.12  # the same blocks far from the origin (curve-snapped data excluded: scipy's parameter search loses accuracy there)
        kinds = [k for k in KINDS if k != "curve"] if far else KINDS
        locs = self._lattice(rng, far)
        pattern = rng.choice(["one", "face", "edge", "three", "same"])
        c0 = (rng.randint(0, 1), rng.randint(0, 1), rng.randint(0, 1))
        cells = [c0]
        if pattern in ("face", "three"):
            ax = rng.randrange(3)
            c1 = list(c0)
            c1[ax] = 1 - c1[ax]
            cells.append(tuple(c1))
        if pattern in ("edge", "three"):
            ax = rng.randrange(3)
            c1 = [1 - c for c in c0]
            c1[ax] = c0[ax]
            if tuple(c1) not in cells:
                cells.append(tuple(c1))
        if pattern == "same":
            cells.append(c0)
        ops = []
        tag = 0
        for cell in cells:
            corners = self._cell(*cell)
            p = rng.choice(ROT24)
            corners = [corners[p[i]] for i in range(8)]
            if rng.random() < 0.12:  # wedge: corner 3 on corner 0, 7 on 4
                corners[3], corners[7] = corners[0], corners[4]
            nd = rng.choice([0, 1, 2, 2, 3, 4, 6, 12])
            slots = {s: rng.choice(kinds) for s in rng.sample(range(12), nd)}
            if rng.random() < 0.5:
                nb = rng.choice([0, 1, 1, 2, 3])
                bops = self._fops(rng, corners[:4], nb)
                # mostly the same calls on both faces, so that the block stays a hexahedron
                if rng.random() < 0.7:
                    tops = [
                        (["reorient", corners[4 + corners[:4].index(o[1])]] if o[0] == "reorient" else list(o)) for o in bops
                    ]
                else:
                    tops = self._fops(rng, corners[4:], rng.choice([0, 1, 2]))
            else:
                bops, tops = [], []
            op, tag = self._mk_op(rng, locs, corners, slots, tag, bops, tops, invert=rng.random() < 0.2)
            for key in ("bottom", "top"):
                if rng.random() < 0.15:  # Face.remove_edges right after the face is made
                    c1, c2 = rng.sample(range(4), 2)
                    op[key]["remove"] = rng.choice(["noarg", "none", [], [], [], [c1], [c1, c2]])
            ops.append(op)
        case = {"kind": "asm", "locs": [frs(l) for l in locs], "ops": ops}
        if far:
            case["far"] = True
        if rng.random() < 0.35:  # the mesh is assembled again: Mesh.backport() or Mesh.clear() + assemble()
            case["history"] = rng.choice([["backport"], ["clear"], ["backport", "clear"], ["clear", "backport"]])
        return case

    def _face_case(self, rng: random.Random) -> dict:
        locs = self._lattice(rng)
        pts = self._cell(rng.randint(0, 1), rng.randint(0, 1), rng.randint(0, 1))[:4]
        edges = []
        for i in range(4):
            kind = rng.choice(["angle", "spline", "polyLine", "arc", "project"])
            edges.append(self._datum(rng, kind, i + 1, locs, pts[i], pts[(i + 1) % 4]))
        return {"kind": "face", "locs": [frs(l) for l in locs], "face": {"pts": pts, "edges": edges, "fops": self._fops(rng, pts, rng.randint(1, 5))}}

    def _revolve_case(self, rng: random.Random, angle: Optional[Fr] = None) -> dict:
        """a quadrilateral in a half plane through the axis, revolved by a positive or negative angle"""
        axis = rng.choice([[0, 0, 1], [0, 1, 0], [1, 0, 0], [2, 3, 6], [-1, 4, 8]])
        u = vcross(axis, [1, 2, 3] if axis != [1, 0, 0] else [0, 1, 2])
        origin = [Fr(rng.randint(-8, 8), 8) for _ in range(3)]
        na, nu = vnorm(axis), vnorm(u)
        r0, r1 = Fr(rng.randint(8, 12), 8), Fr(rng.randint(16, 20), 8)
        z0, z1 = Fr(rng.randint(-2, 2), 8), Fr(rng.randint(6, 10), 8)
        pts = []
        for r, z in ((r0, z0), (r1, z0 + Fr(rng.randint(-1, 1), 8)), (r1, z1), (r0 + Fr(rng.randint(-1, 1), 8), z1)):
            pts.append([float(origin[i]) + float(r) * u[i] / nu + float(z) * axis[i] / na for i in range(3)])
        if angle is None:
            angle = Fr(rng.choice([-1, 1]) * rng.choice([1, 2, 3, 4, 5, 7]), 2)
        case = {
            "kind": "revolve",
            "pts": [frs(p) for p in pts],
            "angle": str(angle),
            "axis": [str(a) for a in axis],
            "origin": frs(origin),
            "invert": rng.random() < 0.5,
        }
        if rng.random() < 0.3:
            case["history"] = rng.choice([["backport"], ["clear"]])
        # the finished operation is inverted / mirrored / rotated about an axis that is not parallel to its own / moved
        post = []
        for _ in range(rng.choice([0, 1, 1, 1, 2])):
            r = rng.random()
            if r < 0.3:
                post.append(["invert"])
            elif r < 0.55:
                post.append(["mirror", [str(x) for x in rng.choice([[0, 0, 1], [1, 0, 0], [1, 2, 2], [3, -4, 12]])], frs([Fr(rng.randint(-4, 4), 4) for _ in range(3)])])
            elif r < 0.9:
                post.append(["rotate", str(Fr(rng.choice([-5, -3, -1, 1, 2, 4]), 4)), [str(x) for x in rng.choice([[0, 1, 0], [1, 1, 0], [2, -1, 2], [6, 2, 3]])], frs([Fr(rng.randint(-4, 4), 4) for _ in range(3)])])
            else:
                post.append(["translate", frs([Fr(rng.randint(-8, 8), 4) for _ in range(3)])])
        case["post"] = post
        return case

    def _major_arc_case(self, rng: random.Random) -> dict:
        """one loft, faces as given, with an Arc of more than 180 degrees whose point lies near the first vertex of
        its entry (for a point beyond the antipode of the first vertex the library follows OpenFOAM's rule and
        reports the minor arc: known finding of C08, kept out of these cases)"""
        locs = self._lattice(rng)
        corners = self._cell(0, 0, 0)
        p = rng.choice(ROT24)
        corners = [corners[p[i]] for i in range(8)]
        s_ = rng.randrange(12)
        op, _ = self._mk_op(rng, locs, corners, {s_: "arc"}, 0, [], [], collinear_p=0.0)
        d = (op["bottom"]["edges"] + op["top"]["edges"] + op["side"])[s_]
        A, B = locs[d["from"]], locs[d["to"]]
        dp = vsub(B, A)
        for _ in range(100):
            w = self._bow(rng)
            n_ = vcross(dp, w)
            if vdot(n_, n_) * 16 >= vdot(dp, dp) * vdot(w, w):
                break
        u = vcross(n_, dp)  # perpendicular to the chord, length about |w| sin
        d["p"] = frs(vadd(vsub(A, vmul(Fr(1, 4), dp)), vmul(Fr(1, 2), u)))  # "behind" the first vertex: a major arc
        d["major"] = True
        d.pop("shallow", None)
        return {"kind": "asm", "locs": [frs(l) for l in locs], "ops": [op], "note": "major arc"}

    def _alias_case(self, rng: random.Random) -> dict:
        """two lofts: the second is made from the same corner coordinates and — for Spline / PolyLine — from the very
        same numpy float arrays as the first, and is then moved with Operation.translate (in place)"""
        base = self._lattice(rng)
        v = [Fr(rng.choice([-3, 3, 4]), 1), Fr(rng.randint(-4, 4), 4), Fr(rng.choice([-5, 2, 5]), 2)]
        locs = base + [vadd(l, v) for l in base]
        corners = self._cell(rng.randint(0, 1), rng.randint(0, 1), rng.randint(0, 1))
        p = rng.choice(ROT24)
        corners = [corners[p[i]] for i in range(8)]
        slots = {s_: rng.choice(["spline", "polyLine", "spline", "arc"]) for s_ in rng.sample(range(12), rng.choice([1, 2, 3, 5]))}
        op1, ntag = self._mk_op(rng, base, corners, slots, 0, [], [], collinear_p=0.0)
        import copy

        op2 = copy.deepcopy(op1)
        for key in ("bottom", "top"):
            op2[key]["pts"] = [l + 27 for l in op2[key]["pts"]]
        for d in op2["bottom"]["edges"] + op2["top"]["edges"] + op2["side"]:
            if d is not None:
                d["alias_of"] = d["tag"]
                d["tag"] += ntag
                d["from"] += 27
                d["to"] += 27
                if "pts" in d:
                    d["pts"] = [frs(vadd(unfrs(q), v)) for q in d["pts"]]
                if "p" in d:
                    d["p"] = frs(vadd(unfrs(d["p"]), v))
        return {"kind": "asm", "locs": [frs(l) for l in locs], "ops": [op1, op2], "alias": {"v": frs(v)}}

    BUILD_DATA = {
        "arc": lambda tag: {"k": "arc", "tag": tag, "p": ["1/2", "-1/4", "1/8"]},
        "spline": lambda tag: {"k": "spline", "tag": tag, "pts": [["1/4", "-1/8", "0"], ["1/2", "-1/4", "1/16"]]},
        "project": lambda tag: {"k": "project", "tag": tag, "labels": ["g1"]},
    }

    def _build_case(self, rng: random.Random) -> dict:
        """the entry points that put edge data on faces / operations: Face(points, edges) in its forms, add_edge,
        remove_edges, add_side_edge — a history of calls on one loft, indices mostly valid, sometimes just outside"""
        tag = [0]

        def datum(none_ok=True):
            if none_ok and rng.random() < 0.3:
                return None
            tag[0] += 1
            return self.BUILD_DATA[rng.choice(sorted(self.BUILD_DATA))](tag[0])

        def init():
            r = rng.random()
            if r < 0.3:
                return None
            n = 4 if r < 0.92 else rng.choice([0, 3, 5])
            return [datum() for _ in range(n)]

        def index():
            return rng.randrange(4) if rng.random() < 0.93 else rng.choice([-1, 4, -4, 7])

        calls = []
        for _ in range(rng.randint(0, 6)):
            r = rng.random()
            if r < 0.4:
                calls.append(["ae", rng.choice("bt"), index(), datum()])
            elif r < 0.65:
                cs = rng.choice(["noarg", "none", [], [index()], [index(), index()]])
                calls.append(["re", rng.choice("bt"), cs])
            else:
                calls.append(["as", index(), datum(False)])
        return {"kind": "build", "binit": init(), "tinit": init(), "calls": calls}

    def _series_case(self, rng: random.Random) -> dict:
        """Operation.from_series: 2 to 5 jittered squares stacked in z"""
        n = rng.choice([2, 3, 3, 4, 5])
        faces = []
        for k in range(n):
            faces.append([frs([Fr(x) + Fr(rng.randint(-2, 2), 16), Fr(y) + Fr(rng.randint(-2, 2), 16), Fr(k) + Fr(rng.randint(-2, 2), 16)]) for x, y in ((0, 0), (1, 0), (1, 1), (0, 1))])
        return {"kind": "series", "faces": faces}

    def _curvemove_case(self, rng: random.Random, s_: Optional[int] = None) -> dict:
        """one loft with a curve-snapped edge; after the first output one or two of its end vertices are moved
        along the curve (Vertex.move_to) and the output is read again, without re-assembly"""
        locs = self._lattice(rng)
        corners = self._cell(0, 0, 0)
        p = rng.choice(ROT24)
        corners = [corners[p[i]] for i in range(8)]
        use = rng.choice([[], [], [["invert"]], [["shift", 1]]])
        s_ = rng.randrange(12) if s_ is None else s_
        op, _ = self._mk_op(rng, locs, corners, {s_: "curve"}, 0, [list(u) for u in use], [list(u) for u in use], collinear_p=0.0)
        moves = []
        for _ in range(rng.choice([1, 1, 2])):
            end = rng.choice(["from", "to"])
            t = rng.choice([Fr(-3, 16), Fr(1, 8), Fr(1, 4)]) if end == "from" else rng.choice([Fr(3, 4), Fr(7, 8), Fr(19, 16)])
            moves.append([end, str(t)])
        return {"kind": "curvemove", "locs": [frs(l) for l in locs], "op": op, "moves": moves}

    def _exhaustive(self, rng: random.Random) -> List[dict]:
        out = []
        # every kind x 12 positions x face usage
        for kind in KINDS:
            for s in range(12):
                for use in ("given", "invert", "shift1", "shift2", "shift-1", "reorient"):
                    locs = self._lattice(rng)
                    corners = self._cell(0, 0, 0)

                    def calls(pts):
                        if use == "given":
                            return []
                        if use == "invert":
                            return [["invert"]]
                        if use.startswith("shift"):
                            return [["shift", int(use[5:])]]
                        return [["reorient", pts[2]]]

                    op, _ = self._mk_op(rng, locs, corners, {s: kind}, 0, calls(corners[:4]), calls(corners[4:]), collinear_p=0.0)
                    case = {"kind": "asm", "locs": [frs(l) for l in locs], "ops": [op], "note": f"{kind}@{s}:{use}"}
                    if use in ("given", "invert"):
                        case["history"] = ["backport"] if use == "given" else ["clear"]
                    out.append(case)
        # duplicate definitions: two cells sharing a face, every slot pair
        for kind in ("spline", "angle", "arc", "polyLine"):
            for s1 in range(12):
                for s2 in range(12):
                    locs = self._lattice(rng)
                    p = rng.choice(ROT24)
                    c1 = self._cell(0, 0, 0)
                    c2 = [self._cell(1, 0, 0)[p[i]] for i in range(8)]
                    o1, t = self._mk_op(rng, locs, c1, {s1: kind}, 0, [], [], collinear_p=0.0)
                    o2, _ = self._mk_op(rng, locs, c2, {s2: rng.choice(KINDS)}, t, [], [], collinear_p=0.0)
                    out.append({"kind": "asm", "locs": [frs(l) for l in locs], "ops": [o1, o2], "note": f"dup {kind} {s1}/{s2}"})
        return out

    def gen_cases(self, rng: random.Random, tier: str) -> List[dict]:
        # quick: 128 random assemblies + the structured families below (about 300 cases, < 30 s wall unloaded); the bulk is thorough's
        n = 128 if tier == "quick" else 2400
        cases = [self._asm_case(rng) for _ in range(n)]
        cases += [self._face_case(rng) for _ in range(n // 4)]
        cases += [self._revolve_case(rng) for _ in range(n // 8)]
        cases += [self._curvemove_case(rng) for _ in range(n // 16)]
        cases += [self._major_arc_case(rng) for _ in range(n // 16)]
        cases += [self._build_case(rng) for _ in range(n // 4)]
        cases += [self._series_case(rng) for _ in range(n // 16)]
        cases += [self._alias_case(rng) for _ in range(n // 16)]
        # angle arcs of either sign on every position, as given and on an inverted face, once assembled again
        for sgn in (-1, 1):
            for s_, use in ((0, []), (3, []), (5, [["invert"]]), (7, []), (10, [["invert"]])):
                locs = self._lattice(rng)
                op, _ = self._mk_op(rng, locs, self._cell(0, 0, 0), {s_: "angle"}, 0, list(use), list(use), collinear_p=0.0)
                d = (op["bottom"]["edges"] + op["top"]["edges"] + op["side"])[s_]
                d["angle"] = str(sgn * abs(Fr(d["angle"])))
                cases.append({"kind": "asm", "locs": [frs(l) for l in locs], "ops": [op], "history": ["backport"], "note": f"angle sign {sgn} @{s_}"})
        # ill-formed stream: both sides must refuse (the model answers `bad-op`, never a default)
        cases += [{"kind": "reject", "what": w} for w in ("face3", "edges5", "side5", "project3", "location")]
        if tier == "quick":
            # one of every kind on the closing edges and on an inverted face
            for kind in KINDS:
                for s, use in ((3, []), (7, []), (0, [["invert"]]), (9, [["shift", 1]])):
                    locs = self._lattice(rng)
                    c = self._cell(0, 0, 0)
                    op, _ = self._mk_op(rng, locs, c, {s: kind}, 0, list(use), list(use), collinear_p=0.0)
                    cases.append({"kind": "asm", "locs": [frs(l) for l in locs], "ops": [op], "note": f"{kind}@{s}"})
        else:
            cases += self._exhaustive(rng)
        return cases

    def search_cases(self, rng: random.Random, tier: str) -> List[dict]:
        return self._exhaustive(rng)[: 600 if tier == "quick" else 10**6] + [self._asm_case(rng) for _ in range(200)]

    # ------------------------------------------------------------------ implementation
    @staticmethod
    def _make(cb, d: Optional[dict], objs: dict, arrays: Optional[dict] = None, shift=None):
        """`arrays`: curve points are handed over as numpy float arrays, kept by tag; a datum with `alias_of` re-uses
        the array of that tag (and is described at the place before the later translation by `shift`)"""
        if d is None:
            return None
        if shift is not None:  # the payload as the user gives it, before the operation is moved
            d = dict(d)
            for key in ("p", "o"):
                if key in d:
                    d[key] = frs(vsub(unfrs(d[key]), shift))
        k = d["k"]
        if arrays is not None and k in ("spline", "polyLine"):
            import numpy as np

            if "alias_of" in d:
                arr = arrays[d["alias_of"]]
            else:
                arr = arrays[d["tag"]] = np.array([fl(unfrs(p)) for p in d["pts"]], dtype=float)
            o = (cb.Spline if k == "spline" else cb.PolyLine)(arr)
            objs[id(o)] = (d["tag"], o)
            return o
        if k == "arc":
            o = cb.Arc(fl(unfrs(d["p"])))
        elif k == "origin":
            o = cb.Origin(fl(unfrs(d["o"])))
        elif k == "angle":
            o = cb.Angle(float(Fr(d["angle"])), fl(unfrs(d["axis"])))
        elif k == "spline":
            o = cb.Spline([fl(unfrs(p)) for p in d["pts"]])
        elif k == "polyLine":
            o = cb.PolyLine([fl(unfrs(p)) for p in d["pts"]])
        elif k == "project":
            o = cb.Project(list(d["labels"]) if len(d["labels"]) > 1 else d["labels"][0])
        elif k == "curve":
            import numpy as np

            fn = curve_fn(unfrs(d["A"]), unfrs(d["B"]), unfrs(d["w"]))
            o = cb.OnCurve(cb.AnalyticCurve(lambda t: np.array(fn(t)), (-0.25, 1.25)), n_points=d["n"])
        else:
            raise ValueError(k)
        objs[id(o)] = (d["tag"], o)
        return o

    @staticmethod
    def _apply_fops(face, fops, pos):
        for op in fops:
            if op[0] == "invert":
                face.invert()
            elif op[0] == "shift":
                face.shift(op[1])
            else:
                p = pos[op[1]]
                # a position clearly nearest to that corner
                face.reorient([p[0] + 1 / 64, p[1] - 1 / 64, p[2] + 1 / 128])

    def _build_face(self, cb, f: dict, pos, objs, arrays=None, shift=None, unshift=0):
        face = cb.Face([pos[l - unshift] for l in f["pts"]], [self._make(cb, d, objs, arrays, shift) for d in f["edges"]])
        rm = f.get("remove")
        if rm == "noarg":
            face.remove_edges()
        elif rm == "none":
            face.remove_edges(None)
        elif rm is not None:
            face.remove_edges(list(rm))
        self._apply_fops(face, f["fops"], pos)
        return face

    def run_impl(self, case: dict) -> Any:
        warnings.simplefilter("ignore")
        import classy_blocks as cb

        pos = [fl(unfrs(l)) for l in case.get("locs", [])]
        loc_of = {tuple(p): i for i, p in enumerate(pos)}
        objs: Dict[int, Any] = {}

        def payload(data) -> dict:
            tag = objs.get(id(data), (0, None))[0]
            out = {"kind": data.kind, "tag": tag, "angle": "0/1", "pts": []}
            if data.kind == "angle":
                out["angle"] = core.rat(float(data.angle))
            if data.kind in ("spline", "polyLine"):
                out["pts"] = [[core.rat(float(x)) for x in p] for p in data.curve.array.points]
            return out

        if case["kind"] == "reject":
            sq = [[0, 0, 0], [1, 0, 0], [1, 1, 0], [0, 1, 0]]
            try:
                if case["what"] == "face3":
                    cb.Face(sq[:3])
                elif case["what"] == "edges5":
                    cb.Face(sq, [None] * 5)
                elif case["what"] == "side5":
                    cb.Loft(cb.Face(sq), cb.Face([[x, y, 1] for x, y, _ in sq])).add_side_edge(4, cb.Arc([0, 0, 0.5]))
                elif case["what"] == "project3":
                    cb.Face(sq, [cb.Project(["a", "b", "c"]), None, None, None])
                else:
                    cb.Face([sq[0], sq[1], sq[2], None])  # a corner without a location
            except Exception as e:
                return {"reject": type(e).__name__}
            return {"accepted": True}
        if case["kind"] == "build":
            sq = [[0, 0, 0], [1, 0, 0], [1, 1, 0], [0, 1, 0]]
            mk = lambda d: self._make(cb, d, objs)
            try:
                faces = []
                for init, z in ((case["binit"], 0), (case["tinit"], 1)):
                    pts = [[x, y, z] for x, y, _ in sq]
                    faces.append(cb.Face(pts) if init is None else cb.Face(pts, [mk(d) for d in init]))
                loft = cb.Loft(faces[0], faces[1])
                for c in case["calls"]:
                    face = loft.top_face if c[1] == "t" else loft.bottom_face
                    if c[0] == "ae":
                        face.add_edge(c[2], mk(c[3]))
                    elif c[0] == "re":
                        if c[2] == "noarg":
                            face.remove_edges()
                        elif c[2] == "none":
                            face.remove_edges(None)
                        else:
                            face.remove_edges(list(c[2]))
                    else:
                        loft.add_side_edge(c[1], mk(c[2]))
            except Exception as e:
                return {"reject": type(e).__name__}
            data = list(loft.bottom_face.edges) + list(loft.top_face.edges) + list(loft.side_edges)
            return {"slots": [f"{d.kind}:{objs.get(id(d), (0, None))[0]}" for d in data]}
        if case["kind"] == "series":
            faces = [cb.Face([fl(unfrs(p)) for p in f]) for f in case["faces"]]
            loft = cb.Loft.from_series(faces)
            side = []
            for d in loft.side_edges:
                if d.kind == "arc":
                    side.append("arc:" + ",".join(core.rat(float(x)) for x in d.point.position) + ":-")
                elif d.kind == "spline":
                    side.append("spline:-:" + "_".join(",".join(core.rat(float(x)) for x in q) for q in d.curve.array.points))
                else:
                    side.append(f"{d.kind}:-:-")
            mesh = cb.Mesh()
            mesh.add(loft)
            mesh.assemble()
            return {"side": side, "P": [[float(x) for x in v.position] for v in mesh.vertex_list.vertices], "text": mesh.edge_list.description}
        if case["kind"] == "curvemove":
            op = case["op"]
            faces = []
            faces = [self._build_face(cb, op[key], pos, objs) for key in ("bottom", "top")]
            loft = cb.Loft(faces[0], faces[1])
            for i, d in enumerate(op["side"]):
                if d is not None:
                    loft.add_side_edge(i, self._make(cb, d, objs))
            mesh = cb.Mesh()
            mesh.add(loft)
            mesh.assemble()
            d = next(x for x in op["bottom"]["edges"] + op["top"]["edges"] + op["side"] if x is not None)
            index_of = {loc_of.get(tuple(float(x) for x in v.position), -1): v.index for v in mesh.vertex_list.vertices}
            ends = {"from": index_of.get(d["from"], -1), "to": index_of.get(d["to"], -1)}
            fn = curve_fn(unfrs(d["A"]), unfrs(d["B"]), unfrs(d["w"]))
            stages = []

            def look():
                blk = mesh.block_list.blocks[0]
                lengths = []
                for a, b in BM_EDGES:
                    wire = blk.wires[a][b]
                    try:
                        wl = float(wire.length)
                    except Exception:
                        wl = None
                    lengths.append([wire.vertices[0].index, wire.vertices[1].index, wl])
                stages.append(
                    {
                        "P": [[float(x) for x in v.position] for v in mesh.vertex_list.vertices],
                        "text": mesh.edge_list.description,
                        "lengths": lengths,
                    }
                )

            look()
            for end, t in case["moves"]:
                if ends[end] >= 0:
                    mesh.vertices[ends[end]].move_to(fn(float(Fr(t))))
                look()
            return {"stages": stages, "ends": ends}
        if case["kind"] == "revolve":
            face = cb.Face([fl(unfrs(p)) for p in case["pts"]])
            if case["invert"]:
                face.invert()
            op = cb.Revolve(face, float(Fr(case["angle"])), fl(unfrs(case["axis"])), fl(unfrs(case["origin"])))
            for t in case.get("post", []):
                if t[0] == "invert":
                    op.invert()
                elif t[0] == "mirror":
                    op.mirror(fl(unfrs(t[1])), fl(unfrs(t[2])))
                elif t[0] == "rotate":
                    op.rotate(float(Fr(t[1])), fl(unfrs(t[2])), fl(unfrs(t[3])))
                else:
                    op.translate(fl(unfrs(t[1])))
            mesh = cb.Mesh()
            mesh.add(op)
            mesh.assemble()
            stages = []

            def look():
                stages.append(
                    {
                        "P": [[float(x) for x in v.position] for v in mesh.vertex_list.vertices],
                        "B": [[v.index for v in b.vertices] for b in mesh.block_list.blocks],
                        "text": mesh.edge_list.description,
                    }
                )

            look()
            for step in case.get("history", []):
                if step == "backport":
                    mesh.backport()
                else:
                    mesh.clear()
                    mesh.assemble()
                look()
            return {"stages": stages}
        if case["kind"] == "face":
            f = case["face"]
            face = cb.Face([pos[l] for l in f["pts"]], [self._make(cb, d, objs) for d in f["edges"]])
            self._apply_fops(face, f["fops"], pos)
            return {
                "pts": [loc_of.get(tuple(float(x) for x in p.position), -1) for p in face.points],
                "edges": [payload(e) for e in face.edges],
            }

        mesh = cb.Mesh()
        side_ends = []
        alias = case.get("alias")
        arrays: Optional[dict] = {} if alias else None
        for n_op, op in enumerate(case["ops"]):
            # the second operation of an alias case is made where the first one is, from the same arrays, and moved
            moved = alias is not None and n_op == 1
            shift = unfrs(alias["v"]) if moved else None
            unshift = 27 if moved else 0
            faces = [self._build_face(cb, op[key], pos, objs, arrays, shift, unshift) for key in ("bottom", "top")]
            loft = cb.Loft(faces[0], faces[1])
            for i, d in enumerate(op["side"]):
                if d is not None:
                    a = loc_of.get(tuple(float(x) for x in loft.bottom_face.points[i].position), -1)
                    b = loc_of.get(tuple(float(x) for x in loft.top_face.points[i].position), -1)
                    side_ends.append([d["tag"], a + unshift, b + unshift])
                    loft.add_side_edge(i, self._make(cb, d, objs, arrays, shift))
            if op.get("invert"):
                loft.invert()
            if moved:
                loft.translate(fl(shift))
            mesh.add(loft)
        mesh.assemble()

        def observe() -> dict:
            return self._observe(mesh, objs, loc_of, payload, side_ends)

        first = observe()
        later = []
        for step in case.get("history", []):
            if step == "backport":
                mesh.backport()
            else:  # "clear": undo the assembly and assemble again
                mesh.clear()
                mesh.assemble()
            later.append(observe())
        if later:
            first["later"] = later
        return first

    @staticmethod
    def _observe(mesh, objs, loc_of, payload, side_ends) -> dict:
        listed = {id(e): n for n, e in enumerate(mesh.edge_list.edges)}
        E = []
        for e in mesh.edge_list.edges:
            p = payload(e.data)
            p.update({"v1": e.vertex_1.index, "v2": e.vertex_2.index, "repr": e.representation})
            try:
                p["length"] = float(e.length)
            except Exception as ex:  # e.g. a collinear arc that should not have been listed
                p["length"] = None
                p["length_error"] = type(ex).__name__
            E.append(p)
        B, W = [], []
        for blk in mesh.block_list.blocks:
            B.append([v.index for v in blk.vertices])
            ws = {}
            for a, b in BM_EDGES:
                wire = blk.wires[a][b]
                ed = wire.edge
                try:
                    wlen = float(wire.length)
                except Exception:
                    wlen = None
                ws[f"{a}-{b}"] = {
                    "v1": ed.vertex_1.index,
                    "v2": ed.vertex_2.index,
                    "kind": ed.kind,
                    "tag": objs.get(id(ed.data), (0, None))[0],
                    "listed": int(id(ed) in listed),
                    "length": wlen,
                    "wv": [wire.vertices[0].index, wire.vertices[1].index],
                }
            W.append(ws)
        return {
            "V": [loc_of.get(tuple(float(x) for x in v.position), -1) for v in mesh.vertex_list.vertices],
            "B": B,
            "E": E,
            "W": W,
            "text": mesh.edge_list.description,
            "side_ends": side_ends,
        }

    # ------------------------------------------------------------------ model
    @staticmethod
    def _v3(p) -> str:
        return ",".join(core.rat(Fr(x)) for x in p)

    def _datum_req(self, d: Optional[dict], locs) -> str:
        if d is None:
            return "line~0~-~0/1~-"
        k = d["k"]
        third, ang, pts = "-", "0/1", "-"
        if k == "arc":
            third = self._v3(d["p"])
        elif k in ("origin", "angle"):
            third = ",".join(core.rat(x) for x in self._expected_third(d, locs))
            if k == "angle":
                ang = core.rat(float(Fr(d["angle"])))
        elif k in ("spline", "polyLine"):
            pts = "_".join(self._v3(p) for p in d["pts"])
        return f"{k}~{d['tag']}~{third}~{ang}~{pts}"

    @staticmethod
    def _expected_third(d: dict, locs) -> List[float]:
        A, B = unfrs(locs[d["from"]]), unfrs(locs[d["to"]])
        if d["from"] == d["to"]:
            return fl(A)
        if d["k"] == "angle":
            return angle_arc(A, B, unfrs(d["axis"]), float(Fr(d["angle"])))[2]
        return origin_arc(A, B, unfrs(d["o"]))[2]

    def _face_req(self, f: dict, locs) -> str:
        ops = []
        for op in f["fops"]:
            if op[0] == "invert":
                ops.append("invert")
            elif op[0] == "shift":
                ops.append(f"shift:{op[1]}")
            else:
                p = fl(unfrs(locs[op[1]]))
                ops.append("reorient:" + self._v3([p[0] + 1 / 64, p[1] - 1 / 64, p[2] + 1 / 128]))
        rm = f.get("remove")
        tail = "" if rm is None else "@rm" + ("A" if rm in ("noarg", "none") else "".join(map(str, rm)))
        return ".".join(map(str, f["pts"])) + "@" + ";".join(self._datum_req(d, locs) for d in f["edges"]) + "@" + "+".join(ops) + tail

    def requests(self, case: dict, impl: Any) -> List[str]:
        if case["kind"] == "revolve":
            return []  # oracle only: the operation is a Loft with four Angle side edges (covered by the asm cases)
        if case["kind"] == "curvemove":
            return []  # oracle only: the payload of a curve-snapped edge is opaque to the model
        if case["kind"] == "build":
            dat = lambda d: "0" if d is None else self._datum_req(d, None)
            ini = lambda i: "N" if i is None else (";".join(dat(d) for d in i) if i else "E")
            calls = []
            for c in case["calls"]:
                if c[0] == "ae":
                    calls.append(f"ae:{c[1]}:{c[2]}:{dat(c[3])}")
                elif c[0] == "re":
                    cs = "A" if c[2] in ("noarg", "none") else ("E" if not c[2] else ".".join(map(str, c[2])))
                    calls.append(f"re:{c[1]}:{cs}")
                else:
                    calls.append(f"as:{c[1]}:{dat(c[2])}")
            return [f"c07.build {ini(case['binit'])} {ini(case['tinit'])} " + ("+".join(calls) or "-")]
        if case["kind"] == "series":
            mids = case["faces"][1:-1]
            return ["c07.series " + ("|".join(";".join(self._v3(p) for p in f) for f in mids) or "-")]
        if case["kind"] == "reject":
            ltab = "0/1,0/1,0/1;1/1,0/1,0/1;1/1,1/1,0/1;0/1,1/1,0/1"
            ln = "line~0~-~0/1~-"
            d4 = ";".join([ln] * 4)
            face = f"0.1.2.3@{d4}@"
            bad = {
                "face3": f"0.1.2@{d4}@!{face}!{d4}",
                "edges5": f"0.1.2.3@{d4};{ln}@!{face}!{d4}",
                "side5": f"{face}!{face}!{d4};arc~1~0/1,0/1,1/2~0/1~-",
                "project3": f"0.1.2.3@project~1~-~0/1~-;{ln};{ln}@!{face}!{d4}",  # three labels cannot be expressed: 3 data
                "location": f"0.1.2.9@{d4}@!{face}!{d4}",
            }[case["what"]]
            return [f"c07.asm {ltab} {bad}"]
        locs = case["locs"]
        ltab = ";".join(self._v3(l) for l in locs)
        if case["kind"] == "face":
            return [f"c07.face {self._face_req(case['face'], locs)} {ltab}"]
        ops = []
        for op in case["ops"]:
            ops.append(
                self._face_req(op["bottom"], locs)
                + "!"
                + self._face_req(op["top"], locs)
                + "!"
                + ";".join(self._datum_req(d, locs) for d in op["side"])
                + ("!inv" if op.get("invert") else "")
            )
        hist = case.get("history", [])
        return [f"c07.asm {ltab} " + "|".join(ops) + (f" {len(hist)}" if hist else "")]

    def compare(self, case: dict, impl: Any, model: List[str]) -> Optional[str]:
        ans = model[0]
        if case["kind"] == "build":
            want = "reject" if "reject" in impl else ";".join(impl["slots"])
            return None if ans == want else f"entry points {case['calls']}: implementation {impl}, model {ans}"
        if case["kind"] == "series":
            want = ";".join(impl["side"])
            return None if ans == want else f"from_series: implementation {want}, model {ans}"
        if case["kind"] == "reject":
            if "reject" in impl and ans == "bad-op":
                return None
            return f"ill-formed input {case['what']}: implementation {impl}, model {ans}"
        if case["kind"] == "face":
            pts = "[" + ",".join(map(str, impl["pts"])) + "]"
            eds = ";".join(
                f"{e['kind']}:{e['tag']}:{e['angle']}:" + ("_".join(",".join(p) for p in e["pts"]) if e["pts"] else "-")
                for e in impl["edges"]
            )
            want = pts + " " + eds
            return None if ans == want else f"face after {case['face']['fops']}: implementation {want}, model {ans}"
        m = re.fullmatch(r"V\[(.*)\] B\[(.*)\] E\[(.*)\] W\[(.*)\]", ans)
        if not m:
            return "unparsable model answer " + ans[:200]
        for n, stage in enumerate([impl] + impl.get("later", [])):
            why = self._compare_stage(m, stage)
            if why:
                return why if n == 0 else f"after {case['history'][:n]}: {why}"
        return None

    @staticmethod
    def _compare_stage(m, impl: Any) -> Optional[str]:
        v = [int(x) for x in m.group(1).split(",") if x]
        if v != impl["V"]:
            return f"vertex locations: implementation {impl['V']}, model {v}"
        b = [[int(x) for x in blk.strip("[]").split(",")] for blk in m.group(2).split(";") if blk]
        if b != impl["B"]:
            return f"block vertices: implementation {impl['B']}, model {b}"
        es = [x for x in m.group(3).split(";") if x]
        want = [
            f"{e['kind']}:{e['v1']}:{e['v2']}:{e['tag']}:{e['angle']}:" + ("_".join(",".join(p) for p in e["pts"]) if e["pts"] else "-")
            for e in impl["E"]
        ]
        if es != want:
            return f"edge list: implementation {want}, model {es}"
        ws = [x.split(":") for x in m.group(4).split(";") if x]
        if len(ws) != 12 * len(impl["W"]):
            return f"model lists {len(ws)} wires for {len(impl['W'])} blocks"
        for n, blk in enumerate(impl["W"]):
            got = {}
            for c1, c2, v1, v2, kind, tag, listed in ws[12 * n : 12 * n + 12]:
                a, bb = sorted((int(c1), int(c2)))
                got[f"{a}-{bb}"] = (int(v1), int(v2), kind, int(tag), int(listed))
            for key, w in blk.items():
                have = (w["v1"], w["v2"], w["kind"], w["tag"], w["listed"])
                if got.get(key) != have:
                    return f"block {n} wire {key}: implementation holds {have}, model {got.get(key)}"
        return None

    # ------------------------------------------------------------------ oracle (property stated on the implementation)
    def _described(self, case: dict) -> List[dict]:
        """every curved datum of the case with the directed location pair it was described for and
        the input class it belongs to"""
        out = []
        for n, op in enumerate(case["ops"]):
            for key in ("bottom", "top"):
                f = op[key]
                rm = f.get("remove")
                gone = set(range(4)) if rm in ("noarg", "none") else set(rm or [])  # what the user asked to remove
                for i, d in enumerate(f["edges"]):
                    if d is not None and i not in gone:
                        inv = sum(1 for o in f["fops"] if o[0] == "invert") % 2
                        moved = any(o[0] != "invert" for o in f["fops"])
                        cls = "inverted-face" if inv else ("shifted-face" if moved else ("closing-edge" if i == 3 else "face-edge"))
                        if "remove" in f:
                            cls += "-kept-by-remove_edges"
                        out.append({"d": d, "op": n, "cls": cls, "a": f["pts"][i], "b": f["pts"][(i + 1) % 4]})
            for i, d in enumerate(op["side"]):
                if d is not None:
                    out.append({"d": d, "op": n, "cls": "side-edge-inverted-op" if op.get("invert") else "side-edge", "a": d["from"], "b": d["to"]})
        return out

    def _valid(self, x: dict) -> bool:
        d = x["d"]
        if x["a"] == x["b"]:
            return False
        if d["k"] == "arc" and d.get("collinear"):
            return False
        return True

    def _expected_length(self, x: dict, locs) -> Tuple[float, float]:
        """(length of the described curve, relative tolerance)"""
        d = x["d"]
        A, B = unfrs(locs[x["a"]]), unfrs(locs[x["b"]])
        k = d["k"]
        if k in ("spline", "polyLine"):
            return polyline_length([A] + [unfrs(p) for p in d["pts"]] + [B]), 1e-9
        if k == "arc":
            return arc3_length(A, unfrs(d["p"]), B), 1e-7
        if k == "origin":
            C, r, _ = origin_arc(A, B, unfrs(d["o"]))
            ra, rb = vsub(fl(A), C), vsub(fl(B), C)
            return r * math.acos(max(-1.0, min(1.0, vdot(ra, rb) / (vnorm(ra) * vnorm(rb))))), 1e-6
        if k == "angle":
            _, r, _ = angle_arc(A, B, unfrs(d["axis"]), float(Fr(d["angle"])))
            return r * abs(float(Fr(d["angle"]))), 1e-6
        if k == "project":
            return vnorm(vsub(fl(A), fl(B))), 1e-9
        fn = curve_fn(unfrs(d["A"]), unfrs(d["B"]), unfrs(d["w"]))
        return polyline_length([fn(i / 1000) for i in range(1001)]), 2e-3

    def oracle(self, case: dict, impl: Any) -> List[dict]:
        if case["kind"] == "reject":
            return []  # which inputs must be refused is C20's subject
        if case["kind"] == "face":
            return self._oracle_face(case, impl)
        if case["kind"] == "revolve":
            return self._oracle_revolve(case, impl)
        if case["kind"] == "curvemove":
            return self._oracle_curvemove(case, impl)
        if case["kind"] == "build":
            return self._oracle_build(case, impl)
        if case["kind"] == "series":
            return self._oracle_series(case, impl)
        found = self._oracle_stage(case, impl)
        for n, stage in enumerate(impl.get("later", [])):
            for v in self._oracle_stage(case, stage):
                found.append(dict(v, site=v["site"] + ":after-reassembly", what=f"after {case['history'][: n + 1]}: {v['what']}"))
        return found

    def _oracle_stage(self, case: dict, impl: Any) -> List[dict]:
        out: List[dict] = []
        locs = case["locs"]
        pos = [fl(unfrs(l)) for l in locs]
        V = impl["V"]
        if -1 in V or len(set(V)) != len(V):
            return []  # vertex numbering is C05's subject; nothing can be said here

        ctx = (":far-from-origin" if case.get("far") else "") + (":arrays-shared-then-translated" if case.get("alias") else "")

        def viol(site, what, obs=None, exp=None):
            out.append({"site": site + ctx, "what": what, "observed": obs, "expected": exp})

        # the side data were described for the end points the operation showed at that moment
        claimed = {x["d"]["tag"]: (x["a"], x["b"]) for x in self._described(case) if x["cls"].startswith("side-edge")}
        for tag, a, b in impl["side_ends"]:
            if claimed.get(tag) != (a, b):
                return []  # the faces were re-indexed differently from what the generator assumed (C10's subject)

        # --- the written text, parsed
        written = []
        comment = None
        for line in impl["text"].splitlines()[2:]:
            line = line.strip()
            if not line or line == ");":
                continue
            if line.startswith("//"):
                comment = line
                continue
            m = re.fullmatch(r"(\w+) (\d+) (\d+) \((.*)\)", line)
            if not m:
                viol("EdgeList.description:unparsable-entry", line)
                continue
            written.append({"kind": m.group(1), "v1": int(m.group(2)), "v2": int(m.group(3)), "body": m.group(4), "comment": comment})
            comment = None
        if len(written) != len(impl["E"]):
            viol("EdgeList.description:entry-count", f"{len(written)} lines for {len(impl['E'])} edges")
            return out

        # 1. unique
        seen = {}
        for n, w in enumerate(written):
            key = frozenset((w["v1"], w["v2"]))
            if key in seen:
                viol("EdgeList.add:duplicate-entry", f"entries {seen[key]} and {n} join the same vertices {sorted(key)}", impl["text"])
            seen[key] = n
        # 2. on a block edge
        block_edges = set()
        for blk in impl["B"]:
            for a, b in BM_EDGES:
                block_edges.add(frozenset((blk[a], blk[b])))
        for w in written:
            if w["v1"] == w["v2"]:
                viol("Edge.is_valid:zero-length-written", f"entry {w['kind']} {w['v1']} {w['v2']} joins a vertex with itself")
            elif frozenset((w["v1"], w["v2"])) not in block_edges:
                viol("EdgeList.add_from_operation:not-a-block-edge", f"entry {w['kind']} {w['v1']} {w['v2']}")
        if out:
            return out

        # 3./4. kept exactly once with kind and data, omitted when invalid; direction
        by_pair: Dict[frozenset, List[dict]] = {}
        for x in self._described(case):
            by_pair.setdefault(frozenset((x["a"], x["b"])), []).append(x)
        entry_of: Dict[frozenset, Tuple[dict, dict]] = {}
        for w, e in zip(written, impl["E"]):
            entry_of[frozenset((V[w["v1"]], V[w["v2"]]))] = (w, e)
        for pair, xs in by_pair.items():
            valid = [x for x in xs if self._valid(x)]
            if not valid:
                if pair in entry_of:
                    w = entry_of[pair][0]
                    why = "zero-length" if len(pair) == 1 else "collinear-arc"
                    viol(f"Edge.is_valid:{why}-written", f"entry {w['kind']} {w['v1']} {w['v2']} for data {[x['d'] for x in xs]}")
                continue
            if pair not in entry_of:
                kept = ":kept-by-remove_edges" if "remove_edges" in valid[0]["cls"] else ""
                viol(f"EdgeList.add:valid-edge-missing:{valid[0]['d']['k']}{kept}", f"no entry for {valid[0]['d']} (locations {sorted(pair)})", impl["text"])
                continue
            w, e = entry_of[pair]
            problems = []
            for x in valid:
                p = self._match(x, w, e, V, pos, locs)
                if p is None:
                    break
                problems.append((x, p))
            else:
                x, p = next((q for q in problems if q[1][0] == "direction"), problems[0])
                head = {"direction": "edge-direction", "side": "arc-wrong-side-of-chord"}.get(p[0], "edge-data")
                sign = ":negative" if x["d"]["k"] == "angle" and Fr(x["d"]["angle"]) < 0 else ""
                if x["d"]["k"] == "origin":
                    O = fl(unfrs(x["d"]["o"]))
                    da, db = vnorm(vsub(pos[x["a"]], O)), vnorm(vsub(pos[x["b"]], O))
                    if abs(da - db) > 1e-7:  # which end of the *entry* the origin is nearer to
                        first_is_a = V[w["v1"]] == x["a"]
                        sign = ":origin-nearer-to-" + ("first" if (da < db) == first_is_a else "second") + "-vertex"
                viol(f"{head}:{x['cls']}:{x['d']['k']}{sign}", p[1], w, x["d"])
        for pair, (w, e) in entry_of.items():
            if pair not in by_pair:
                viol("EdgeList.add:entry-without-datum", f"entry {w['kind']} {w['v1']} {w['v2']} was not described by the user")
        if out:
            return out

        # 5. the length every wire reports is that of the described curve
        for n, blk in enumerate(impl["W"]):
            for key, wire in blk.items():
                a, b = wire["wv"]
                pair = frozenset((V[a], V[b]))
                if len(pair) == 1:
                    continue  # collapsed wire (wedge): no length is described for it
                chord = vnorm(vsub(pos[V[a]], pos[V[b]]))
                if pair in entry_of and len(pair) == 2:
                    w, e = entry_of[pair]
                    x = next(x for x in by_pair[pair] if self._valid(x) and self._match(x, w, e, V, pos, locs) is None)
                    exp, tol = self._expected_length(x, locs)
                    site = f"Edge.length:{x['cls']}:{x['d']['k']}" + (":major-arc" if x["d"].get("major") else "")
                    first = min(y["op"] for y in by_pair[pair] if self._valid(y))
                    wedge = len(set(impl["B"][n])) < 8
                    if wire["length"] is not None and (first > n or (first == n and wedge)) and abs(wire["length"] - chord) <= 1e-9 * max(1.0, chord) and not wire["listed"]:
                        # the wire was made before anything defined this edge (an earlier block, or the coincident
                        # wire of a collapsed block that comes first in the enumeration) and was left with its straight
                        # line (repaired in Mesh.assemble; the former known finding Wire.edge:defined-later)
                        site = "Wire.edge:stale-line-after-later-definition"
                else:
                    exp, tol, site = chord, 1e-9, "Edge.length:straight"
                if wire["length"] is None or not abs(wire["length"] - exp) <= tol * max(1.0, exp):
                    viol(site, f"block {n} wire {key} reports length {wire['length']}, the described curve has {exp}", wire["length"], exp)
        return out

    def _match(self, x: dict, w: dict, e: dict, V, pos, locs) -> Optional[Tuple[str, str]]:
        """None when the written entry (text w, object e) is the curve x describes; otherwise
        (class, explanation) with class `direction` when it is that curve's data listed from the wrong end"""
        d = x["d"]
        k = d["k"]
        rep = "arc" if k in ("arc", "origin", "angle") else ("spline" if k == "curve" else k)
        if w["kind"] != rep or e["tag"] != d["tag"]:
            return ("data", f"entry {w['kind']} {w['v1']} {w['v2']} (object {e['tag']}) is not {k} datum {d['tag']}")
        forward = V[w["v1"]] == x["a"]  # the entry runs the way the datum was described
        nums = [float(t) for t in re.findall(r"-?\d+\.\d+(?:e-?\d+)?|-?\d+", w["body"])] if k != "project" else []
        triples = [nums[i : i + 3] for i in range(0, len(nums), 3)]
        close = lambda p, q, eps: all(abs(float(a) - float(b)) <= eps for a, b in zip(p, q))
        if k in ("spline", "polyLine"):
            want = [fl(unfrs(p)) for p in d["pts"]]
            if not forward:
                want = want[::-1]
            if len(triples) != len(want) or not all(close(p, q, 2e-8) for p, q in zip(triples, want)):
                rev = len(triples) == len(want) and all(close(p, q, 2e-8) for p, q in zip(triples, want[::-1]))
                return (
                    "direction" if rev else "data",
                    f"{k} {w['v1']} {w['v2']} lists its points from vertex {w['v2']} to vertex {w['v1']}" if rev else f"{k} points differ: {triples} vs {want}",
                )
            return None
        if k == "project":
            return None if w["body"].split() == sorted(d["labels"]) else ("data", f"labels {w['body']} vs {d['labels']}")
        if k == "arc":
            return None if close(triples[0], fl(unfrs(d["p"])), 2e-8) else ("data", f"arc point {triples[0]} vs {d['p']}")
        if k == "curve":
            fn = curve_fn(unfrs(d["A"]), unfrs(d["B"]), unfrs(d["w"]))
            n = d["n"]
            t1, t2 = (0.0, 1.0) if forward else (1.0, 0.0)
            want = [fn(t1 + (t2 - t1) * i / (n + 1)) for i in range(1, n + 1)]
            if len(triples) != n or not all(close(p, q, 1e-5) for p, q in zip(triples, want)):
                rev = len(triples) == n and all(close(p, q, 1e-5) for p, q in zip(triples, want[::-1]))
                return ("direction" if rev else "data", f"curve points {triples} vs {want}")
            return None
        # origin / angle: the arc's third point
        A, B = unfrs(locs[x["a"]]), unfrs(locs[x["b"]])
        M = self._expected_third({**d, "from": x["a"], "to": x["b"]}, locs)
        if k == "angle":
            th = float(Fr(d["angle"]))
            cm = re.fullmatch(r"// arc (\d+) (\d+) (\S+) \((.*)\)", w["comment"] or "")
            if not cm or (int(cm.group(1)), int(cm.group(2))) != (w["v1"], w["v2"]):
                return ("data", f"angle comment {w['comment']!r} does not go with entry {w['v1']} {w['v2']}")
            want = th if forward else -th
            if abs(float(cm.group(3)) - want) > 1e-9:
                return ("direction" if abs(float(cm.group(3)) + want) < 1e-9 else "data", f"arc {w['v1']} {w['v2']} is written with angle {cm.group(3)}, the described sense from vertex {w['v1']} is {want}")
        if not close(triples[0], M, 1e-6):
            # the mirror image of the mid point about the chord = the arc bulging to the other side
            mid = vmul(0.5, vadd(fl(A), fl(B)))
            other = vsub(vmul(2.0, mid), M)
            if close(triples[0], other, 1e-6) and k == "angle":
                return ("side", f"arc {w['v1']} {w['v2']} passes through {triples[0]}: the mirror image, about the chord, of the described arc's point {M}")
            side = vdot(vsub(triples[0], mid), vsub(M, mid))
            return ("side" if side < 0 else "data", f"arc {w['v1']} {w['v2']} passes through {triples[0]}, the described arc through {M}" + (" (other side of the chord)" if side < 0 else ""))
        return None

    def _oracle_build(self, case: dict, impl: Any) -> List[dict]:
        """every slot holds the datum the user put there last (a line when it was never set, set to None, or
        removed); a history with valid indices only is not refused. (Which invalid calls must be refused is C20's
        subject: nothing is said about them here.)"""
        slots = {}
        ok = True
        for w, init in (("b", case["binit"]), ("t", case["tinit"])):
            if init is not None:
                if len(init) != 4:
                    ok = False
                    break
                for i, d in enumerate(init):
                    slots[(w, i)] = d
        key = lambda d: "line:0" if d is None else f"{d['k']}:{d['tag']}"
        if ok:
            for c in case["calls"]:
                if c[0] == "ae":
                    if not 0 <= c[2] <= 3:
                        ok = False
                        break
                    slots[(c[1], c[2])] = c[3]
                elif c[0] == "re":
                    cs = range(4) if c[2] in ("noarg", "none") else c[2]
                    if any(not 0 <= i <= 3 for i in cs):
                        ok = False
                        break
                    for i in cs:
                        slots[(c[1], i)] = None
                else:
                    if not 0 <= c[1] <= 3:
                        ok = False
                        break
                    slots[("s", c[1])] = c[2]
        if not ok:
            return []
        if "reject" in impl:
            return [{"site": "entry-points:valid-history-refused", "what": f"{case} -> {impl}"}]
        want = [key(slots.get((w, i))) for w in "bts" for i in range(4)]
        if impl["slots"] != want:
            bad = [f"{'bts'[n // 4]}{n % 4}" for n, (a, b) in enumerate(zip(impl["slots"], want)) if a != b]
            return [{"site": "entry-points:slot-does-not-hold-the-last-datum", "what": f"slots {bad} after {case['calls']}", "observed": impl["slots"], "expected": want}]
        return []

    def _oracle_series(self, case: dict, impl: Any) -> List[dict]:
        """from_series: an arc through the single face in between / a spline through the faces in between, written
        from the bottom vertex to the top vertex with its points in the order of the faces"""
        out = []
        faces = [[fl(unfrs(p)) for p in f] for f in case["faces"]]
        mids = faces[1:-1]
        entries = []
        for line in impl["text"].splitlines()[2:]:
            m = re.fullmatch(r"(\w+) (\d+) (\d+) \((.*)\)", line.strip())
            if m:
                nums = [float(x) for x in re.findall(r"-?\d+\.\d+(?:e-?\d+)?|-?\d+", m.group(4))]
                entries.append((m.group(1), int(m.group(2)), int(m.group(3)), [nums[i : i + 3] for i in range(0, len(nums), 3)]))
        if not mids:
            return [] if not entries else [{"site": "Operation.from_series:entries-for-two-faces", "what": impl["text"]}]
        close = lambda p, q: all(abs(a - b) <= 2e-8 for a, b in zip(p, q))
        # an arc whose point is collinear with its two ends is (rightly) omitted; the jitter is in 1/16 steps, so the
        # cross product of the arms is exactly 0 or at least 1/32
        expected = 0
        for i in range(4):
            if len(mids) > 1:
                expected += 1
            else:
                a1, a2 = vsub(faces[0][i], mids[0][i]), vsub(faces[-1][i], mids[0][i])
                expected += vnorm(vcross(a1, a2)) > 1e-3
        if len(entries) != expected:
            return [{"site": "Operation.from_series:side-edges-missing", "what": f"{len(entries)} entries, {expected} non-collinear side curves: " + impl["text"]}]
        for kind, a, b, pts in entries:
            i = next((i for i in range(4) if close(impl["P"][a], faces[0][i]) or close(impl["P"][a], faces[-1][i])), None)
            if i is None:
                out.append({"site": "Operation.from_series:entry-off-the-corners", "what": f"{kind} {a} {b}"})
                continue
            want = [m[i] for m in mids]
            if close(impl["P"][a], faces[-1][i]):
                want = want[::-1]
            if kind != ("arc" if len(mids) == 1 else "spline") or len(pts) != len(want) or not all(close(p, q) for p, q in zip(pts, want)):
                out.append({"site": "Operation.from_series:points-not-in-face-order", "what": f"{kind} {a} {b} lists {pts}, the faces in between give {want}", "observed": pts, "expected": want})
        return out

    def _oracle_curvemove(self, case: dict, impl: Any) -> List[dict]:
        """at every output the points of the curve-snapped entry run, evenly in the parameter, between the *current*
        positions of the entry's two vertices (in that order) and the wires on that pair report that piece's length"""
        out: List[dict] = []
        op = case["op"]
        d = next(x for x in op["bottom"]["edges"] + op["top"]["edges"] + op["side"] if x is not None)
        ia, ib = impl["ends"]["from"], impl["ends"]["to"]
        if ia < 0 or ib < 0 or ia == ib:
            return []
        fn = curve_fn(unfrs(d["A"]), unfrs(d["B"]), unfrs(d["w"]))
        n = d["n"]
        t = {"from": 0.0, "to": 1.0}
        for k, st in enumerate(impl["stages"]):
            if k > 0:
                end, tn = case["moves"][k - 1]
                t[end] = float(Fr(tn))
            when = "first-output" if k == 0 else "after-move"
            entries = []
            for line in st["text"].splitlines()[2:]:
                m = re.fullmatch(r"(\w+) (\d+) (\d+) \((.*)\)", line.strip())
                if m:
                    entries.append((m.group(1), int(m.group(2)), int(m.group(3)), m.group(4)))
            mine = [e for e in entries if {e[1], e[2]} == {ia, ib}]
            if len(entries) != 1 or len(mine) != 1 or mine[0][0] != "spline":
                out.append({"site": f"OnCurveEdge:entry:{when}", "what": f"expected one spline entry between vertices {ia} and {ib}: {st['text']}"})
                continue
            _, v1, v2, body = mine[0]
            nums = [float(x) for x in re.findall(r"-?\d+\.\d+(?:e-?\d+)?|-?\d+", body)]
            pts = [nums[i : i + 3] for i in range(0, len(nums), 3)]
            t1, t2 = (t["from"], t["to"]) if v1 == ia else (t["to"], t["from"])
            # the vertices are where the case put them
            if vnorm(vsub(st["P"][v1], fn(t1))) > 1e-9 or vnorm(vsub(st["P"][v2], fn(t2))) > 1e-9:
                return []
            want = [fn(t1 + (t2 - t1) * i / (n + 1)) for i in range(1, n + 1)]
            if len(pts) != n or any(vnorm(vsub(p, q)) > 2e-5 for p, q in zip(pts, want)):
                out.append(
                    {
                        "site": f"OnCurveEdge:points:{when}",
                        "what": f"output {k} (moves {case['moves'][:k]}): spline {v1} {v2} lists {pts}; the curve between the vertices' positions (parameters {t1} -> {t2}) gives {want}",
                        "observed": pts,
                        "expected": want,
                    }
                )
                continue
            m_ = 400
            exp = polyline_length([fn(t1 + (t2 - t1) * i / m_) for i in range(m_ + 1)])
            for a, b, wl in st["lengths"]:
                if {a, b} == {ia, ib} and (wl is None or abs(wl - exp) > 2e-3 * max(1.0, exp)):
                    out.append({"site": f"OnCurveEdge:length:{when}", "what": f"output {k}: the wire {a}-{b} reports length {wl}, the piece of the curve between its vertices has {exp}", "observed": wl, "expected": exp})
        return out

    def _oracle_revolve(self, case: dict, impl: Any) -> List[dict]:
        """the four side edges of a Revolve, also after the operation was inverted / mirrored / rotated / moved:
        `arc a b` lies on the circle about the (transformed) revolve axis, turns from vertex a to vertex b by the
        written angle about the written axis, and its third point is vertex a turned by half of that angle — in
        particular it lies on the far side of the chord as seen from the axis (for sector angles below pi)"""
        out: List[dict] = []
        axis = fl(unfrs(case["axis"]))
        na = vnorm(axis)
        axis = [x / na for x in axis]
        origin = fl(unfrs(case["origin"]))
        theta = float(Fr(case["angle"]))
        # the axis line after the transforms (a line: the sign of the direction is irrelevant)
        for t in case.get("post", []):
            if t[0] == "mirror":
                n = fl(unfrs(t[1]))
                nn = vnorm(n)
                n = [x / nn for x in n]
                o = fl(unfrs(t[2]))
                origin = vsub(origin, vmul(2 * vdot(vsub(origin, o), n), n))
                axis = vsub(axis, vmul(2 * vdot(axis, n), n))
            elif t[0] == "rotate":
                k = fl(unfrs(t[2]))
                nk = vnorm(k)
                k = [x / nk for x in k]
                o = fl(unfrs(t[3]))
                origin = vadd(o, rot(vsub(origin, o), k, float(Fr(t[1]))))
                axis = rot(axis, k, float(Fr(t[1])))
            elif t[0] == "translate":
                origin = vadd(origin, fl(unfrs(t[1])))
        sign = "negative" if theta < 0 else "positive"
        how = "+".join(t[0] for t in case.get("post", [])) or "as-made"
        for n, st in enumerate(impl["stages"]):
            tail = ":after-reassembly" if n else ""
            P = st["P"]
            entries = []
            comment = None
            for line in st["text"].splitlines()[2:]:
                line = line.strip()
                if line.startswith("//"):
                    comment = line
                    continue
                m = re.fullmatch(r"arc (\d+) (\d+) \((.*)\)", line)
                if m:
                    entries.append((int(m.group(1)), int(m.group(2)), [float(t) for t in m.group(3).split()], comment))
                    comment = None
            sides = {frozenset((b[i], b[i + 4])) for b in st["B"] for i in range(4)}
            got = {frozenset((a, b)) for a, b, _, _ in entries}
            if len(entries) != len(got):
                out.append({"site": "EdgeList.add:duplicate-entry" + tail, "what": st["text"]})
            if got != sides:
                out.append({"site": "Revolve:side-arc-missing" + tail, "what": f"arcs on {sorted(map(sorted, got))}, side edges {sorted(map(sorted, sides))}", "observed": st["text"]})
                continue
            for a, b, M, comment in entries:
                cm = re.fullmatch(r"// arc (\d+) (\d+) (\S+) \((.*)\)", comment or "")
                if not cm or (int(cm.group(1)), int(cm.group(2))) != (a, b):
                    out.append({"site": "AngleEdge.description:comment" + tail, "what": f"comment {comment!r} for arc {a} {b}"})
                    continue
                th = float(cm.group(3))
                wax = [float(x) for x in cm.group(4).split()]
                ra, rb = vsub(P[a], origin), vsub(P[b], origin)
                # independent of what is written: the arc's point on the circle about the revolve axis
                ca = vadd(origin, vmul(vdot(ra, axis), axis))
                mid = vmul(0.5, vadd(P[a], P[b]))
                cmid = vadd(origin, vmul(vdot(vsub(mid, origin), axis), axis))
                rad = vnorm(vsub(P[a], ca))
                u = vsub(mid, cmid)
                geo = vadd(cmid, vmul((1.0 if abs(theta) < math.pi else -1.0) * rad / vnorm(u), u))
                if abs(vnorm(wax) - 1) > 1e-6 or abs(abs(vdot(wax, axis)) - 1) > 1e-6:
                    out.append({"site": f"Revolve:written-axis:{how}" + tail, "what": f"arc {a} {b} is written about the axis {wax}, the revolve axis after {how} is {axis}", "observed": wax, "expected": axis})
                elif abs(abs(th) - abs(theta)) > 1e-9 or vnorm(vsub(rot(ra, wax, th), rb)) > 1e-6:
                    out.append({"site": f"Revolve:arc-sense:{how}:{sign}" + tail, "what": f"arc {a} {b} is written with angle {th} about {wax}, but turning vertex {a} by it does not give vertex {b} (revolved by {theta}, then {how})"})
                elif vnorm(vsub(M, geo)) > 1e-6:
                    wrong_side = vdot(vsub(M, mid), vsub(geo, mid)) < 0
                    out.append(
                        {
                            "site": (f"AngleEdge.third_point:wrong-side-of-chord:{sign}" if wrong_side else f"AngleEdge.third_point:off-the-arc:{sign}") + tail,
                            "what": f"arc {a} {b} (angle {th}, {how}) passes through {M}, the arc about the revolve axis through {geo}",
                            "observed": M,
                            "expected": geo,
                        }
                    )
        return out

    def _oracle_face(self, case: dict, impl: Any) -> List[dict]:
        """a face call keeps every datum between the same two points and describing the same curve"""
        out = []
        f = case["face"]
        if sorted(impl["pts"]) != sorted(f["pts"]):
            return []  # C10's subject
        orig = {d["tag"]: (f["pts"][i], f["pts"][(i + 1) % 4], d) for i, d in enumerate(f["edges"])}
        inv = sum(1 for o in f["fops"] if o[0] == "invert") % 2
        for i, e in enumerate(impl["edges"]):
            a, b = impl["pts"][i], impl["pts"][(i + 1) % 4]
            if e["tag"] not in orig:
                out.append({"site": "Face:edge-datum-lost", "what": f"position {i} holds an unknown datum after {f['fops']}"})
                continue
            oa, ob, d = orig[e["tag"]]
            if {a, b} != {oa, ob}:
                continue  # C10's subject
            forward = (a, b) == (oa, ob)
            site = f"Face.{'invert' if inv else 'shift'}:direction-data:{d['k']}"
            if d["k"] in ("spline", "polyLine"):
                want = [[core.rat(float(Fr(c))) for c in p] for p in d["pts"]]
                if e["pts"] != (want if forward else want[::-1]):
                    out.append({"site": site, "what": f"after {f['fops']} the {d['k']} between points {a}->{b} lists its points {'backwards' if e['pts'] == (want[::-1] if forward else want) else 'wrongly'}", "observed": e["pts"], "expected": want if forward else want[::-1]})
            if d["k"] == "angle":
                want = Fr(d["angle"]) if forward else -Fr(d["angle"])
                if core.parse_rat(e["angle"]) != Fr(float(want)):
                    out.append({"site": site, "what": f"after {f['fops']} the angle between points {a}->{b} is {e['angle']}, described sense {want}", "observed": e["angle"], "expected": str(want)})
        return out

    def nontrivial_key(self, case, impl):
        import json

        if case["kind"] == "reject":
            return None
        if case["kind"] == "asm" and not any(d for op in case["ops"] for d in op["bottom"]["edges"] + op["top"]["edges"] + op["side"]):
            return None
        return json.dumps(case, sort_keys=True)

    def classify(self, case, impl):
        if case["kind"] == "reject":
            return "ill-formed:" + (impl.get("reject", "accepted") if isinstance(impl, dict) else "?")
        if case["kind"] == "curvemove":
            return "curvemove:" + "+".join(m[0] for m in case["moves"])
        if case["kind"] == "build":
            forms = "+".join(sorted({("noedges" if i is None else f"edges{len(i)}") for i in (case["binit"], case["tinit"])}))
            return "build:" + forms + ":" + ("+".join(sorted({c[0] for c in case["calls"]})) or "nocalls") + (":refused" if isinstance(impl, dict) and "reject" in impl else "")
        if case["kind"] == "series":
            return f"series:{len(case['faces'])}faces"
        if case["kind"] == "revolve":
            return "revolve:" + ("negative" if Fr(case["angle"]) < 0 else "positive") + (":" + "+".join(t[0] for t in case["post"]) if case.get("post") else "") + (":reassembled" if case.get("history") else "")
        if case["kind"] == "face":
            return "face:" + "+".join(sorted({o[0] for o in case["face"]["fops"]}))
        uses = sorted({{"inverted-face": "inverted", "shifted-face": "shifted"}.get(x["cls"].split("-kept")[0], "given") for x in self._described(case)})
        wedge = any(len(set(op["bottom"]["pts"])) < 4 for op in case["ops"])
        extra = (":far" if case.get("far") else "") + (":alias" if case.get("alias") else "") + (":major-arc" if case.get("note") == "major arc" else "")
        extra += ":remove_edges" if any("remove" in op[k] for op in case["ops"] for k in ("bottom", "top")) else ""
        return f"asm:{len(case['ops'])}op:" + ("+".join(uses) or "no-data") + (":wedge" if wedge else "") + (":reassembled" if case.get("history") else "") + extra

    def static_checks(self) -> List[str]:
        """the direction table the model computes from the generated tables, against the convention"""
        try:
            ans = core.run_driver(["c07.beams"])[0]
        except Exception as e:  # the build failed; reported elsewhere
            return []
        if ans in ("err", "bad-op"):
            return [f"model cannot enumerate the beams of an operation on the current tables ({ans})"]
        got = sorted(tuple(int(t) for t in x.split(":")) for x in ans.split(";"))
        want = sorted((a, b, s) for s, (a, b) in enumerate(SLOT_PAIR))
        return [] if got == want else [f"directed beams {got} differ from the face convention {want}"]


if __name__ == "__main__":
    sys.exit(core.main(C07()))
