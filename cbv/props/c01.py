"""C01 — blocks that share an edge agree on its cell count (model M-PROP, lean/CBV/Model/C01.lean)."""

from __future__ import annotations

import json
import random
import sys
from typing import Any, List, Optional

from .. import core
from .. import prop_common as pc


class C01(core.Check):
    pid = "C01"
    props_module = "CBV.Props.C01"
    workers = 8
    compare_level = "counts"
    modes = [("well", 0.26), ("row", 0.04), ("conflict", 0.18), ("double", 0.1), ("full", 0.1), ("under", 0.08), ("sandwich", 0.08), ("edge_conflict", 0.07), ("pair_conflict", 0.09)]
    rule = (
        "random subsets (1..8 quick / 1..14 thorough) of cells of a jittered, anisotropically scaled lattice "
        "(face, edge-only and vertex-only contacts, detached cells), each block with one of the 24 corner "
        "numberings, inserted in random order; per family of edges one chopped axis (well-posed), none, or two "
        "(same or conflicting counts); chop kinds: count, count+c2c, count+total, start+c2c, count+start, "
        "count+end, two-section multigrading, all preserve modes, single-cell counts; special modes: sandwich (also conflicting), "
        "edge-only conflict, pair conflict with leaning neighbours, fully chopped; histories: second write (with vertex moves), chops "
        "placed on the assembled mesh (Block.chop) then a third write, a typo in a multi-section chop corrected in place after the "
        "refused write, one block entered with corner noise below the merging tolerance, operations excluded with mesh.delete, "
        "faces or whole lattice planes declared as merged patch pairs (slave corners get vertices of their own). Non-trivial = at least two blocks share an "
        "edge; distinct = different assembly/chops."
    )
    PROP_ASSUMPTIONS = [
        "expansion of a chop on a wire is an oracle (independent geometric-progression arithmetic in the harness; C03's subject)",
        "count resolution of size-based chops uses the library's Chop.calculate on the axis' average length (C03's subject)",
        "iteration order of Axis.neighbours / Wire.coincidents is read from the implementation and handed to the model as schedule",
    ]
    assumptions = [
        "wire lengths (Wire.length, floats) are read from the implementation and enter the model as exact rationals; the model "
        "computes in exact arithmetic, the implementation in floats: specifications are compared to 1e-6 relative",
        "the answers of the numeric solvers (brentq roots of s(1+c+..+c^(n-1)) = L, T**(1/(n-1))) are found by bisection in the "
        "harness and accepted by the model only if they satisfy C03's exact specification of the step (residual 1e-9); counts, "
        "preserved quantities, expansions per wire and the schedule are computed by the model",
        "where the exact count of a size-based chop and the library's differ because a quotient sits on a whole number within float "
        "rounding, the model continues with the library's count if it satisfies the count specification to 1e-9 (listed in B[..])",
    ]
    partial_note = (
        "cases whose preserved size does not fit an edge or needs an extreme ratio (brentq bracket) are judged by the file oracles only, "
        "not by the model; `count_start`/`count_end` with preserve=size need one validated solver answer per wire"
    )

    def corpus(self) -> List[dict]:
        """the three propagation properties share their minimised cases"""
        out = []
        for pid in ("c01", "c02", "c04"):
            d = core.CORPUS / pid
            for f in sorted(d.glob("*.json")) if d.is_dir() else []:
                c = json.loads(f.read_text())
                c.setdefault("origin", f"corpus/{pid}/{f.name}")
                out.append(c)
        return out

    def gen_cases(self, rng: random.Random, tier: str) -> List[dict]:
        n = 400 if tier == "quick" else 4000
        mb = 8 if tier == "quick" else 14
        cases = []
        for _ in range(n):
            r = rng.random()
            acc = 0.0
            mode = "well"
            for m, p in self.modes:
                acc += p
                if r < acc:
                    mode = m
                    break
            cases.append(pc.gen_case(rng, rng.randint(1, mb), mode))
        return cases

    def run_impl(self, case: dict) -> Any:
        return pc.prepare(case)

    def shrink_candidates(self, case: dict) -> List[dict]:
        return pc.shrink_candidates(case)

    # which model answers the main comparison: "geo" = c04.run (M-PROP with the chop calculator inside: counts, preserved
    # quantities, expansions and schedule computed by the model from the chop arguments, vertex indexes and wire lengths),
    # "prop" = c01.run (M-PROP on the schedule read from the implementation, expansions supplied by the harness).
    # Given the schedule comparison (always made), "geo" covers everything "prop" compares.
    model_paths = ("geo",)

    def _model_requests(self, internals: dict, chops: List[dict]) -> List[str]:
        out = []
        if "prop" in self.model_paths:
            out.append(pc.model_request(internals, chops))
        if "geo" in self.model_paths:
            out.append(pc.geo_request(internals, chops))
        return out

    def _model_compare(self, obs: dict, answers: List[str]) -> Optional[str]:
        k = 0
        if "prop" in self.model_paths:
            why = pc.compare_with_model(obs, answers[k], level=self.compare_level)
            if why:
                return why
            k += 1
        if "geo" in self.model_paths:
            return pc.compare_geo(obs, answers[k], level=self.compare_level)
        return None

    def requests(self, case: dict, impl: Any) -> List[str]:
        if "internals" not in impl or impl.get("chop_error") or impl.get("unrealisable") or impl.get("extreme"):
            return []
        # (the last request is always the schedule: neighbours and coincident wires built from the vertex indexes)
        reqs = self._model_requests(impl["internals"], impl["chops"])
        m3 = (impl.get("third") or {}).get("model")
        if m3:
            # the write after the late chops against a fresh model run on all chops placed so far (M-HIST)
            reqs += self._model_requests(m3["internals"], m3["chops"])
        m2 = (impl.get("second") or {}).get("model")
        if m2:
            # the write after vertex moves against a fresh model run on the new wire lengths (M-HIST with the calculator inside)
            reqs += self._model_requests(m2["internals"], m2["chops"])
        reqs.append(pc.sched_request(impl["internals"]))
        return reqs

    def compare(self, case: dict, impl: Any, model: List[str]) -> Optional[str]:
        why = pc.compare_sched(impl["internals"], model[-1])
        if why:
            return why
        k = len(self.model_paths)
        why = self._model_compare(impl, model[:k])
        m3 = (impl.get("third") or {}).get("model")
        if why is None and m3 and len(model) > 2 * k:
            why = self._model_compare(m3, model[k : 2 * k])
            if why:
                why = "write after late chops (session of M-HIST): " + why
        m2 = (impl.get("second") or {}).get("model")
        if why is None and m2:
            at = 2 * k if (m3 and len(model) > 2 * k) else k
            why = self._model_compare(m2, model[at : at + k])
            if why:
                why = "write after vertex moves (session with changed wire lengths): " + why
        return why

    def oracle(self, case: dict, impl: Any) -> List[dict]:
        out: List[dict] = []
        exp = pc.expected_outcome(case)
        oc = impl["outcome"]
        if oc == "hang":
            return [{"site": "Mesh.write:hang", "what": "write did not return within the time limit"}]
        if oc == "ok" and impl.get("unrealisable"):
            out.append({"site": "Mesh.write:unrealisable-preserved-size-written", "what": impl["unrealisable"]})
        if oc == "ok":
            out += pc.oracle_counts(impl)
            if exp == "inconsistent":
                out.append(
                    {
                        "site": "Mesh.write:conflicting-counts-written",
                        "what": "two chopped axes of one family demand different counts but the dictionary was written",
                    }
                )
        elif oc == "InconsistentGradingsError":
            if exp == "ok":
                out.append({"site": "Mesh.write:consistent-chops-rejected", "what": impl.get("message")})
        elif oc == "UndefinedGradingsError":
            pass  # C02's clause
        elif oc == "ValueError" and (impl.get("unrealisable") or impl.get("extreme")):
            pass  # a preserved size that does not fit on an edge is rejected (C03's clause)
        else:
            out.append({"site": f"Mesh.write:unexpected-{oc}", "what": impl.get("message")})
        # the same mesh written once more: a retry after an error or a second export obeys the property as well
        sec = impl.get("second") or {}
        if sec.get("outcome") == "ok":
            for v in pc.oracle_counts({"hex": sec["hex"]}):
                v["site"] += ":second-write"
                out.append(v)
            if exp == "inconsistent":
                out.append(
                    {
                        "site": "Mesh.write:conflicting-counts-written-on-second-write",
                        "what": f"first write: {oc}; the second write of the same mesh produced a dictionary",
                    }
                )
        elif sec.get("outcome") == "hang":
            out.append({"site": "Mesh.write:hang:second-write", "what": "second write did not return"})
        # chops placed on blocks of the assembled mesh afterwards (Block.chop), then written again
        th = impl.get("third") or {}
        if th.get("outcome") == "ok":
            for v in pc.oracle_counts({"hex": th["hex"]}):
                v["site"] += ":after-late-chops"
                out.append(v)
            if pc.expected_outcome(case, late=True) == "inconsistent":
                out.append(
                    {
                        "site": "Mesh.write:conflicting-counts-written-after-late-chops",
                        "what": f"chops {case.get('late')} placed on the assembled mesh make two chopped axes of one family "
                        "demand different counts, but the dictionary was written",
                    }
                )
        elif th.get("outcome") == "hang":
            out.append({"site": "Mesh.write:hang:after-late-chops", "what": "write after late chops did not return"})
        elif th.get("outcome") == "InconsistentGradingsError" and pc.expected_outcome(case, late=True) == "ok":
            out.append({"site": "Mesh.write:consistent-chops-rejected:after-late-chops", "what": th.get("message")})
        if oc != "ok" and impl.get("file_written"):
            out.append({"site": "Mesh.write:file-left-after-error", "what": oc})
        return out

    def nontrivial_key(self, case, impl):
        it = impl.get("internals") if isinstance(impl, dict) else None
        if not it or not any(it["coinc"]):
            return None
        return json.dumps(case, sort_keys=True)

    def classify(self, case, impl):
        return f"{case['kind']}:{impl.get('outcome')}:blocks={len(case['asm']['blocks'])//3*3}+"


if __name__ == "__main__":
    sys.exit(core.main(C01()))
